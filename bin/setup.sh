#!/bin/sh
# Builds the fact extractors offline. Nothing outside /verif is needed afterwards.
set -e
cd "$(dirname "$0")/.."
export CARGO_NET_OFFLINE=true
for t in tools/mirfacts tools/synfacts; do
  if [ -d "$t" ]; then (cd "$t" && cargo build --release --offline); fi
done
