"""Engine G: validation of generated sources (both table layouts) against the
table the compiler computed (hook dump). Works on syn items + token trees
produced by tools/synfacts; nothing generated is executed."""
import json
import os
import subprocess

from . import facts


# ---------------------------------------------------------------- token-tree helpers

def is_p(t, s=None):
    return t[0] == "p" and (s is None or t[1] == s)


def is_i(t, s=None):
    return t[0] == "i" and (s is None or t[1] == s)


def is_g(t, d=None):
    return t[0] == "g" and (d is None or t[1] == d)


def split(tokens, sep=","):
    out, cur = [], []
    for t in tokens:
        if is_p(t, sep):
            out.append(cur)
            cur = []
        else:
            cur.append(t)
    if cur:
        out.append(cur)
    return out


def flat(tokens):
    s = []
    tokens = list(tokens)
    # a trailing comma before a closing delimiter is formatting only
    while len(tokens) > 1 and is_p(tokens[-1], ","):
        tokens = tokens[:-1]
    for t in tokens:
        if t[0] == "g":
            close = {"(": ")", "{": "}", "[": "]", "": ""}[t[1]]
            s.append(t[1] + flat(t[2]) + close)
        else:
            s.append(t[1])
    return " ".join(s)


def path(tokens):
    """TK :: Num -> 'TK::Num' (None if not a plain path)"""
    parts = []
    for t in tokens:
        if t[0] == "i":
            parts.append(t[1])
        elif is_p(t, "::"):
            continue
        else:
            return None
    return "::".join(parts)


def last_seg(tokens):
    p = path(tokens)
    return p.split("::")[-1] if p else None


def match_arms(body):
    """body tokens `match x { arms }` -> (scrutinee tokens, [(pattern tokens, value tokens)])"""
    if not body or not is_i(body[0], "match"):
        return None, None
    i = 1
    scr = []
    while i < len(body) and not is_g(body[i], "{"):
        scr.append(body[i])
        i += 1
    if i >= len(body):
        return None, None
    arms = []
    for arm in split_arms(body[i][2]):
        for j, t in enumerate(arm):
            if is_p(t, "=>"):
                val = arm[j + 1:]
                # `=> { expr }`: the block is transparent
                while len(val) == 1 and is_g(val[0], "{"):
                    val = val[0][2]
                arms.append((arm[:j], val))
                break
    return scr, arms


def split_arms(tokens):
    """match arms: separated by ',' at top level, or a `{..}` block value without comma"""
    out, cur = [], []
    seen_arrow = False
    for t in tokens:
        if is_p(t, ","):
            if cur:
                out.append(cur)
            cur = []
            seen_arrow = False
            continue
        cur.append(t)
        if is_p(t, "=>"):
            seen_arrow = True
        elif seen_arrow and is_g(t, "{") and is_p(cur[-2], "=>"):
            out.append(cur)
            cur = []
            seen_arrow = False
    if cur:
        out.append(cur)
    return out


def rust_str(lit):
    """decode a Rust string literal token"""
    if lit.startswith("r"):
        n = 0
        i = 1
        while lit[i] == "#":
            n += 1
            i += 1
        return lit[i + 1: len(lit) - 1 - n]
    assert lit[0] == '"', lit
    s = lit[1:-1]
    out = []
    i = 0
    while i < len(s):
        c = s[i]
        if c != "\\":
            out.append(c)
            i += 1
            continue
        e = s[i + 1]
        if e == "n":
            out.append("\n"); i += 2
        elif e == "t":
            out.append("\t"); i += 2
        elif e == "r":
            out.append("\r"); i += 2
        elif e == "0":
            out.append("\0"); i += 2
        elif e in "\\\"'":
            out.append(e); i += 2
        elif e == "x":
            out.append(chr(int(s[i + 2:i + 4], 16))); i += 4
        elif e == "u":
            j = s.index("}", i)
            out.append(chr(int(s[i + 3:j], 16))); i = j + 1
        elif e == "\n":
            i += 2
            while i < len(s) and s[i] in " \t\n":
                i += 1
        else:
            out.append(e); i += 2
    return "".join(out)


# ---------------------------------------------------------------- loading

_items_cache = {}


def items_of(path_rs):
    if path_rs in _items_cache:
        return _items_cache[path_rs]
    cache = path_rs + ".items.json"
    if not os.path.exists(cache):
        r = subprocess.run([facts.SYNFACTS, "items", path_rs], capture_output=True, text=True)
        if r.returncode != 0:
            raise facts.ToolError("synfacts failed on %s: %s" % (path_rs, r.stderr[-500:]))
        with open(cache, "w") as f:
            f.write(r.stdout)
    d = json.load(open(cache))
    _items_cache[path_rs] = d
    return d


class Generated:
    """One generated parser: table dump + items of the parser (and actions) file."""

    def __init__(self, setdir, entry):
        self.setdir = setdir
        self.entry = entry
        self.table = json.load(open(os.path.join(setdir, "tables", entry["table"])))
        self.name = entry.get("parser_file_rel") or entry["table"]
        self.parser_path = os.path.join(setdir, "files", entry["parser_file"]) if entry.get("parser_file") else None
        self.actions_path = os.path.join(setdir, "files", entry["actions_file"]) if entry.get("actions_file") else None
        self.items = items_of(self.parser_path)["items"] if self.parser_path else []
        self.parse_error = items_of(self.parser_path).get("parse_error") if self.parser_path else "missing file"
        self.settings = self.table["settings"]

    def item(self, kind, ident):
        for it in self.items:
            if it["kind"] == kind and it.get("ident") == ident:
                return it
        return None

    def impl(self, trait_prefix, self_ty=None):
        for it in self.items:
            if it["kind"] == "impl" and it["trait"].replace(" ", "").startswith(trait_prefix) and (
                    self_ty is None or it["self_ty"].replace(" ", "").startswith(self_ty)):
                return it
        return None

    def fn(self, ident):
        return self.item("fn", ident)

    def enum_variants(self, ident):
        e = self.item("enum", ident)
        return [v["ident"] for v in e["variants"]] if e else None

    def actions_items(self):
        if not self.actions_path or not os.path.exists(self.actions_path):
            return None
        return items_of(self.actions_path)


def load_set(setdir):
    idx = json.load(open(os.path.join(setdir, "index.json")))
    return [Generated(setdir, e) for e in idx]


# ---------------------------------------------------------------- expected names

def prod_kind_name(table, p):
    nt = table["nonterminals"][p["nonterminal"]]["name"]
    if p["kind"]:
        return "%s%s" % (nt, p["kind"])
    return "%sP%d" % (nt, p["ntidx"] + 1)


def user_productions(table):
    aug = table["augmented_index"] - len(table["terminals"])
    augl = table["augmented_layout_index"]
    augl = augl - len(table["terminals"]) if augl is not None else None
    return [p for p in table["productions"] if p["nonterminal"] != aug and p["nonterminal"] != augl]


# ---------------------------------------------------------------- normal form

def parse_action(tokens, g):
    """Shift(State::X) | Reduce(PK::P, 2usize) | Accept | Error -> normal form"""
    if not tokens:
        return ("?",)
    head = tokens[0]
    # optional `Action::` / `Some(` wrappers are not produced by the templates
    if is_i(head, "Accept"):
        return "a"
    if is_i(head, "Error"):
        return "e"
    if is_i(head, "Shift") and len(tokens) > 1 and is_g(tokens[1], "("):
        st = last_seg(tokens[1][2])
        return ("s", g["state_idx"].get(st, "?%s" % st))
    if is_i(head, "Reduce") and len(tokens) > 1 and is_g(tokens[1], "("):
        parts = split(tokens[1][2])
        pk = last_seg(parts[0])
        ln = parts[1][0][1] if len(parts) > 1 and parts[1] and parts[1][0][0] == "l" else "?"
        ln = int(ln.replace("usize", "")) if ln.replace("usize", "").isdigit() else ln
        return ("r", g["prod_idx"].get(pk, "?%s" % pk), ln)
    return ("?", flat(tokens))


def expected_action(a):
    if a == "a":
        return "a"
    if "s" in a:
        return ("s", a["s"])
    return ("r", a["r"][0], a["r"][1])


def struct_fields(expr_tokens):
    """`Name { a: X, b: Y }` -> {a: tokens, b: tokens}"""
    for t in expr_tokens:
        if is_g(t, "{"):
            out = {}
            for f in split(t[2]):
                if len(f) >= 3 and f[0][0] == "i" and is_p(f[1], ":"):
                    out[f[0][1]] = f[2:]
            return out
    return {}


def array_elems(tokens):
    """`[a, b, c]` given as [group] -> list of token lists"""
    if len(tokens) == 1 and is_g(tokens[0], "["):
        return split(tokens[0][2])
    return None


def normal_form(gen):
    """Returns dict(actions[state][term] = [..], gotos[state][nonterm] = idx|None, token_kinds[state] = [(t, flag)],
    problems = [...])."""
    t = gen.table
    problems = []
    tk = gen.enum_variants("TokenKind") or []
    pk = gen.enum_variants("ProdKind") or []
    ntk = gen.enum_variants("NonTermKind") or []
    st = gen.enum_variants("State") or []
    g = {"state_idx": {n: i for i, n in enumerate(st)}, "term_idx": {n: i for i, n in enumerate(tk)},
         "nonterm_idx": {n: i for i, n in enumerate(ntk)}}
    # ProdKind variant -> production index through the expected names
    ups = user_productions(t)
    names = [prod_kind_name(t, p) for p in ups]
    if len(set(names)) != len(names):
        problems.append(("prodkind-duplicate", "duplicate ProdKind names %s" % sorted({n for n in names if names.count(n) > 1})))
    g["prod_idx"] = {}
    for p, n in zip(ups, names):
        g["prod_idx"].setdefault(n, p["idx"])
    nf = {"tk": tk, "pk": pk, "ntk": ntk, "st": st, "g": g, "problems": problems, "layout": None}
    pd = gen.item("static", "PARSER_DEFINITION")
    if pd is None:
        problems.append(("no-parser-definition", "static PARSER_DEFINITION not found"))
        return nf
    fields = struct_fields(pd["expr"])
    acts_f = array_elems(fields.get("actions", []))
    gotos_f = array_elems(fields.get("gotos", []))
    tks_f = array_elems(fields.get("token_kinds", []))
    if acts_f is None or gotos_f is None or tks_f is None:
        problems.append(("parser-definition-shape", "PARSER_DEFINITION fields actions/gotos/token_kinds not found"))
        return nf
    nterm = len(t["terminals"])
    nnt = len(t["nonterminals"])
    actions, gotos = [], []
    if acts_f and len(acts_f[0]) == 1 and acts_f[0][0][0] == "i":
        nf["layout"] = "functions"
        for fn_toks in acts_f:
            fname = fn_toks[0][1]
            f = gen.fn(fname)
            row = [[] for _ in range(nterm)]
            if f is None:
                problems.append(("action-fn-missing", fname))
                actions.append(row)
                continue
            scr, arms = match_arms(f["body"])
            if arms is None:
                problems.append(("action-fn-shape", fname))
                actions.append(row)
                continue
            for pat, val in arms:
                if len(pat) == 1 and is_i(pat[0], "_"):
                    if flat(val).replace(" ", "") not in ("vec![]", "Vec::new()"):
                        problems.append(("action-catch-all", "%s: `_ => %s`" % (fname, flat(val))))
                    continue
                tname = last_seg(pat)
                ti = g["term_idx"].get(tname)
                if ti is None:
                    problems.append(("action-arm-pattern", "%s: %s" % (fname, flat(pat))))
                    continue
                # Vec::from(&[a, b])
                lst = None
                for x in val:
                    if is_g(x, "("):
                        inner = [y for y in x[2] if not is_p(y, "&") and not is_p(y, ",")]
                        lst = array_elems(inner)
                if lst is None:
                    problems.append(("action-arm-value", "%s: %s" % (fname, flat(val)[:80])))
                    continue
                if row[ti]:
                    problems.append(("action-arm-duplicate", "%s: two arms for %s" % (fname, tname)))
                row[ti] = [parse_action(a, g) for a in lst]
            actions.append(row)
        for fn_toks in gotos_f:
            fname = fn_toks[0][1]
            row = [None] * nnt
            if fname == "goto_invalid":
                gotos.append(row)
                continue
            f = gen.fn(fname)
            if f is None:
                problems.append(("goto-fn-missing", fname))
                gotos.append(row)
                continue
            scr, arms = match_arms(f["body"])
            for pat, val in arms or []:
                if len(pat) == 1 and is_i(pat[0], "_"):
                    if not (val and is_i(val[0], "panic")):
                        problems.append(("goto-catch-all", "%s: `_ => %s`" % (fname, flat(val)[:60])))
                    continue
                ni = g["nonterm_idx"].get(last_seg(pat))
                si = g["state_idx"].get(last_seg(val))
                if ni is None or si is None:
                    problems.append(("goto-arm", "%s: %s => %s" % (fname, flat(pat), flat(val))))
                    continue
                row[ni] = si
            gotos.append(row)
    else:
        nf["layout"] = "arrays"
        for srow in acts_f:
            cells = array_elems(srow)
            row = []
            for cell in cells or []:
                acts = [parse_action(a, g) for a in (array_elems(cell) or [])]
                # prefix reader: everything after the first Error is padding
                real = []
                pad = False
                for a in acts:
                    if a == "e":
                        pad = True
                    elif pad:
                        problems.append(("padding-not-at-end", "an action follows Error padding in a cell (it is unreachable "
                                         "for the take_while reader)"))
                        real.append(a)
                    else:
                        real.append(a)
                # what the accessor returns: the prefix before the first Error
                visible = []
                for a in acts:
                    if a == "e":
                        break
                    visible.append(a)
                row.append(visible)
            actions.append(row)
        for srow in gotos_f:
            cells = array_elems(srow)
            row = []
            for cell in cells or []:
                if len(cell) == 1 and is_i(cell[0], "None"):
                    row.append(None)
                elif cell and is_i(cell[0], "Some") and len(cell) > 1:
                    row.append(g["state_idx"].get(last_seg(cell[1][2]), "?"))
                else:
                    row.append("?")
            gotos.append(row)
    tks = []
    for srow in tks_f:
        cells = array_elems(srow) or []
        row = []
        ended = False
        for cell in cells:
            if len(cell) == 1 and is_i(cell[0], "None"):
                ended = True
                continue
            if ended:
                problems.append(("token-kinds-padding", "Some(..) after None padding in token_kinds (unreachable for map_while)"))
            if cell and is_i(cell[0], "Some") and len(cell) > 1:
                inner = cell[1][2]
                tup = inner[0][2] if inner and is_g(inner[0], "(") else inner
                parts = split(tup)
                row.append((g["term_idx"].get(last_seg(parts[0]), "?"), parts[1][0][1] == "true"))
        tks.append(row)
    nf.update({"actions": actions, "gotos": gotos, "token_kinds": tks})
    return nf
