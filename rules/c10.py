"""C10 - the default AST carries every content token of the input, in input order."""
import re

from . import gen
from .gen import flat, is_g, is_i, is_p, split

LEVEL = "translation_validation"


def has_content(t, sym):
    nterm = len(t["terminals"])
    if sym == t["empty_index"]:
        return False
    if sym >= nterm:
        return True
    return t["terminals"][sym]["has_content"]


def sym_name(t, sym):
    nterm = len(t["terminals"])
    return t["terminals"][sym]["name"] if sym < nterm else t["nonterminals"][sym - nterm]["name"]


def count_next(tokens):
    """number of `i.next().unwrap()` in a match scrutinee"""
    f = flat(tokens).replace(" ", "")
    return f.count("i.next().unwrap()")


def split_off_len(tokens):
    """the N of `self.res_stack.split_off(self.res_stack.len() - N)`"""
    for i, t in enumerate(tokens):
        if is_i(t, "split_off") and i + 1 < len(tokens) and is_g(tokens[i + 1], "("):
            inner = tokens[i + 1][2]
            for j, x in enumerate(inner):
                if is_p(x, "-"):
                    rest = inner[j + 1:]
                    if len(rest) == 1:
                        return rest[0][1].replace("usize", "")
                    return flat(rest)
    return None


def call_args(val):
    """`NonTerminal::N(actions::f(context, a, b))` -> (N, f, [arg strings])"""
    # val: [NonTerminal, ::, N, (group)]
    if not (len(val) >= 4 and is_i(val[0], "NonTerminal") and is_g(val[-1], "(")):
        return None
    nt = val[2][1]
    inner = list(val[-1][2])
    while inner and is_p(inner[-1], ","):
        inner.pop()
    # inner: path :: f (args)
    if not inner or not is_g(inner[-1], "("):
        return None
    f = gen.last_seg(inner[:-1])
    args = [flat(a).replace(" ", "") for a in split(inner[-1][2])]
    return nt, f, args


def check_pattern(t, prod, L, pat_tokens):
    """pattern for the first L rhs symbols; returns (problems, number of bound params)"""
    bad = []
    if L > 1:
        if not (len(pat_tokens) == 1 and is_g(pat_tokens[0], "(")):
            return ["pattern is not a %d-tuple: %s" % (L, flat(pat_tokens)[:80])], 0
        elems = split(pat_tokens[0][2])
    else:
        elems = [pat_tokens]
    if len(elems) != L:
        return ["pattern has %d elements for %d stack symbols" % (len(elems), L)], 0
    k = 0
    for j, el in enumerate(elems):
        sym = prod["rhs"][j]
        if not has_content(t, sym):
            if not (len(el) == 1 and is_i(el[0], "_")):
                bad.append("position %d (%s, no content) is bound as %s" % (j, sym_name(t, sym), flat(el)))
            continue
        # Symbol::Terminal(Terminal::T(pK)) / Symbol::NonTerminal(NonTerminal::N(pK))
        f = flat(el).replace(" ", "")
        kind = "Terminal" if sym < len(t["terminals"]) else "NonTerminal"
        exp = "Symbol::%s(%s::%s(p%d))" % (kind, kind, sym_name(t, sym), k)
        if f != exp:
            bad.append("position %d binds %s, expected %s" % (j, f, exp))
        k += 1
    return bad, k


def expected_params(t, prod, L, types_hint=None):
    """argument list after `context` for a reduction of length L"""
    out = []
    k = 0
    for j, sym in enumerate(prod["rhs"]):
        if not has_content(t, sym):
            continue
        if j < L:
            out.append("p%d" % k)
            k += 1
        else:
            out.append("FILL")
    return out


def check_arm(t, prod, val, rn_len, problems):
    """val: tokens of the arm value of `ProdKind::X => val`"""
    n = len(prod["rhs"])
    content = [s for s in prod["rhs"] if has_content(t, s)]
    nt_name = t["nonterminals"][prod["nonterminal"]]["name"]
    if n == 0:
        ca = call_args(val)
        if ca is None or ca[0] != nt_name or ca[2] != ["context"]:
            problems.append("empty production arm is %s" % flat(val)[:100])
        return 1
    so = split_off_len(val)
    if not content:
        if so != str(n):
            problems.append("no-content production pops %s, |rhs| = %d" % (so, n))
        return 1
    checked = 0
    # locate the match statement(s)
    def inner_match(tokens):
        for i, x in enumerate(tokens):
            if is_i(x, "match"):
                return tokens[i:]
        return None
    if rn_len is None or rn_len == n:
        if so != str(n):
            problems.append("arm pops %s stack symbols, |rhs| = %d" % (so, n))
        m = inner_match(val)
        if m is None:
            # single no-content first symbol special case: `{ NonTerminal::N(f(context, ...)) }`
            ca = call_args([x for x in val if not is_i(x, "let")][-4:]) if val else None
            return 1
        check_match(t, prod, n, m, problems, nt_name)
        return 1
    # right-nulled
    if so != "prod_len":
        problems.append("right-nullable arm pops %s, expected prod_len" % so)
    m = inner_match(val)
    scr, arms = gen.match_arms(m) if m else (None, None)
    if arms is None or flat(scr).strip() != "prod_len":
        problems.append("right-nullable arm has no `match prod_len`")
        return 1
    lens = []
    for pat, v in arms:
        if len(pat) == 1 and is_i(pat[0], "_"):
            continue
        L = pat[0][1].replace("usize", "")
        if not L.isdigit():
            problems.append("unexpected length pattern %s" % flat(pat))
            continue
        L = int(L)
        lens.append(L)
        if L == 0:
            ca = call_args(v)
            exp = ["context"] + expected_params(t, prod, 0)
            if ca is None or not args_match(ca[2], exp):
                problems.append("length-0 arm passes %s, expected %s" % (ca[2] if ca else flat(v)[:60], exp))
        else:
            mm = inner_match(v)
            if mm is None:
                ca = call_args(v)
                exp = ["context"] + expected_params(t, prod, L)
                if ca is None or not args_match(ca[2], exp):
                    problems.append("length-%d arm passes %s, expected %s" % (L, ca[2] if ca else flat(v)[:60], exp))
            else:
                check_match(t, prod, L, mm, problems, nt_name)
        checked += 1
    if sorted(lens) != list(range(rn_len, n + 1)):
        problems.append("right-nullable arm handles lengths %s, table offers %d..=%d" % (sorted(lens), rn_len, n))
    return max(checked, 1)


def args_match(got, exp):
    if len(got) != len(exp):
        return False
    for g, e in zip(got, exp):
        if e == "FILL":
            if g not in ("None", "Box::new(None)"):
                return False
        elif g != e:
            return False
    return True


def check_match(t, prod, L, m, problems, nt_name):
    scr, arms = gen.match_arms(m)
    if arms is None:
        problems.append("no match over the popped symbols")
        return
    if count_next(scr) != L:
        problems.append("draws %d symbols from the popped part, expected %d" % (count_next(scr), L))
    main = [(p, v) for p, v in arms if not (len(p) == 1 and is_i(p[0], "_"))]
    if len(main) != 1:
        problems.append("%d non-catch-all arms" % len(main))
        return
    pat, v = main[0]
    bad, k = check_pattern(t, prod, L, pat)
    problems.extend(bad)
    ca = call_args(v)
    exp = ["context"] + expected_params(t, prod, L)
    if ca is None:
        problems.append("arm value is not NonTerminal::%s(action(..)): %s" % (nt_name, flat(v)[:80]))
        return
    if ca[0] != nt_name:
        problems.append("result is wrapped as NonTerminal::%s, production belongs to %s" % (ca[0], nt_name))
    if not args_match(ca[2], exp):
        problems.append("action %s is called with %s, expected %s (context, then the content symbols left to right)" % (
            ca[1], ca[2], exp))


def builder_arms(g):
    im = g.impl("LRBuilder<", "DefaultBuilder")
    if im is None:
        return None
    f = [x for x in im["items"] if x.get("ident") == "reduce_action"]
    if not f:
        return None
    body = f[0]["body"]
    # let prod = match prod { arms };
    for i, x in enumerate(body):
        if is_i(x, "match"):
            scr, arms = gen.match_arms(body[i:])
            return arms
    return None


def _snake(name):
    out = []
    for i, ch in enumerate(name):
        if ch.isupper() and i and (name[i - 1].islower() or name[i - 1].isdigit() or (i + 1 < len(name) and name[i + 1].islower())):
            out.append("_")
        out.append(ch.lower())
    return "".join(out)


def check_shift(g, res, rid, stats):
    """generated shift_action: every reachable terminal is wrapped as ITS OWN Terminal variant, with the value its own
    action makes of the token when it carries content; the wrapped value is pushed onto the result stack"""
    t = g.table
    name = (g.name or "").replace("target:", "")
    im = g.impl("LRBuilder<", "DefaultBuilder")
    f = [x for x in (im or {}).get("items", []) if x.get("ident") == "shift_action"]
    if not f:
        return
    body = f[0]["body"]
    arms = None
    for i, x in enumerate(body):
        if is_i(x, "match"):
            scr, arms = gen.match_arms(body[i:])
            break
    if not arms:
        return
    got = {}
    for pat, val in arms:
        got[gen.flat(pat).replace(" ", "")] = gen.flat(val).replace(" ", "")
    bad = []
    for term in t["terminals"]:
        if term["name"] == "STOP" or not term["reachable"]:
            continue
        k = "TokenKind::%s" % term["name"]
        v = got.get(k)
        if v is None:
            if "_" in got:
                continue
            bad.append("no arm for %s" % term["name"])
            continue
        if term["has_content"]:
            m = re.match(r"^Terminal::(\w+)\((?:\w+::)*(\w+)\(context,token\)\)$", v)
            if not m or m.group(1) != term["name"] or m.group(2).lower().replace("_", "") != _snake(term["name"]).replace("_", ""):
                bad.append("%s => %s" % (term["name"], v[:80]))
        elif v != "Terminal::%s" % term["name"]:
            bad.append("%s => %s" % (term["name"], v[:80]))
        stats["arms"] += 1
    tail = gen.flat(body).replace(" ", "")
    if "self.res_stack.push(Symbol::Terminal(val))" not in tail:
        bad.append("the shifted value is not pushed onto the result stack")
    if bad:
        res.violation(rid, "%s/shift_action" % name, "%s: DefaultBuilder::shift_action: %s (every terminal must become its own "
                      "Terminal variant through its own action)" % (name, "; ".join(bad[:3])), g.entry.get("parser_file_rel"))


def check_builder(g, res, rid, stats):
    t = g.table
    name = (g.name or "").replace("target:", "")
    arms = builder_arms(g)
    if arms is None:
        return
    by_kind = {}
    for pat, val in arms:
        if len(pat) == 1 and is_i(pat[0], "_"):
            continue
        by_kind[gen.last_seg(pat)] = val
    rn = t["rn_lengths"]
    n_arms = 0
    for p in gen.user_productions(t):
        nt = t["nonterminals"][p["nonterminal"]]
        if not nt["reachable"]:
            continue
        k = gen.prod_kind_name(t, p)
        val = by_kind.get(k)
        stats["productions"] += 1
        if val is None:
            res.violation(rid, "%s/%s/missing" % (name, k), "%s: no reduce_action arm for production %s" % (name, k),
                          g.entry.get("parser_file_rel"))
            continue
        problems = []
        n_arms += check_arm(t, p, val, rn[p["idx"]] if rn else None, problems)
        stats["arms"] += 1
        if problems:
            res.violation(rid, "%s/%s" % (name, k), "%s: DefaultBuilder arm of %s (%s): %s" % (
                name, k, " ".join(sym_name(t, s) for s in p["rhs"]), "; ".join(problems[:3])), g.entry.get("parser_file_rel"))
    res.ok(rid, name, g.entry.get("parser_file_rel"), "%d production arms" % n_arms)
    check_shift(g, res, rid, stats)
    # the result is the TOP of the result stack, unwrapped as the start symbol's nonterminal
    im = g.impl("Builder", "DefaultBuilder")
    gr = [x for x in (im or {}).get("items", []) if x.get("ident") == "get_result"]
    if gr:
        scr, garms = gen.match_arms(gr[0]["body"])
        sflat = gen.flat(scr).replace(" ", "") if scr else ""
        start_sym = t["start_index"] - len(t["terminals"])
        root = t["nonterminals"][start_sym]["name"] if 0 <= start_sym < len(t["nonterminals"]) else None
        pats = [gen.flat(pt).replace(" ", "") for pt, _v in (garms or []) if not (len(pt) == 1 and is_i(pt[0], "_"))]
        if sflat != "self.res_stack.pop().unwrap()":
            res.violation(rid, "%s/get_result" % name, "%s: get_result takes `%s`, expected the top of the result stack "
                          "(self.res_stack.pop().unwrap())" % (name, sflat[:80]), g.entry.get("parser_file_rel"))
        elif root and pats and pats != ["Symbol::NonTerminal(NonTerminal::%s(r))" % root]:
            res.violation(rid, "%s/get_result" % name, "%s: get_result unwraps %s, the start symbol is %s" % (name, pats[:2], root),
                          g.entry.get("parser_file_rel"))
        else:
            stats["arms"] += 1


# ---------------------------------------------------------------- generated actions

def idents(tokens):
    """identifiers used as values: not a field name in a struct literal (`name: value`), not a path
    segment after `::` and not a field/method after `.`"""
    for i, t in enumerate(tokens):
        if t[0] == "g":
            yield from idents(t[2])
        elif t[0] == "i":
            nxt = tokens[i + 1] if i + 1 < len(tokens) else None
            prv = tokens[i - 1] if i > 0 else None
            if nxt is not None and (is_p(nxt, ":") or is_p(nxt, "::")):
                continue
            if prv is not None and (is_p(prv, "::") or is_p(prv, ".")):
                continue
            yield t[1]


def gen_walk(tokens):
    for t in tokens:
        yield t
        if t[0] == "g":
            yield from gen_walk(t[2])


def check_actions(g, res, rid4, rid5, stats):
    ai = g.actions_items()
    if ai is None or g.settings["builder_type"] != "Default" or not g.settings["actions"] or not (g.settings["force"] or g.entry.get("witness")):
        return   # (with force off the actions file is user-maintained: out of scope)
    name = (g.entry.get("actions_file_rel") or "").replace("target:", "").replace("src:", "")
    if ai.get("parse_error"):
        res.violation(rid4, name + "/syntax", "generated actions file is not valid Rust: %s" % ai["parse_error"], name)
        return
    items = ai["items"]
    vec_types = {it["ident"] for it in items if it["kind"] == "type" and it["ty"].replace(" ", "").startswith("Vec<")}
    for it in items:
        if it["kind"] != "fn":
            continue
        params = [(p[0].replace("mut ", "").strip(), p[1].replace(" ", ""), p[0].startswith("mut ")) for p in it["params"]]
        if not params or not params[0][1].startswith("&Ctx"):
            continue
        stats["actions"] += 1
        body_ids = list(idents(it["body"]))
        ret = (it.get("ret") or "").replace(" ", "")
        non_ctx = params[1:]
        # terminal actions: `token.value.into()`
        if len(non_ctx) == 1 and non_ctx[0][1] == "Token":
            b = flat(it["body"]).replace(" ", "")
            if not ("token.value.into()" in b):
                res.violation(rid4, "%s/%s" % (name, it["ident"]), "%s: terminal action %s does not return the token text: %s" % (
                    name, it["ident"], b[:80]), name)
            continue
        is_vec = ret in vec_types
        for (pn, pty, mut) in non_ctx:
            c = body_ids.count(pn)
            if is_vec and pty == ret:
                ok = c == 2   # receiver of push/insert and the result
            else:
                ok = c == 1
            if not ok:
                res.violation(rid4, "%s/%s/%s" % (name, it["ident"], pn),
                              "%s: parameter `%s` of action %s is used %d time(s) in its body (a content value is dropped "
                              "or duplicated)" % (name, pn, it["ident"], c), name)
        nfn = stats.setdefault("_fns_" + name, 0)
        stats["_fns_" + name] = nfn + 1
        # vector build direction
        if is_vec and len(non_ctx) >= 2:
            vecp = [i for i, (pn, pty, mut) in enumerate(non_ctx) if pty == ret]
            if vecp:
                vi = vecp[0]
                b = flat(it["body"]).replace(" ", "")
                vn = non_ctx[vi][0]
                stats["vec_actions"] += 1
                others = [i for i in range(len(non_ctx)) if i != vi]
                elem_after = all(i > vi for i in others)
                if "%s.push(" % vn in b:
                    if elem_after:
                        res.ok(rid5, "%s/%s" % (name, it["ident"]), name, "left-recursive: push appends in input order")
                    else:
                        res.violation(rid5, "%s/%s" % (name, it["ident"]),
                                      "%s: vector action %s(%s): the element precedes the recursive vector in the production "
                                      "but is appended with push -> the vector is built in reverse input order" % (
                                          name, it["ident"], ", ".join(p[0] for p in non_ctx)), name)
                elif "%s.insert(0," % vn in b:
                    if not elem_after:
                        res.ok(rid5, "%s/%s" % (name, it["ident"]), name, "right-recursive: insert(0, ..) keeps input order")
                    else:
                        res.violation(rid5, "%s/%s" % (name, it["ident"]), "%s: left-recursive vector action %s inserts at the "
                                      "front (reverse order)" % (name, it["ident"]), name)


def _flush_action_counts(res, rid4, stats):
    for k in [k for k in stats if k.startswith("_fns_")]:
        res.ok(rid4, k[5:], k[5:], "%d action functions, parameters used linearly" % stats.pop(k))


def r7_bool_assignment(ctx, res):
    """`name?=Symbol` binds the PRESENCE of the symbol. The builder records that in Assignment.is_bool; something in the
    generator (types, actions) has to read it, or the field gets the token's text like any other."""
    F = ctx.facts("core")
    rid = res.rule("C10-R7", "a `?=` assignment yields a presence, not the text: the generator reads Assignment.is_bool when it builds "
                   "types and actions", floor=1)
    readers, writers = [], 0
    for path, f in F.fns.items():
        if f.crate != "rustemo_compiler" or not f.has_body() or "verif_dump" in path:
            continue
        hit = False
        for _, _, st in f.stmts():
            txt = repr(st.get("rv"))
            if "'name': 'is_bool'" in txt:
                hit = True
            if "'name': 'is_bool'" in repr(st.get("dst")) or ("'is_bool'" in repr((st.get("rv") or {}).get("names"))):
                writers += 1
        for _, tm in f.terms():
            if "'name': 'is_bool'" in repr(tm.get("op")) or "'name': 'is_bool'" in repr(tm.get("args")):
                hit = True
        if hit and "::generator::" in path:
            readers.append(mir.short(path))
    if not writers and not readers:
        res.anchor_lost(rid, "field is_bool not found in the compiler")
    elif readers:
        res.ok(rid, "bool-assignment-read", None, "read in %s" % readers[:3])
    else:
        res.violation(rid, "bool-assignment-unread", "Assignment.is_bool is set by the grammar builder and read nowhere in the generator: "
                      "`neg?=Minus` gives a field of the terminal's type holding the text (`neg: \"-\"`), not its presence",
                      "rustemo-compiler/src/generator")


def r8_terminal_content(ctx, res):
    """What a terminal carries into the AST is decided where the terminal is taken into the grammar: it has content unless it
    is written as a string match. The recogniser stored is the one written - a terminal written as a regular expression
    (even one that matches a single text) keeps its token text in the tree."""
    from . import mir
    from .mir import Sim, fmt
    F = ctx.facts("core")
    rid = res.rule("C10-R8", "a terminal has content unless it is WRITTEN as a string match: collect_terminals stores the recogniser as "
                   "parsed (no rewriting of one kind into the other) and has_content = false exactly for Recognizer::StrConst", floor=2)
    try:
        f = F.one(r"grammar::builder::GrammarBuilder::collect_terminals$")
    except Exception:      # noqa
        res.anchor_lost(rid, "GrammarBuilder::collect_terminals not found")
        return
    n, bad_rec, bad_tab, table = 0, None, None, set()
    for p in Sim(f, F, max_paths=200000).run():
        rewritten = None
        for e in p.events:
            if e[0] == "store" and isinstance(e[1], tuple) and e[1][0] == "field" and e[1][2] == "recognizer":
                rewritten = fmt(e[2])[:80]
            if e[0] == "call" and e[1].endswith("::insert") and len(e[2]) > 2 and mir.has_field(e[2][0], "terminals") is not None \
                    and isinstance(e[2][2], tuple) and e[2][2][0] == "agg":
                d = dict(e[2][2][2])
                rec, hc = d.get("recognizer"), d.get("has_content")
                if rec is None or hc is None:
                    continue
                n += 1
                as_parsed = isinstance(rec, tuple) and rec[0] == "field" and rec[2] == "recognizer" and \
                    mir.has_call(rec, "Iterator>::next") and rewritten is None
                if not as_parsed:
                    bad_rec = rewritten or fmt(rec)[:80]
                kind = None
                for c, v in p.cond:
                    if c[0] == "discr" and isinstance(v, frozenset) and len(v) == 1 and "recognizer" in fmt(c):
                        k = next(iter(v))
                        if k in ("StrConst", "RegexTerm"):
                            kind = k
                        elif k == "None" and kind is None:
                            kind = "None"
                        elif k == "Some" and kind is None:
                            kind = "Some"
                hc = {"0": 0, "1": 1, "false": 0, "true": 1}.get(fmt(hc), hc)
                if hc in (0, 1) and kind in ("StrConst", "RegexTerm", "None"):
                    table.add((kind, hc))
                elif hc not in (0, 1):
                    bad_tab = "has_content = %s" % fmt(hc)[:60]
    if n == 0:
        res.anchor_lost(rid, "no Terminal is inserted into self.terminals in collect_terminals", f.loc())
        return
    if bad_rec:
        res.violation(rid, "collect_terminals/recogniser-as-written", "the recogniser stored for a terminal is not the parsed one (%s): a "
                      "terminal written as a regular expression can become a string match and lose its text in the default AST" % bad_rec, f.loc())
    else:
        res.ok(rid, "collect_terminals/recogniser-as-written", f.loc(), "%d insert paths, recognizer = the parsed rule's, never reassigned" % n)
    want = {("StrConst", 0), ("RegexTerm", 1), ("None", 1)}
    if bad_tab or table != want:
        res.violation(rid, "collect_terminals/content-table", "has_content is not `false exactly for a string match`: %s" % (
            bad_tab or sorted(table)), f.loc())
    else:
        res.ok(rid, "collect_terminals/content-table", f.loc(), "StrConst -> no content; RegexTerm, no recogniser -> content")


def run(ctx, res):
    r7_bool_assignment(ctx, res)
    r8_terminal_content(ctx, res)
    rid = res.rule("C10-R1", "every DefaultBuilder reduce arm pops |rhs| symbols (prod_len in right-nulled arms, one arm per "
                   "offered length), binds the content positions p0,p1,.. left to right under the right variant names, and "
                   "calls the action with context, p0..pk in order (None fillers only for the nulled tail)", floor=30)
    rid4 = res.rule("C10-R4", "generated actions use every content parameter exactly once; terminal actions return the token text",
                    floor=30)
    rid5 = res.rule("C10-R5", "vector actions build in input order (push iff the vector precedes the element)", floor=5)
    stats = {"productions": 0, "arms": 0, "actions": 0, "vec_actions": 0}
    programs = 0
    sets = ["gen-functions"] + (["gen-arrays"] if ctx.tier == "thorough" else [])
    for fset in sets:
        for g in gen.load_set(ctx.dir(fset)):
            if g.settings["builder_type"] != "Default" or g.parse_error:
                continue
            programs += 1
            check_builder(g, res, rid, stats)
            check_actions(g, res, rid4, rid5, stats)
    from . import witness
    wprogs = witness.run_c10(ctx, res, check_builder, check_actions, stats)
    _flush_action_counts(res, rid4, stats)
    # "the same holds when a GLR tree is replayed through the builder, including right-nulled reductions": the two runtime
    # clauses behind that sentence are decided on MIR by C03-R6 and C07-S8 and shared here
    from . import c03, c07, report, mir
    rid6 = res.rule("C10-R6", "GLR replay: Tree::build walks a forest tree in post-order, children left to right, through the LR "
                    "builder protocol (C07-S8); the reducer extends the right-nulled children of the solution it matched, not "
                    "of another one (C03-R6)", floor=3)
    for mod, only in ((c03, ["C03-R6"]), (c07, ["C07-S8"])):
        sub = report.Result("C10", ctx.tier)
        try:
            mod.run(ctx, sub)
        except mir.AnchorLost as e:
            res.undecided(rid6, str(e))
            continue
        c07.adopt(res, rid6, sub, only=only)
        for u in sub.undecided_list:
            if any(u["rule"].startswith(o) for o in only):
                res.undecided(rid6, u["what"], u.get("where"))
    res.level = LEVEL
    res.extra.update({"programs": programs + wprogs, "disagreements_checked": stats["arms"] + stats["actions"],
                      "stats": stats, "witness_programs": wprogs})
    res.samples.append({"program": "calculator calc.rustemo", "production": "E: E Plus E", "arm":
                        "(Symbol::NonTerminal(NonTerminal::E(p0)), _, Symbol::NonTerminal(NonTerminal::E(p1))) => e_c1(context, p0, p1)"})
    res.explanation = (
        "Translation validation of the generated default builder: for each of %d generated parsers with the default "
        "builder (in-repo build + witness grammars), every production's reduce arm is compared with the production in the "
        "hook dump (rhs, content-ness, right-nulled length): stack split size, number of symbols drawn, binding pattern "
        "(variant names and p0..pk order), argument order of the action call and None fillers; the generated actions files "
        "are checked for linear use of parameters and the direction in which vectors are built. %d arms and %d action "
        "functions compared. Not decided: hand-maintained actions files; Tree::build replay order (runtime)." % (
            programs + wprogs, stats["arms"], stats["actions"]))
    res.assumptions = ["action functions are the generated ones (user-edited actions are out of scope)"]
