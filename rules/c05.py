"""C05 - conflicts resolve by the documented priority/associativity/prefer-shift rules."""
from . import mir, dtable
from .dtable import Atom, Context, Table, has_field, is_field, is_discr_of_field, is_call, is_bin
from .mir import Sim, fmt, callee

LEVEL = "other"
TABLE = "rustemo_compiler::table::"


def innermost_loop(f, block):
    best = None
    for (_, h) in f.back_edges():
        body = f.loop_blocks(h)
        if block in body and (best is None or len(body) < len(best[1])):
            best = (h, body)
    return best


def find_cmp_block(f):
    for b, t in f.calls():
        n = callee(t)
        if "core::cmp::Ord for u32>::cmp" in n or ("core::cmp::Ord" in n and n.endswith("::cmp")):
            return b
    return None


def actions_cell(t):
    """the `&mut state.actions[..]` cell itself (not a term merely containing it)"""
    return isinstance(t, tuple) and t[0] == "call" and "index" in t[1].lower() and t[2] and \
        isinstance(t[2][0], tuple) and t[2][0][0] == "field" and t[2][0][2] == "actions" \
        and str(t[2][0][3]).endswith("LRState")


def partition_field(i):
    def pred(t):
        return isinstance(t, tuple) and t[0] == "field" and t[2] == i and isinstance(t[1], tuple) \
            and t[1][0] == "call" and t[1][1].endswith("Iterator::partition")
    return pred


def region_paths(F, res, rid):
    f = F.one(r"^rustemo_compiler::table::LRTable::<'g, 's>::calculate_reductions$")
    cb = find_cmp_block(f)
    if cb is None:
        res.anchor_lost(rid, "priority comparison (Ord::cmp on u32) not found in calculate_reductions", f.loc())
        return f, None
    lp = innermost_loop(f, cb)
    if lp is None:
        res.anchor_lost(rid, "the priority comparison is not inside a loop over lookaheads", f.loc())
        return f, None
    paths = Sim(f, F).run(entry=lp[0])
    return f, paths


def is_prio_cmp(t):
    if isinstance(t, tuple) and t[0] == "discr":
        t = t[1]
    return isinstance(t, tuple) and t[0] == "call" and t[1].endswith("::cmp") and "core::cmp::Ord" in t[1] \
        and has_field("prio", "Production")(t[2][0])


def sr_outcome(p):
    popped = pushed = False
    other = []
    panic = None
    for e in p.events:
        if e[0] == "panic":
            panic = e
        if e[0] != "call" or not e[2]:
            continue
        if not actions_cell(e[2][0]):
            continue
        n = e[1]
        if n.startswith("alloc::vec::Vec::<T, A>::pop"):
            popped = True
        elif n.startswith("alloc::vec::Vec::<T, A>::push"):
            arg = e[2][1]
            if mir.contains(arg, lambda x: isinstance(x, tuple) and x[0] == "agg" and x[1].endswith("Action::Reduce")):
                pushed = True
            else:
                other.append("push(%s)" % fmt(arg)[:80])
        elif any(n.startswith("alloc::vec::Vec::<T, A>::" + m) for m in ("len", "is_empty", "clone", "iter")) \
                or "core::clone::Clone" in n or "index" in n:
            pass
        elif n.startswith("alloc::vec::Vec::<T, A>::"):
            other.append(mir.short(n))
    if panic is not None:
        return "PANIC"
    if other:
        return "OTHER(%s)" % ",".join(other)
    if popped and pushed:
        return "REDUCE"
    if pushed:
        return "BOTH"
    if popped:
        return "NEITHER"
    return "SHIFT"


ASSOC = ["None", "Left", "Right"]


def sr_spec(v):
    """The documented table (property statement; docs/src/grammar_language.md,
    'Disambiguation rules'; handling_errors.md 'Resolving LR conflicts')."""
    if v["cmp"] == "Less":
        return "SHIFT"          # the shift has the higher priority
    if v["cmp"] == "Greater":
        return "REDUCE"
    a = v["term.assoc"] if v["term.assoc"] != "None" else v["prod.assoc"]
    if a == "Left":
        return "REDUCE"
    if a == "Right":
        return "SHIFT"
    if v["rhs.is_empty"]:
        return "SHIFT" if (v["prefer_shifts_over_empty"] and not v["nopse"]) else "BOTH"
    return "SHIFT" if (v["prefer_shifts"] and not v["nops"]) else "BOTH"


def common_contexts():
    return [
        Context("lookahead loop runs", is_call("Iterator>::next"), required={"Some"}),
        Context("items loop", lambda t: False),
    ]


def r1_sr(F, res):
    rid = res.rule("C05-R1", "complete shift/reduce decision table of calculate_reductions (cmp x prod.assoc x "
                   "term.assoc x empty x prefer_shifts x prefer_shifts_over_empty x nops x nopse x shift kind) "
                   "equals the documented table", floor=1)
    f, paths = region_paths(F, res, rid)
    if paths is None:
        return
    is_cell_empty = lambda t: is_call("Vec::<T, A>::is_empty", actions_cell)(t) and len(t) == 3  # epoch 0
    shifts0 = partition_field("0")
    reduces1 = partition_field("1")
    contexts = [
        Context("lookahead present", is_call("Iterator>::next"), required={"Some"}),
        Context("cell occupied", is_cell_empty, required={0}),
        Context("assert shifts.len() <= 1", is_bin("Le", lambda l: is_call("Vec::<T, A>::len", shifts0)(l)), required={1}),
        Context("a shift/accept is present", lambda t: t[0] == "discr" and is_call("slice::<impl [T]>::first", shifts0)(t[1]),
                required={"Some"}),
        Context("no competing reduction", is_call("Vec::<T, A>::is_empty", reduces1), required={1}),
        Context("assert actions.len() == 1 holds", is_bin("Eq", lambda l: is_call("Vec::<T, A>::len", actions_cell)(l)),
                required={1}),
    ]
    atoms = [
        Atom("shift kind", lambda t: t[0] == "discr" and isinstance(t[1], tuple) and t[1][0] == "vfield"
             and is_call("slice::<impl [T]>::first", shifts0)(t[1][1]), ["Shift", "Accept"]),
        Atom("cmp", is_prio_cmp, ["Less", "Equal", "Greater"]),
        Atom("prod.assoc", is_discr_of_field("assoc", "grammar::Production"), ASSOC),
        Atom("term.assoc", is_discr_of_field("assoc", "grammar::Terminal"), ASSOC),
        Atom("rhs.is_empty", is_call("Vec::<T, A>::is_empty", has_field("rhs", "grammar::Production")), [0, 1]),
        Atom("prefer_shifts_over_empty", is_field("prefer_shifts_over_empty", "Settings"), [0, 1]),
        Atom("prefer_shifts", is_field("prefer_shifts", "Settings"), [0, 1]),
        Atom("nopse", is_field("nopse", "grammar::Production"), [0, 1]),
        Atom("nops", is_field("nops", "grammar::Production"), [0, 1]),
    ]
    tb = Table(atoms, contexts, sr_outcome).build(paths)
    where = f.loc()
    for term, p in tb.unknown[:5]:
        res.violation(rid, "unknown-guard/" + mir.short(fmt(term))[:60],
                      "anchor lost: an unrecognised condition guards the shift/reduce decision: %s" % fmt(term)[:300], where)
    if not tb.rows:
        res.anchor_lost(rid, "no path of the lookahead loop matches the shift/reduce situation", where)
        return
    n, bad = tb.compare(sr_spec, res, rid, "sr", where)
    res.extra["sr_rows"] = n
    res.extra["sr_rows_differing"] = bad
    res.samples.append({"rule": rid, "row": {"cmp": "Equal", "prod.assoc": "Left", "term.assoc": "Right"},
                        "expected": "SHIFT", "extracted": sorted({o for o, _ in tb.lookup({
                            "shift kind": "Shift", "cmp": "Equal", "prod.assoc": "Left", "term.assoc": "Right",
                            "rhs.is_empty": 0, "prefer_shifts_over_empty": 0, "prefer_shifts": 0, "nopse": 0, "nops": 0})})})
    # the priority the production is compared with
    rid2 = res.rule("C05-R1b", "the shift priority operand is max_prior_for_term[lookahead] (DEFAULT_PRIORITY for Accept)", floor=2)
    seen = set()
    for assign, out, p in tb.rows:
        kind = assign.get("shift kind")
        for term, val in p.cond:
            if is_prio_cmp(term):
                call = term[1] if term[0] == "discr" else term
                b = call[2][1]
                if kind == {"Accept"}:
                    ok = b == ("const", 10) or mir.contains(b, lambda x: x == ("const", 10))
                    what = "Accept vs DEFAULT_PRIORITY"
                else:
                    ok = has_field("max_prior_for_term", "LRState")(b) and has_field("idx", "grammar::Terminal")(b)
                    what = "Shift vs max_prior_for_term[follow_term.idx]"
                key = "cmp-operand/%s" % ("accept" if kind == {"Accept"} else "shift")
                if key in seen:
                    continue
                seen.add(key)
                if ok:
                    res.ok(rid2, key, where, what)
                else:
                    res.violation(rid2, key, "the production priority is compared with %s (expected %s)" % (fmt(b)[:200], what), where)
    return tb


def closure_return(F, path, upvars=None):
    g = F.fn(path)
    if g is None:
        return None
    outs = set()
    for p in Sim(g, F, upvars=upvars).run():
        for e in p.events:
            if e[0] == "return":
                outs.add(e[1])
    return outs


def rr_outcome(p):
    ev = []
    for e in p.events:
        if e[0] == "panic":
            return "PANIC"
        if e[0] != "call" or not e[2] or not actions_cell(e[2][0]):
            continue
        n = e[1]
        if n.startswith("alloc::vec::Vec::<T, A>::push"):
            arg = e[2][1]
            ev.append("push-reduce" if mir.contains(arg, lambda x: isinstance(x, tuple) and x[0] == "agg"
                                                    and x[1].endswith("Action::Reduce")) else "push-other")
        elif n.startswith("alloc::vec::Vec::<T, A>::retain"):
            ev.append("retain:" + str(e[2][1][1]).rsplit("::", 1)[-1] if e[2][1][0] == "closure" else "retain:?")
        elif n.startswith("alloc::vec::Vec::<T, A>::pop"):
            ev.append("pop")
        elif any(n.startswith("alloc::vec::Vec::<T, A>::" + m) for m in ("len", "is_empty", "clone", "iter")) \
                or "index" in n or "Clone" in n:
            pass
        elif n.startswith("alloc::vec::Vec::<T, A>::"):
            ev.append(mir.short(n))
    return tuple(ev)


def r2_rr(F, res):
    rid = res.rule("C05-R2", "reduce/reduce decision table (lower-than-all, greater-than-all, LR/GLR, empty/non-empty, "
                   "cell emptied) equals the documented table", floor=1)
    f, paths = region_paths(F, res, rid)
    if paths is None:
        return
    where = f.loc()
    shifts0 = partition_field("0")
    reduces1 = partition_field("1")
    # classify the two `all` closures by what they compute
    kinds = {}

    def all_kind(t):
        if isinstance(t, tuple) and t[0] == "discr":
            t = t[1]
        if not (isinstance(t, tuple) and t[0] == "call" and t[1].endswith("Iterator>::all") and len(t[2]) > 1
                and t[2][1][0] == "closure"):
            return None
        cpath = t[2][1][1]
        if cpath not in kinds:
            rets = closure_return(F, cpath)
            k = None
            if rets and len(rets) == 1:
                r = next(iter(rets))
                if r[0] == "bin" and has_field("prio", "grammar::Production")(r[2]) and not has_field("prio")(r[3]):
                    k = {"Lt": "lower", "Gt": "greater", "Le": "lower-or-equal", "Ge": "greater-or-equal"}.get(r[1])
                elif r[0] == "bin" and has_field("prio", "grammar::Production")(r[3]):
                    k = {"Gt": "lower", "Lt": "greater", "Ge": "lower-or-equal", "Le": "greater-or-equal"}.get(r[1])
            kinds[cpath] = k
        return kinds[cpath]

    retain_kinds = {}

    def classify_retain(cpath):
        """what the retain closure keeps: 'non-reduce' | 'non-empty-reduce' | other"""
        if cpath in retain_kinds:
            return retain_kinds[cpath]
        g = F.fn(cpath)
        k = "?"
        if g is not None:
            rows = []
            for p in Sim(g, F).run():
                ret = [e[1] for e in p.events if e[0] == "return"]
                rows.append((p.cond, ret[0] if ret else None))
            # keep iff not Reduce
            def val(r):
                return r[1][1] if r[1] and r[1][0] == "const" else None
            conds = []
            for cond, ret in rows:
                c = []
                for t, v in cond:
                    if t[0] == "discr":
                        c.append(("variant", "|".join(sorted(v)) if isinstance(v, frozenset) else v))
                    elif t[0] == "bin" and t[1] == "Eq" and t[3] == ("const", 0):
                        c.append(("len==0", v))
                    elif t[0] == "bin" and t[1] == "Ne" and t[3] == ("const", 0) and v in (0, 1):
                        c.append(("len==0", 1 - v))
                    elif t[0] == "vfield" and str(t[2]) == "Reduce" and str(t[3]) == "1" and v in (0, "other"):
                        # `Action::Reduce(_, 0)` as a literal pattern: a switch on the length itself
                        c.append(("len==0", 1 if v == 0 else 0))
                    else:
                        c.append((fmt(t)[:40], v))
                conds.append((tuple(c), val((cond, ret))))
            cs = sorted(conds, key=str)
            if cs == sorted([((("variant", "Reduce"),), 0), ((("variant", "Accept|Shift"),), 1)], key=str):
                k = "non-reduce"
            elif cs == sorted([((("variant", "Reduce"), ("len==0", 1)), 0), ((("variant", "Reduce"), ("len==0", 0)), 1),
                               ((("variant", "Accept|Shift"),), 1)], key=str):
                k = "non-empty-reduce"
            else:
                k = "other:" + str(cs)[:200]
        retain_kinds[cpath] = k
        return k


    pred_kinds = {}

    def is_non_empty_reduce_pred(cpath):
        """the closure answers true exactly for `Action::Reduce(_, len)` with len > 0 (any spelling of that comparison)"""
        if cpath in pred_kinds:
            return pred_kinds[cpath]
        g = F.fn(cpath)
        ok = False
        if g is not None:
            rows = []
            for p in Sim(g, F).run():
                ret = [e[1] for e in p.events if e[0] == "return"]
                r = ret[0][1] if ret and ret[0][0] == "const" else None
                variant, nonzero, other = None, None, False
                for t, v in p.cond:
                    if t[0] == "discr":
                        variant = "|".join(sorted(v)) if isinstance(v, frozenset) else v
                    elif t[0] == "bin" and t[3] == ("const", 0) and t[1] in ("Gt", "Ne") and v in (0, 1):
                        nonzero = v
                    elif t[0] == "bin" and t[3] == ("const", 0) and t[1] in ("Eq", "Le") and v in (0, 1):
                        nonzero = 1 - v
                    elif t[0] == "bin" and t[3] == ("const", 1) and t[1] == "Ge" and v in (0, 1):
                        nonzero = v
                    else:
                        other = True
                rows.append((variant, nonzero, r, other))
            ok = bool(rows) and not any(o for _, _, _, o in rows) and all(
                (r == 1) == (variant == "Reduce" and nonzero == 1) and r in (0, 1) for variant, nonzero, r, _ in rows) \
                and any(r == 1 for _, _, r, _ in rows)
        pred_kinds[cpath] = ok
        return ok

    def outcome(p):
        ev = []
        for e in p.events:
            if e[0] == "panic":
                return "PANIC"
            if e[0] != "call" or not e[2] or not actions_cell(e[2][0]):
                continue
            n = e[1]
            if n.startswith("alloc::vec::Vec::<T, A>::push"):
                arg = e[2][1]
                ev.append("push-reduce" if mir.contains(arg, lambda x: isinstance(x, tuple) and x[0] == "agg"
                                                        and x[1].endswith("Action::Reduce")) else "push-other")
            elif n.startswith("alloc::vec::Vec::<T, A>::retain"):
                ev.append("keep " + (classify_retain(e[2][1][1]) if e[2][1][0] == "closure" else "?"))
            elif n.startswith("alloc::vec::Vec::<T, A>::pop"):
                ev.append("pop")
            elif any(n.startswith("alloc::vec::Vec::<T, A>::" + m) for m in ("len", "is_empty", "clone", "iter")) \
                    or "index" in n or "Clone" in n:
                pass
            elif n.startswith("alloc::vec::Vec::<T, A>::"):
                ev.append(mir.short(n))
        return ", ".join(ev) if ev else "nothing"

    contexts = [
        Context("lookahead present", is_call("Iterator>::next"), required={"Some"}),
        Context("cell occupied", lambda t: is_call("Vec::<T, A>::is_empty", actions_cell)(t) and len(t) == 3, required={0}),
        Context("assert shifts.len() <= 1", is_bin("Le", lambda l: is_call("Vec::<T, A>::len", shifts0)(l)), required={1}),
        Context("no shift in the cell", lambda t: t[0] == "discr" and is_call("slice::<impl [T]>::first", shifts0)(t[1]),
                required={"None"}),
        Context("competing reductions", is_call("Vec::<T, A>::is_empty", reduces1), required={0}),
    ]
    atoms = [
        Atom("lower than all", lambda t: all_kind(t) == "lower", [0, 1]),
        Atom("greater than all", lambda t: all_kind(t) == "greater", [0, 1]),
        Atom("algo", is_discr_of_field("parser_algo", "Settings"), ["LR", "GLR"]),
        Atom("non-empty", is_bin("Gt", has_field("prod_len", "LRItem"), lambda r: r == ("const", 0)), [0, 1]),
        # "the cell holds a non-empty reduction", in either spelling: `actions.iter().any(non-empty reduce)`, or
        # `actions.is_empty()` asked after the empty reductions were taken out (no shift is in the cell here)
        Atom("cell has non-empty", lambda t: holds_non_empty(t) is not None, [0, 1], norm=lambda t, v: v if holds_non_empty(t) == "any" else 1 - v),
    ]

    def holds_non_empty(t):
        if is_call("Vec::<T, A>::is_empty", actions_cell)(t) and len(t) == 4:
            return "emptied"
        if isinstance(t, tuple) and t[0] == "call" and mir.strip_generics(t[1]).endswith("::any") and len(t[2]) == 2 \
                and mir.contains(t[2][0], actions_cell) and t[2][1][0] == "closure" and is_non_empty_reduce_pred(t[2][1][1]):
            return "any"
        return None

    def net(o):
        """net effect of the recorded operations on the reductions of the cell"""
        ops = [x.strip() for x in o.split(",")] if o != "nothing" else []
        evict = "all" if "keep non-reduce" in ops else ("empty" if "keep non-empty-reduce" in ops else "none")
        rest = [x for x in ops if x not in ("keep non-reduce", "keep non-empty-reduce", "push-reduce")]
        return "evict=%s push=%d%s" % (evict, 1 if "push-reduce" in ops else 0, (" +" + ",".join(rest)) if rest else "")

    def spec(v):
        """The documented rule, as the content of the cell afterwards: lower priority than all - out; higher than all - it
        alone; otherwise GLR keeps everything; LR prefers non-empty reductions over empty ones and NOTHING ELSE: an empty one
        yields to a non-empty one, a non-empty one evicts the empty ones, and among themselves (non-empty against non-empty,
        empty against empty) nothing applies - all stay and the conflict is reported."""
        if v["lower than all"] and v["greater than all"]:
            return None   # impossible for a non-empty list
        if v["lower than all"]:
            return "evict=none push=0"
        if v["greater than all"]:
            return "evict=all push=1"
        if v["algo"] == "GLR":
            return "evict=none push=1"
        if v["non-empty"]:
            return "evict=empty push=1"
        if v["cell has non-empty"]:
            return {"evict=none push=0", "evict=empty push=0"}      # a cell never holds both kinds: evicting is a no-op
        return "evict=none push=1"

    outcome_ops = outcome
    outcome = lambda p: net(outcome_ops(p))      # noqa

    tb = Table(atoms, contexts, outcome).build(paths)
    for term, p in tb.unknown[:5]:
        res.undecided(rid, "an unrecognised condition guards the reduce/reduce decision: %s" % fmt(term)[:300], where)
    if not tb.rows:
        res.anchor_lost(rid, "no path matches the reduce/reduce situation", where)
        return
    n, bad = tb.compare(spec, res, rid, "rr", where)
    res.extra["rr_rows"] = n


def r3_max_prio(F, res):
    rid = res.rule("C05-R3", "max_prior_for_term[t] is the maximum production priority shifting t", floor=1)
    f = F.one(r"^rustemo_compiler::table::LRState::<'g>::group_per_next_symbol$")
    found = False
    for g in list(F.closures_of(f)) + [f]:
        for b, t in g.calls():
            n = callee(t)
            if n.startswith("core::cmp::max") or n.startswith("core::cmp::min") or "::cmp::Ord::max" in n \
                    or "::cmp::Ord::min" in n or n.startswith("core::cmp::Ord::m"):
                found = True
                if "max" in n.rsplit("::", 1)[-1]:
                    res.ok(rid, "and_modify", "%s:%s" % (g.file, t["line"]), mir.short(n))
                else:
                    res.violation(rid, "and_modify", "the shift priority of a terminal is combined with %s, "
                                  "documented: the maximum over the productions it is used in" % mir.short(n),
                                  "%s:%s" % (g.file, t["line"]))
    if not found:
        # no combination at all? `entry(t).or_insert(prio)` on its own keeps the FIRST production's priority
        plain = None
        for p in Sim(f, F).run():
            for e in p.events:
                if e[0] == "call" and e[1].endswith("::or_insert") and mir.has_field(e[2][0], "max_prior_for_term") is not None:
                    plain = not mir.has_call(e[2][0], "and_modify")
        cmp_inline = any(mir.contains(c, lambda x: isinstance(x, tuple) and x[0] == "bin" and x[1] in ("Gt", "Lt", "Ge", "Le"))
                         for p in Sim(f, F).run() for c, _ in p.cond)
        if plain and not cmp_inline:
            res.violation(rid, "and_modify", "max_prior_for_term.entry(t).or_insert(prio) without combining with the entry that is "
                          "already there: the shift priority of a terminal is the priority of the FIRST production that shifts it, "
                          "documented: the maximum", f.loc())
        else:
            # maybe written inline with a comparison
            res.anchor_lost(rid, "no max/min call found in the and_modify closure of group_per_next_symbol", f.loc())
    # the entry API must be keyed by the terminal and seeded with the production's priority
    for p in Sim(f, F).run():
        for e in p.events:
            if e[0] == "call" and e[1].endswith("::or_insert"):
                if has_field("prio", "grammar::Production")(e[2][1]):
                    res.ok(rid, "or_insert", f.loc(), "seeded with the production's priority")
                else:
                    res.violation(rid, "or_insert", "max_prior_for_term is seeded with %s" % fmt(e[2][1])[:200], f.loc())
                return


def run(ctx, res):
    F = ctx.facts("core")
    r1_sr(F, res)
    r2_rr(F, res)
    r3_max_prio(F, res)
    from . import c05_meta
    c05_meta.run(F, res)
    # R5: the two settings the resolution reads are what the caller set: their setters store their own field and nothing
    # else (a setter of one that also switches the other on resolves conflicts the caller asked to have reported; seed C05-10).
    # Decided by the setter tables of C17-R5b, shared.
    from . import c17, report
    rid5 = res.rule("C05-R5", "Settings::prefer_shifts and ::prefer_shifts_over_empty store their own field only (shares C17-R5b)", floor=2)
    sub5 = report.Result("C05", ctx.tier)
    try:
        c17.r5_cli(F, sub5)
        for inst in sub5.instances:
            if inst["ok"] and inst["rule"] == "C17-R5b" and str(inst["instance"]) in (
                    "setter/prefer_shifts/side", "setter/prefer_shifts_over_empty/side", "setter/prefer_shifts/own", "setter/prefer_shifts_over_empty/own"):
                res.ok(rid5, inst["instance"], inst.get("where"), inst.get("detail"))
        for v in sub5.violations:
            if v["rule"] == "C17-R5b" and ("/setter/prefer_shifts/" in v["key"] or "/setter/prefer_shifts_over_empty/" in v["key"]):
                res.violation(rid5, v["key"].split("/", 1)[1], v["what"], v.get("where"))
    except mir.AnchorLost as e:
        res.undecided(rid5, str(e))
    res.extra["exhaustive"] = True
    res.explanation = (
        "The complete decision tables of conflict resolution are extracted from the MIR of "
        "LRTable::calculate_reductions by enumerating the paths of the lookahead loop with syntactic path conditions "
        "(atoms named by ADT.field / callee; no execution, no solver) and compared row by row with the documented "
        "table: 1728 shift/reduce rows (cmp x prod.assoc x term.assoc x empty x prefer_shifts x "
        "prefer_shifts_over_empty x nops x nopse x Shift|Accept) and the reduce/reduce table; plus the operand of the "
        "priority comparison, max_prior_for_term = max, and the keyword -> meta key -> field mapping of the grammar "
        "language. Not decided: that trees of operator grammars follow conventional precedence (a consequence of the "
        "table plus LR semantics); the reachable assert!/unreachable! sites are C16's.")
