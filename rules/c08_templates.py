def run(ctx, res):
    pass
