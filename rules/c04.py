"""C04 - the LR table is a faithful core-preserving compression of canonical LR(1) (partial: merge / propagation /
right-nulling structure, not the per-grammar equality)."""
from . import tbl, report

LEVEL = "other"


def run(ctx, res):
    F = ctx.facts("core")
    tbl.r2_fixpoints(F, res, res.rule("T-R2", "fixpoint loops are well formed (shared with C01)", floor=9))
    tbl.r3_monotone(F, res, res.rule("T-R3", "lookahead sets of LR items only grow (none lost)", floor=3))
    tbl.r4_first(F, res, res.rule("T-R4", "FIRST of a symbol string and the FIRST fixpoint (shared with C01: the lookaheads of canonical "
                                  "LR(1) items are FIRST sets)", floor=4))
    tbl.r5_closure(F, res, res.rule("T-R5", "LR(1) closure lookahead rule (shared with C01: FIRST of the WHOLE rest, the item's lookaheads "
                                    "iff that rest is nullable)", floor=3))
    tbl.r6_successors(F, res, res.rule("T-R6", "successor states: same transitions as the item cores prescribe", floor=1))
    tbl.r7_registration(F, res, res.rule("T-R7", "state search and registration", floor=2))
    tbl.r8_merge(F, res, res.rule("T-R8", "merge is core-equal, guarded, all-or-nothing, items paired by (prod, position)", floor=4))
    tbl.r9_propagation(F, res, res.rule("T-R9", "propagation links and direction (lookaheads neither lost nor invented)", floor=5))
    tbl.r10_rn(F, res, res.rule("T-R10", "right-nulled lengths only for LALR_RN, computed right to left over nullable symbols, each "
                                "item carries the rn_len of its own production", floor=3))
    tbl.r11_identity(F, res, res.rule("T-R11", "core identity: LRItem == on (prod, position); LRState == on ordered kernel items; "
                                      "is_kernel table", floor=3))
    tbl.r13_lr_rejects(F, res, res.rule("T-R13", "LR rejects unresolved conflicts; conflicts = cells with more than one action", floor=2))
    from . import c02
    sub = report.Result("C04", ctx.tier)
    c02.r1_reduce_cells(F, sub)
    rd = res.rule("T-R12", "reductions use every lookahead of every reducing item; extra reductions only at positions >= rn_len "
                  "(shared with C02-R1)", floor=2)
    for inst in sub.instances:
        if inst["ok"]:
            res.ok(rd, inst["instance"], inst.get("where"), inst.get("detail"))
    for v in sub.violations:
        res.violation(rd, v["key"].split("/", 1)[1], v["what"], v.get("where"))
    res.explanation = (
        "Equality with the canonical LR(1) automaton of every grammar is a fixpoint fact and is NOT decided. Decided are the "
        "places where `same core, same transitions, lookaheads neither lost nor invented, only right-nulled extras` is "
        "implemented, each against the textbook/definition: merge only equal kernel cores, guarded weak-compatibility scan, "
        "all-or-nothing, items paired by core equality; state/item identity; propagation along GOTO and SHIFT links from "
        "dot-1 to dot into kernel items, from all items of the source; fixpoints cannot stop early; right-nulled lengths "
        "only for LALR_RN and only past rn_len; LR rejects unresolved conflicts. The weak-compatibility predicate itself "
        "(quantified over terminals) is not decided.")
    res.assumptions = ["consequences (every LALR(1) grammar compiles without conflicts; conflict-free => unambiguous) not decided"]
