"""Fact extraction and caching.

Facts are extracted from an rsync copy of /repo's *working tree* (never from
inside /repo: the repo's build scripts write generated files into the source
tree) with a fresh CARGO_TARGET_DIR, keyed by a hash over the content of the
tree, and cached under /verif/.cache/<treehash>/<set>/.
"""
import fcntl
import glob
import hashlib
import json
import os
import shutil
import subprocess
import sys
import tempfile
import time

VERIF = os.path.dirname(os.path.dirname(os.path.abspath(__file__)))
REPO = os.environ.get("VERIF_REPO", "/repo")
CACHE = os.environ.get("VERIF_CACHE") or os.path.join(VERIF, ".cache")
MIRFACTS_DIR = os.path.join(VERIF, "tools", "mirfacts")
MIRFACTS = os.path.join(MIRFACTS_DIR, "target", "release", "mirfacts")
SYNFACTS_DIR = os.path.join(VERIF, "tools", "synfacts")
SYNFACTS = os.path.join(SYNFACTS_DIR, "target", "release", "synfacts")

ARRAYS_FEATURE_CRATES = None  # derived from manifests


class ToolError(Exception):
    """The checker itself is broken (exit 2), never a verdict."""


def log(*a):
    print("[facts]", *a, file=sys.stderr, flush=True)


def treehash():
    r = subprocess.run(["git", "-C", REPO, "ls-files", "-co", "--exclude-standard", "-z"], capture_output=True)
    if r.returncode == 0:
        files = sorted(f for f in r.stdout.decode().split("\0") if f)
    else:
        # not a git work tree (a plain copy): every file outside build output
        files = []
        for root, dirs, fns in os.walk(REPO):
            dirs[:] = sorted(d for d in dirs if d not in ("target", ".git"))
            files += [os.path.relpath(os.path.join(root, fn), REPO) for fn in fns]
        files.sort()
    h = hashlib.sha256()
    for f in files:
        p = os.path.join(REPO, f)
        if not os.path.isfile(p) or os.path.islink(p):
            continue
        h.update(f.encode())
        h.update(b"\0")
        with open(p, "rb") as fh:
            h.update(hashlib.sha256(fh.read()).digest())
    # witness grammars and the extractors are part of the key
    for wf in sorted(glob.glob(os.path.join(VERIF, "fixtures", "grammars", "*.rustemo"))):
        with open(wf, "rb") as fh:
            h.update(os.path.basename(wf).encode() + hashlib.sha256(fh.read()).digest())
    for tool in (os.path.join(MIRFACTS_DIR, "src", "main.rs"),
                 os.path.join(SYNFACTS_DIR, "src", "main.rs"), os.path.abspath(__file__)):
        if os.path.exists(tool):
            with open(tool, "rb") as fh:
                h.update(hashlib.sha256(fh.read()).digest())
    return h.hexdigest()[:24]


def nightly_sysroot():
    return subprocess.run(["rustc", "+nightly", "--print", "sysroot"], check=True,
                          capture_output=True, text=True).stdout.strip()


def ensure_tools():
    env = dict(os.environ, CARGO_NET_OFFLINE="true")
    for d, b in ((MIRFACTS_DIR, MIRFACTS), (SYNFACTS_DIR, SYNFACTS)):
        if not os.path.isdir(d):
            continue
        src = os.path.join(d, "src", "main.rs")
        if os.path.exists(b) and os.path.getmtime(b) >= os.path.getmtime(src):
            continue
        log("building", os.path.basename(d))
        r = subprocess.run(["cargo", "build", "--release", "--offline"], cwd=d, env=env,
                           capture_output=True, text=True)
        if r.returncode != 0:
            raise ToolError("cannot build %s:\n%s" % (d, r.stderr[-3000:]))


def arrays_features():
    """Workspace crates whose manifest declares an `arrays` feature."""
    res = []
    for m in glob.glob(os.path.join(REPO, "**", "Cargo.toml"), recursive=True):
        if "/target/" in m:
            continue
        txt = open(m).read()
        name = None
        in_features = False
        has = False
        for line in txt.splitlines():
            ls = line.strip()
            if ls.startswith("["):
                in_features = ls == "[features]"
            if ls.startswith("name") and name is None and "=" in ls:
                name = ls.split("=", 1)[1].strip().strip('"')
            if in_features and ls.split("=")[0].strip() == "arrays":
                has = True
        if has and name:
            res.append(name)
    return sorted(res)


class Scratch:
    def __init__(self):
        root = os.environ.get("VERIF_SCRATCH_ROOT", "/var/tmp")
        os.makedirs(root, exist_ok=True)
        self.dir = tempfile.mkdtemp(prefix="rv-", dir=root)
        self.src = os.path.join(self.dir, "src")
        self.target = os.path.join(self.dir, "target")
        subprocess.run(["rsync", "-a", "--exclude", "/target", "--exclude", ".git",
                        REPO + "/", self.src + "/"], check=True)

    def close(self):
        shutil.rmtree(self.dir, ignore_errors=True)

    def __enter__(self):
        return self

    def __exit__(self, *a):
        self.close()


def _cargo_env(scratch, out, hook, extra=None):
    env = dict(os.environ)
    env["CARGO_NET_OFFLINE"] = "true"
    env["LD_LIBRARY_PATH"] = nightly_sysroot() + "/lib:" + env.get("LD_LIBRARY_PATH", "")
    flags = "-Zmir-opt-level=0 -Awarnings"
    if hook:
        flags += " --cfg rustemo_verif"
    env["RUSTFLAGS"] = flags
    env["RUSTC_WORKSPACE_WRAPPER"] = MIRFACTS
    env["CARGO_TARGET_DIR"] = scratch.target
    env["MIRFACTS_OUT"] = out
    env.pop("RUSTEMO_TRACE", None)
    if extra:
        env.update(extra)
    return env


def _run(cmd, cwd, env, what):
    t = time.time()
    r = subprocess.run(cmd, cwd=cwd, env=env, capture_output=True, text=True)
    log("%s: %.1fs rc=%d" % (what, time.time() - t, r.returncode))
    return r


def _extract_core(scratch, outdir):
    mir = os.path.join(outdir, "mir")
    os.makedirs(mir, exist_ok=True)
    env = _cargo_env(scratch, mir, hook=False)
    r = _run(["cargo", "+nightly", "check", "--offline", "-p", "rustemo", "-p", "rustemo-compiler",
              "--lib", "--bins"], scratch.src, env, "core facts")
    if r.returncode != 0:
        with open(os.path.join(outdir, "build_error.txt"), "w") as f:
            f.write(r.stderr)
        raise ToolError("core build failed (the tree does not build):\n" + r.stderr[-4000:])
    names = {os.path.basename(p).split("-")[0] for p in glob.glob(mir + "/*.mir.json")}
    for need in ("rustemo", "rustemo_compiler", "rcomp"):
        if need not in names:
            raise ToolError("fact file for crate %s missing" % need)


GEN_BODIES = ",".join([
    "ParserDefinition", "LRBuilder", "TokenRecognizer", "::action_", "::goto_", "recognize",
])


def _extract_gen(scratch, outdir, arrays):
    """Workspace build with the dump hook on; collects table dumps, generated
    sources, rustc diagnostics and (body-filtered) MIR facts."""
    tables = os.path.join(outdir, "tables")
    files = os.path.join(outdir, "files")
    for d in (tables, files):
        os.makedirs(d, exist_ok=True)
    # plain type-check with the default (stable) toolchain, the one users build with; no MIR export needed here
    env = dict(os.environ)
    env["CARGO_NET_OFFLINE"] = "true"
    env["RUSTFLAGS"] = "--cfg rustemo_verif -Awarnings"
    env["CARGO_TARGET_DIR"] = scratch.target + ("-gen")
    env["RUSTEMO_VERIF_DUMP_DIR"] = tables
    env.pop("RUSTEMO_TRACE", None)
    env.pop("RUSTC_WORKSPACE_WRAPPER", None)
    cmd = ["cargo", "check", "--offline", "--workspace", "--all-targets", "--message-format=json"]
    feats = arrays_features()
    if arrays:
        if not feats:
            raise ToolError("no crate declares an `arrays` feature any more")
        cmd += ["--features", ",".join("%s/arrays" % f for f in feats)]
    r = _run(cmd, scratch.src, env, "gen facts (%s)" % ("arrays" if arrays else "functions"))
    # compiler diagnostics (errors only)
    diags = []
    for line in r.stdout.splitlines():
        if not line.startswith("{"):
            continue
        try:
            m = json.loads(line)
        except ValueError:
            continue
        if m.get("reason") == "compiler-message" and m["message"].get("level") == "error":
            msg = m["message"]
            spans = [{"file": s["file_name"], "line": s["line_start"], "primary": s["is_primary"]}
                     for s in msg.get("spans", [])]
            diags.append({"package": m.get("package_id"), "message": msg.get("message"),
                          "code": (msg.get("code") or {}).get("code"), "spans": spans,
                          "rendered": (msg.get("rendered") or "")[:2000]})
    json.dump({"rc": r.returncode, "errors": diags, "stderr_tail": r.stderr[-3000:],
               "features": feats if arrays else []},
              open(os.path.join(outdir, "build.json"), "w"))
    # copy the generated sources named by the dumps, rewriting paths relative to scratch
    index = []
    for n, tj in enumerate(sorted(glob.glob(tables + "/*.table.json"))):
        d = json.load(open(tj))
        entry = {"table": os.path.basename(tj)}
        for key in ("parser_file", "actions_file"):
            p = d.get(key)
            if p and os.path.exists(p):
                dst = "%04d.%s.rs" % (n, "parser" if key == "parser_file" else "actions")
                shutil.copyfile(p, os.path.join(files, dst))
                entry[key] = dst
            rel = p
            if p and p.startswith(scratch.src + "/"):
                rel = "src:" + p[len(scratch.src) + 1:]
            elif p and p.startswith(scratch.target + "-gen/"):
                rel = "target:" + _strip_hash(p[len(scratch.target) + 5:])
            entry[key + "_rel"] = rel
        index.append(entry)
    json.dump(index, open(os.path.join(outdir, "index.json"), "w"), indent=1)


def _strip_hash(p):
    # debug/build/<pkg>-<hash>/out/... -> <pkg>/out/...
    parts = p.split("/")
    if len(parts) > 3 and parts[0] == "debug" and parts[1] == "build":
        pkg = parts[2].rsplit("-", 1)[0]
        return pkg + "/" + "/".join(parts[3:])
    return p


SETS = ("core", "gen-functions", "gen-arrays", "witness", "matrix")
MATRIX_CONFIGS = [
    [], ["-g", "arrays"], ["-p", "glr"], ["-p", "glr", "-g", "arrays"],
    ["--builder-type", "generic"], ["-p", "glr", "--builder-type", "generic", "-g", "arrays"],
    ["--builder-loc-info"], ["-p", "glr", "--builder-loc-info"],
    ["-t", "lalr"], ["--partial-parse", "--no-skip-ws", "--lexical-disamb-most-specific=false"],
    ["--builder-type", "custom"], ["-p", "glr", "--builder-type", "custom"],
]


def matrix_jobs():
    """thorough tier: every grammar of the repository and every witness x a fixed list of configurations"""
    jobs = []
    seen = set()
    for gpath in sorted(glob.glob(os.path.join(REPO, "**", "*.rustemo"), recursive=True)) + \
            sorted(glob.glob(os.path.join(WITNESS_DIR, "*.rustemo"))):
        if "/target/" in gpath:
            continue
        bn = os.path.basename(gpath)
        if gpath.startswith(WITNESS_DIR) and (bn[0] == "d" and bn[1].isdigit() or bn.startswith("kw_")):
            continue   # witnesses of known findings stay in the witness set only
        rel = os.path.relpath(gpath, REPO) if gpath.startswith(REPO) else "fixtures/" + os.path.basename(gpath)
        tag = rel[:-len(".rustemo")].replace("/", "_").replace("-", "_").replace(".", "_")
        if tag in seen:
            continue
        seen.add(tag)
        cfgs = MATRIX_CONFIGS
        head = open(gpath, errors="replace").read(600)
        if "// matrix: lr-only" in head:
            # the GLR configurations of this witness run into a recorded finding (named in its header); the LR ones stay
            cfgs = [c for c in MATRIX_CONFIGS if "glr" not in c]
        jobs.append((gpath, cfgs, tag))
    return jobs
WITNESS_DIR = os.path.join(VERIF, "fixtures", "grammars")


def _extract_witness(scratch, outdir, jobs=None):
    """Builds rcomp (hook on) from the scratch copy, runs it over the fixed witness grammars
    (fixtures/grammars/*.rustemo, configurations in their `// args:` header lines), collects dumps and
    generated files, and type-checks the generated code in a throw-away crate."""
    tables = os.path.join(outdir, "tables")
    files = os.path.join(outdir, "files")
    for d in (tables, files):
        os.makedirs(d, exist_ok=True)
    env = dict(os.environ)
    env["CARGO_NET_OFFLINE"] = "true"
    env["RUSTFLAGS"] = "--cfg rustemo_verif -Awarnings"
    env["CARGO_TARGET_DIR"] = scratch.target + "-gen"
    env.pop("RUSTEMO_TRACE", None)
    env.pop("RUSTC_WORKSPACE_WRAPPER", None)
    r = _run(["cargo", "build", "--offline", "-p", "rustemo-compiler", "--bin", "rcomp"], scratch.src, env, "witness: build rcomp")
    if r.returncode != 0:
        raise ToolError("rcomp does not build:\n" + r.stderr[-3000:])
    rcomp = os.path.join(env["CARGO_TARGET_DIR"], "debug", "rcomp")
    index = []
    crate = os.path.join(scratch.dir, "wcrate-" + os.path.basename(outdir))
    os.makedirs(os.path.join(crate, "src"))
    mods = []
    n = 0
    if jobs is None:
        jobs = []
        for gpath in sorted(glob.glob(os.path.join(WITNESS_DIR, "*.rustemo"))):
            text = open(gpath).read()
            configs = [l[len("// args:"):].split() for l in text.splitlines() if l.startswith("// args:")] or [[]]
            jobs.append((gpath, configs, None))
    for gpath, configs, tag in jobs:
        base = os.path.basename(gpath)[:-len(".rustemo")]
        text = open(gpath).read()
        for k, args in enumerate(configs):
            modname = "w_%s_%d" % (tag or base, k)
            modname = "".join(c if c.isalnum() or c == "_" else "_" for c in modname)
            wdir = os.path.join(crate, "src", modname)
            os.makedirs(wdir)
            shutil.copyfile(gpath, os.path.join(wdir, base + ".rustemo"))
            tdir = os.path.join(tables, modname)
            e2 = dict(env, RUSTEMO_VERIF_DUMP_DIR=tdir)
            rr = subprocess.run([rcomp] + args + [os.path.join(wdir, base + ".rustemo")], env=e2, capture_output=True,
                                text=True, cwd=wdir)
            serves = " ".join(l[len("// for:"):] for l in text.splitlines() if l.startswith("// for:")).split() or ["C08", "C10", "C11"]
            entry = {"witness": tag or base, "config": args, "module": modname, "serves": serves, "rc": rr.returncode,
                     "panicked": "panicked at" in rr.stderr, "not_generated": "Parser(s) not generated" in rr.stdout,
                     "stdout_tail": rr.stdout[-600:], "stderr_tail": rr.stderr[-600:]}
            dumps = sorted(glob.glob(os.path.join(tdir, "*.table.json")))
            if dumps:
                dst = "%s.table.json" % modname
                shutil.copyfile(dumps[0], os.path.join(tables, dst))
                entry["table"] = dst
                for key, suffix in (("parser_file", ".rs"), ("actions_file", "_actions.rs")):
                    pth = os.path.join(wdir, base + suffix)
                    if os.path.exists(pth):
                        fn = "%s.%s.rs" % (modname, "parser" if key == "parser_file" else "actions")
                        shutil.copyfile(pth, os.path.join(files, fn))
                        entry[key] = fn
                        entry[key + "_rel"] = "witness:%s/%s%s" % (modname, base, suffix)
                builder = "Default"
                if "--builder-type" in args:
                    builder = args[args.index("--builder-type") + 1]
                # a custom-builder parser is generic in B and type-checks without user code (seed C11-10); a custom lexer
                # imports the user's <grammar>_lexer module and cannot be checked alone
                if not ("--lexer-type" in args and args[args.index("--lexer-type") + 1].lower() == "custom"):
                    decl = "pub mod %s { #![allow(warnings)] pub mod %s;" % (modname, base)
                    if os.path.exists(os.path.join(wdir, base + "_actions.rs")):
                        decl += " pub mod %s_actions;" % base
                    decl += " }"
                    mods.append(decl)
            shutil.rmtree(tdir, ignore_errors=True)
            index.append(entry)
            n += 1
    # type-check all generated witness parsers in one crate
    with open(os.path.join(crate, "Cargo.toml"), "w") as f:
        f.write('[package]\nname = "wcrate"\nversion = "0.0.0"\nedition = "2021"\n[workspace]\n[dependencies]\n'
                'rustemo = { path = "%s/rustemo" }\n' % scratch.src)
    shutil.copyfile(os.path.join(scratch.src, "Cargo.lock"), os.path.join(crate, "Cargo.lock"))
    with open(os.path.join(crate, "src", "lib.rs"), "w") as f:
        f.write("\n".join(mods) + "\n")
    r = _run(["cargo", "check", "--offline", "--message-format=json"], crate, env, "witness: cargo check")
    diags = []
    for line in r.stdout.splitlines():
        if not line.startswith("{"):
            continue
        try:
            m = json.loads(line)
        except ValueError:
            continue
        if m.get("reason") == "compiler-message" and m["message"].get("level") == "error":
            msg = m["message"]
            spans = [s for s in msg.get("spans", []) if s.get("is_primary")] or msg.get("spans", [])
            fn = spans[0]["file_name"] if spans else ""
            mod = fn.split("/")[1] if fn.startswith("src/") and "/" in fn[4:] else None
            diags.append({"module": mod, "file": fn, "line": spans[0]["line_start"] if spans else None,
                          "code": (msg.get("code") or {}).get("code"), "message": msg.get("message"),
                          "rendered": (msg.get("rendered") or "")[:1200]})
    json.dump({"rc": r.returncode, "errors": diags, "stderr_tail": r.stderr[-2000:]},
              open(os.path.join(outdir, "build.json"), "w"), indent=1)
    json.dump(index, open(os.path.join(outdir, "index.json"), "w"), indent=1)


def ensure(sets):
    """Returns {set: directory}. Extracts what is missing for the current tree."""
    ensure_tools()
    os.makedirs(CACHE, exist_ok=True)
    lock = open(os.path.join(CACHE, "lock"), "w")
    fcntl.flock(lock, fcntl.LOCK_EX)
    try:
        th = treehash()
        cdir = os.path.join(CACHE, th)
        os.makedirs(cdir, exist_ok=True)
        os.utime(cdir)
        missing = [s for s in sets if not os.path.exists(os.path.join(cdir, s, ".done"))]
        if missing:
            with Scratch() as sc:
                for s in missing:
                    out = os.path.join(cdir, s)
                    shutil.rmtree(out, ignore_errors=True)
                    os.makedirs(out)
                    if s == "core":
                        _extract_core(sc, out)
                    elif s == "gen-functions":
                        _extract_gen(sc, out, arrays=False)
                    elif s == "gen-arrays":
                        _extract_gen(sc, out, arrays=True)
                    elif s == "witness":
                        _extract_witness(sc, out)
                    elif s == "matrix":
                        _extract_witness(sc, out, jobs=matrix_jobs())
                    else:
                        raise ToolError("unknown fact set " + s)
                    open(os.path.join(out, ".done"), "w").write(str(time.time()))
        _prune(keep=th)
        return {s: os.path.join(cdir, s) for s in sets}, th
    finally:
        fcntl.flock(lock, fcntl.LOCK_UN)
        lock.close()


def _prune(keep, n=4):
    ds = [d for d in glob.glob(os.path.join(CACHE, "*")) if os.path.isdir(d)
          and not os.path.basename(d).startswith("controls-")]
    ds.sort(key=os.path.getmtime, reverse=True)
    for d in ds[n:]:
        if os.path.basename(d) != keep:
            shutil.rmtree(d, ignore_errors=True)


CONTROLS_DIR = os.path.join(VERIF, "fixtures", "controls")


def ensure_controls():
    """Facts of the positive-control crate (fixtures/controls)."""
    ensure_tools()
    h = hashlib.sha256()
    for root, _, files in sorted(os.walk(CONTROLS_DIR)):
        if "/target" in root:
            continue
        for fn in sorted(files):
            with open(os.path.join(root, fn), "rb") as fh:
                h.update(fn.encode() + b"\0" + fh.read())
    with open(os.path.join(MIRFACTS_DIR, "src", "main.rs"), "rb") as fh:
        h.update(fh.read())
    os.makedirs(CACHE, exist_ok=True)
    cdir = os.path.join(CACHE, "controls-" + h.hexdigest()[:16])
    lock = open(os.path.join(CACHE, "lock-controls"), "w")
    fcntl.flock(lock, fcntl.LOCK_EX)
    try:
        if not os.path.exists(os.path.join(cdir, ".done")):
            shutil.rmtree(cdir, ignore_errors=True)
            for old in glob.glob(os.path.join(CACHE, "controls-*")):
                shutil.rmtree(old, ignore_errors=True)
            os.makedirs(os.path.join(cdir, "mir"))
            root = os.environ.get("VERIF_SCRATCH_ROOT", "/var/tmp")
            sdir = tempfile.mkdtemp(prefix="rvc-", dir=root)
            try:
                src = os.path.join(sdir, "src")
                shutil.copytree(CONTROLS_DIR, src, ignore=shutil.ignore_patterns("target"))
                env = dict(os.environ)
                env["CARGO_NET_OFFLINE"] = "true"
                env["LD_LIBRARY_PATH"] = nightly_sysroot() + "/lib:" + env.get("LD_LIBRARY_PATH", "")
                env["RUSTFLAGS"] = "-Zmir-opt-level=0 -Awarnings"
                env["RUSTC_WORKSPACE_WRAPPER"] = MIRFACTS
                env["CARGO_TARGET_DIR"] = os.path.join(sdir, "target")
                env["MIRFACTS_OUT"] = os.path.join(cdir, "mir")
                r = _run(["cargo", "+nightly", "check", "--offline"], src, env, "control facts")
                if r.returncode != 0:
                    raise ToolError("control crate does not build:\n" + r.stderr[-3000:])
            finally:
                shutil.rmtree(sdir, ignore_errors=True)
            open(os.path.join(cdir, ".done"), "w").write("ok")
        return cdir
    finally:
        fcntl.flock(lock, fcntl.LOCK_UN)
        lock.close()
