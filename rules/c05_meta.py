"""C05-R4: grammar keyword -> meta key -> Production/Terminal field."""
from . import mir
from .mir import Sim, fmt, callee

ACTIONS = "rustemo_compiler::lang::rustemo_actions::"
KEYWORD_KEY = {
    "left": "left", "reduce": "left", "right": "right", "shift": "right", "dynamic": "dynamic",
    "nops": "nops", "nopse": "nopse", "priority": "priority", "prod_kind": "kind",
    "prefer": "prefer", "finish": "finish", "no_finish": "finish",
}
PROD_FIELDS = {  # meta key -> (field, value)
    "priority": ("prio", None), "kind": ("kind", None), "left": ("assoc", "Left"), "right": ("assoc", "Right"),
    "nops": ("nops", 1), "nopse": ("nopse", 1),
}


def str_consts(f):
    out = []
    def op(o):
        s = mir.const_str(o) if isinstance(o, dict) else None
        if s is not None:
            out.append(s)
    for _, _, s in f.stmts():
        rv = s["rv"]
        for k in ("op", "l", "r", "x"):
            op(rv.get(k))
        for o in rv.get("ops", []):
            op(o)
    for _, t in f.terms():
        if t["k"] == "call":
            for a in t["args"]:
                op(a)
    return out


def remove_key(term):
    """meta key of a `BTreeMap::remove(meta, "key")` call inside term."""
    for c in mir.calls_in(term):
        if "BTreeMap" in c[1] and c[1].endswith("::remove") and len(c[2]) > 1:
            k = mir.const_str(c[2][1])
            if k is not None:
                return k
    return None


def direct_remove_key(t):
    """key when t is `discr(remove(meta, key))` or `is_some(remove(meta, key))`."""
    inner = None
    if isinstance(t, tuple) and t[0] == "discr":
        inner = t[1]
    elif isinstance(t, tuple) and t[0] == "call" and t[1].endswith("::is_some") and t[2]:
        inner = t[2][0]
    if isinstance(inner, tuple) and inner[0] == "call" and "BTreeMap" in inner[1] and inner[1].endswith("::remove"):
        return remove_key(inner)
    return None


def positive(val):
    return val in (1, frozenset(["Some"])) or (isinstance(val, frozenset) and "Some" in val and "None" not in val)


def run(F, res):
    rid = res.rule("C05-R4", "keyword action -> meta key (17+ functions) and meta key -> field of the same meaning in "
                   "the grammar builder (production and terminal)", floor=25)
    n = 0
    for fam in ("prod_meta_data_", "term_meta_data_"):
        for f in F.find("^" + ACTIONS.replace(":", r"\:") + fam + "[a-z_]+$"):
            kw = f.path[len(ACTIONS) + len(fam):]
            if kw in ("user_meta_data",):
                continue
            exp = KEYWORD_KEY.get(kw)
            consts = [c for c in str_consts(f)]
            if exp is None:
                res.violation(rid, "keyword/%s%s" % (fam, kw), "meta-data keyword action %s%s has no entry in the documented "
                              "keyword table" % (fam, kw), f.loc())
                continue
            n += 1
            if consts == [exp]:
                res.ok(rid, "keyword/%s%s" % (fam, kw), f.loc(), "%s -> \"%s\"" % (kw, exp))
            else:
                res.violation(rid, "keyword/%s%s" % (fam, kw),
                              "keyword `%s` is stored under meta key %s, documented: \"%s\"" % (kw, consts, exp), f.loc())
    # productions
    f = F.one(r"GrammarBuilder::extract_productions_and_symbols$")
    seen = {}
    for p in Sim(f, F, max_paths=100000).run():
        last = None
        for e in p.events:
            if e[0] == "cond":
                k = direct_remove_key(e[1])
                if k is not None:
                    last = (k, e[2])
            elif e[0] == "store" and isinstance(e[1], tuple) and e[1][0] == "field" \
                    and str(e[1][3]).endswith("grammar::Production") and e[1][2] in ("prio", "kind", "assoc", "nops", "nopse"):
                fld = e[1][2]
                val = e[2]
                v = None
                if val[0] == "agg":
                    v = val[1].rsplit("::", 1)[-1]
                elif val[0] == "const":
                    v = val[1]
                key = (last[0] if last else None, positive(last[1]) if last else None, fld, v if fld in ("assoc", "nops", "nopse") else None)
                seen.setdefault(key, e[3])
    for (k, pos, fld, v), line in sorted(seen.items(), key=str):
        where = "%s:%s" % (f.file, line)
        exp = PROD_FIELDS.get(k)
        inst = "prod-field/%s" % fld + ("=%s" % v if v is not None else "")
        if exp and pos and exp[0] == fld and (exp[1] is None or exp[1] == v):
            res.ok(rid, inst, where, "meta[\"%s\"] present -> Production.%s%s" % (k, fld, "" if v is None else " = %s" % v))
        else:
            res.violation(rid, inst, "Production.%s%s is assigned under the guard meta[\"%s\"] %s; documented mapping: %s" % (
                fld, "" if v is None else " = %s" % v, k, "present" if pos else "absent",
                {kk: vv for kk, vv in PROD_FIELDS.items() if vv[0] == fld}), where)
    got = {(fld, v) for (k, pos, fld, v) in seen}
    for k, (fld, v) in PROD_FIELDS.items():
        if (fld, v) not in got:
            res.violation(rid, "prod-field/%s%s/missing" % (fld, "" if v is None else "=%s" % v),
                          "no assignment of Production.%s from meta key \"%s\" found" % (fld, k), f.loc())
    # terminals
    g = F.one(r"GrammarBuilder::collect_terminals$")
    rows = set()
    for p in Sim(g, F).run():
        for e in p.events:
            if e[0] == "call" and "BTreeMap" in e[1] and e[1].endswith("::insert") and len(e[2]) > 2:
                v = e[2][2]
                if v[0] == "agg" and v[1].endswith("Terminal::Terminal"):
                    d = dict(v[2])
                    conds = {}
                    for t, val in p.cond:
                        k = direct_remove_key(t)
                        if k is not None:
                            conds[k] = positive(val)
                    assoc = d["assoc"][1].rsplit("::", 1)[-1] if d["assoc"][0] == "agg" else fmt(d["assoc"])
                    prio_src = "default" if d["prio"] == ("const", 10) else (remove_key(d["prio"]) or fmt(d["prio"])[:60])
                    rows.add((conds.get("left"), conds.get("right"), conds.get("priority"), assoc, prio_src))
    for (l, r, pr, assoc, prio_src) in sorted(rows, key=str):
        exp_assoc = "Left" if l else ("Right" if r else "None")
        inst = "term-field/left=%s,right=%s,priority=%s" % (l, r, pr)
        ok = assoc == exp_assoc and ((prio_src == "priority") if pr else prio_src in ("default",)) 
        # priority present but not an Int constant -> default
        if pr and prio_src == "default":
            ok = assoc == exp_assoc
        if ok:
            res.ok(rid, inst, g.loc(), "assoc=%s prio from %s" % (assoc, prio_src))
        else:
            res.violation(rid, inst, "terminal with meta left=%s right=%s priority=%s gets assoc=%s, prio from %s "
                          "(documented: left->Left, right->Right, priority->prio)" % (l, r, pr, assoc, prio_src), g.loc())
    if len(rows) < 6:
        res.anchor_lost(rid, "terminal construction rows: %d found, 6 expected" % len(rows), g.loc())
