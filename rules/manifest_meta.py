"""Per-property MANIFEST metadata (bin/mkmanifest writes MANIFEST.json from it)."""

HOOKS = {
    "guard": "rustemo_verif",
    "enable": "RUSTFLAGS='--cfg rustemo_verif' (reaches build-script dependencies, where the compiler runs); "
              "RUSTEMO_VERIF_DUMP_DIR=<dir> selects where <grammar>-<pid>-<n>.table.json files are written",
    "baseline_off_cmd": "cd /repo && cargo nextest run --workspace --no-fail-fast --test-threads 8 --offline "
                        "|| cargo test --workspace --no-fail-fast --offline",
    "source_commits": ["f1ab105"],
    "add_only": True,
}

ENGINES = [
    {"name": "mirfacts", "path": "tools/mirfacts",
     "serves_properties": ["C01", "C02", "C03", "C04", "C05", "C06", "C07", "C09", "C12", "C13", "C14", "C15", "C16", "C17", "C18"],
     "kind_free_text": "rustc_private driver (RUSTC_WORKSPACE_WRAPPER under cargo +nightly check on an rsync copy of "
                       "/repo's working tree) exporting structured MIR, resolved callees, ADTs, statics and trait impls as JSON"},
    {"name": "rules", "path": "rules",
     "serves_properties": ["C01", "C02", "C03", "C04", "C05", "C06", "C07", "C08", "C09", "C10", "C11", "C12", "C13", "C14", "C15", "C16", "C17", "C18"],
     "kind_free_text": "python rule layer: CFG/dominators, terms (argument provenance), path simulator with syntactic "
                       "path conditions (finite decision tables), call graph with class-hierarchy resolution, "
                       "may-panic census, spec tables, positive controls"},
    {"name": "gencheck", "path": "rules/gen.py",
     "serves_properties": ["C08", "C10", "C11", "C13", "C15"],
     "kind_free_text": "validation of the sources the repository's own build generates (both table layouts) against the "
                       "table dump written by the cfg(rustemo_verif) hook; nothing generated is executed"},
]

NOTES = ("Static analysis only: every check re-extracts facts from /repo's current working tree (cached by content "
         "hash under .cache/), reports constructs (function, call site, table row) and never runs the parsers or the "
         "test suite. Verdicts: exit 0 = every rule that recognised its code found it conforming (KNOWN-FINDING and "
         "UNDECIDED lines allowed: a rule that no longer recognises the shape of the code says so and decides nothing, "
         "listed under coverage.undecided; VERIF_STRICT=1 makes that exit 2); exit 1 + VIOLATION line = recognised and "
         "deviating; exit 2 = the checker itself is broken (tool build, tree does not compile), never a verdict. "
         "bin/selftest replays 144 seeded regressions and own must-fire patches (must alarm) and 69 behaviour-preserving "
         "refactorings (must stay silent) against scratch copies.")

NOT_APPLICABLE = {}

CHECKS = {
    "C17": {
        "engine": "mirfacts",
        "level": "other",
        "ref": "DESIGN.md §5 C17",
        "technique": "forbidden-source dataflow over MIR (hash-order iteration, ambient inputs, mutable statics) + "
                     "complete CLI->Settings wiring table extracted by path simulation of rcomp::main",
        "text": "Decides, for all grammars and runs, the structural conditions under which output bytes can differ: no "
                "iterator over a hash collection feeds anything order-sensitive anywhere in the compiler, no clock/random/"
                "pid/env/file-time input outside listed path/trace readers, no state carried in statics, no build path in "
                "any generated file (checked on everything the build and the witnesses generate), and the complete "
                "Cli-field -> setter table (polarity, side effects, call order) that makes rcomp equal to the API. "
                "This is a for-all argument from the shape of the code; it does not run the compiler. Late addition: no Settings setter overwrites fields other setters own (C17-R8; known finding: parser_algo does). C17-R9: every bool flag rcomp always passes has, when absent, the value Settings::default() gives (known finding: force). C17-R10: generated files are written whole (fs::write / File::create / OpenOptions with truncate).",
        "note": "Trusted: rustc MIR for the analysed build configuration; prettyplease/syn assumed deterministic; the "
                "documented side-effect table of Settings setters (rules/tables/settings_setters.json).",
    },
    "C05": {
        "engine": "mirfacts",
        "level": "other",
        "ref": "DESIGN.md §5 C05",
        "technique": "finite decision tables extracted from MIR by path enumeration with syntactic path conditions, "
                     "compared exhaustively with the documented table",
        "text": "The complete shift/reduce (1728 rows) and reduce/reduce decision tables of the conflict resolution are "
                "read off the MIR of calculate_reductions and compared row by row with the documented rules; plus the "
                "priority operand, max_prior_for_term = max and the keyword -> meta key -> field mapping. Exhaustive over "
                "the finite domain of the decision function, for all grammars; does not decide consequences for trees. C05-R3 also reports entry().or_insert() without combination (first production wins). C05-R5: the setters of prefer_shifts / prefer_shifts_over_empty store their own field only (shares C17-R5b).",
        "note": "Trusted: rustc MIR; the spec table written from docs/src/grammar_language.md and the property statement; "
                "the resolution lives in LRTable::calculate_reductions (anchor, fail closed if it moves).",
    },
    "C18": {
        "engine": "mirfacts",
        "level": "other",
        "ref": "DESIGN.md §5 C18",
        "technique": "who-may-mutate (typed &mut confinement) + guard dominance/polarity/key agreement by path simulation "
                     "+ must-pass-through write + finite force table",
        "text": "For every existing actions file and grammar: the parsed item list can only be appended to (complete set of "
                "&mut accesses), every append is on the not-contained edge of a lookup of the item's own name in the right "
                "set and of no other item's name, the collector records every item kind under the set the guards consult, parse-existing <=> exists and "
                "not force, every Ok path writes unparse(ast) to the checked path, single writer and single guarded caller. "
                "Structural, for all inputs; does not execute the generator.",
        "note": "Trusted: rustc MIR and Rust's aliasing rules (mutation needs &mut; syn::File has no interior mutability); "
                "prettyplease::unparse . syn::parse_file assumed stable on existing items.",
    },
    "C15": {
        "engine": "mirfacts",
        "level": "other",
        "ref": "DESIGN.md §5 C15",
        "technique": "may-panic census over the call graph (class-hierarchy analysis) with dominating-guard discharge and a "
                     "hand-audited triage table; progress-guard and provenance rules by path simulation; one loop invariant by "
                     "abstract interpretation; type-graph rule for recursive drop glue",
        "text": "Every panic-capable construct in the runtime crate that is reachable from the public API is enumerated from "
                "MIR and must be class-discharged, discharged by a dominating guard on the same terms, or match an exact row "
                "of the audited triage table; plus progress guards of the retry loops, char-boundary provenance of lexer "
                "offsets, layout-parser constants, GSS index validity, that generated actions() never hands out Action::Error and generated recognisers contain no unwrap/expect, that every Input::slice range is ordered by construction, that the GLR driver does not call the recursive forest traversals, and that no function reachable from parse() drops a value owning a recursive tree type with compiler-generated drop glue (type graph from the ADT table + Drop terminators; the SPPF is a known finding: stack overflow on long erroneous GLR inputs), that an empty match is turned away before it can be shifted (existence rule; known finding: none is), and - by a disjunctive abstract interpretation of Vec emptiness over the CFG (rules/absint.py) - that GlrParser::make_error is never handed an empty frontier base."
                " A new unwrap/index/slice/arith site or a removed "
                "guard is reported with its call site. Totality is decided modulo the listed invariants; termination of the "
                "main loops is not decided.",
        "note": "Trusted: rustc MIR (debug-assertion build of the generic code, pre-monomorphisation); invariant rows of "
                "rules/tables/panic_runtime.json are human judgements, each with its reason in the evidence.",
    },
    "C16": {
        "engine": "mirfacts",
        "level": "other",
        "ref": "DESIGN.md §5 C16",
        "technique": "may-panic census over the call graph with dominating-guard discharge and an audited triage table; "
                     "guarded-insert, identifier-validation, check-coverage and finite-table backing rules",
        "text": "Every panic-capable construct of the compiler reachable from process_grammar/process_dir/generate_parser/"
                "rcomp::main is enumerated from MIR and is class-discharged, guard-discharged, an audited invariant or a "
                "listed (reproduced) finding; invariants that rest on other code are backed by rules (diagnostics still "
                "returned as Err, symbol-table inserts guarded, identifiers validated (and check_identifier looks at the whole name), index allocation only on a lookup miss, resolution passes cannot be short-cut, AST types deduced iff the default builder is used, recogniser check over every terminal, "
                "no_match table, trait overrides). A new unwrap/assert/index or a weakened check is reported with its site.",
        "note": "Trusted: rustc MIR; invariant rows of rules/tables/panic_compiler.json are human judgements with reasons; "
                "third-party crates (syn, prettyplease, clap) out of scope; termination not decided.",
    },
    "C08": {
        "engine": "gencheck",
        "level": "translation_validation",
        "ref": "DESIGN.md §5 C08",
        "technique": "translation validation: syn-parsed generated sources (both layouts) reduced to a normal form and compared "
                     "cell by cell with the compiler's table dump; layout sibling comparison; rustc type-check",
        "text": "Every parser the repository's own build generates - in the Functions layout and, with the arrays feature the "
                "test command never sets, the Arrays layout, LR and GLR - is compared cell by cell with the table the compiler "
                "computed (hook dump): every (state, token) action list, every (state, nonterminal) goto, every expected-token "
                "list, enum orders, default_layout, settings fns, constants, recognisers; the two layouts are compared with "
                "each other and accessor index dimensions are checked. Complete per program; the programs are the build's "
                "corpus plus fixed witnesses, not all grammars.",
        "note": "Trusted: the cfg(rustemo_verif) dump reads the same LRTable the generator reads; syn; the runtime only reads "
                "the definition through the ParserDefinition accessors.",
    },
    "C10": {
        "engine": "gencheck",
        "level": "translation_validation",
        "ref": "DESIGN.md §5 C10",
        "technique": "translation validation of generated DefaultBuilder arms and action functions against the production "
                     "list of the table dump (arity, binding order, argument order, fillers, linear use, vector direction)",
        "text": "For each generated parser with the default builder, every production's reduce arm is compared with the "
                "production (rhs, content-ness, right-nulled length): pop size, symbols drawn, binding pattern and p0..pk "
                "order, argument order, None fillers only for the nulled tail; generated action functions must use every "
                "content parameter exactly once and build vectors in input order. Complete per program (in-repo corpus + "
                "witnesses; thorough: + a matrix of every repository grammar x 10 configurations); the GLR replay clause is "
                "decided on the runtime's MIR (post-order replay through the LR builder protocol, right-nulled extension of "
                "the matched solution). Does not run any parser. Late addition: a ?= assignment must be read by the generator (C10-R7; known finding: is_bool is read nowhere). C10-R8 (MIR): a terminal has content unless it is written as a string match; collect_terminals stores the recogniser as parsed.",
        "note": "Trusted: hook dump, syn; hand-maintained actions files (force off) are out of scope.",
    },
    "C11": {
        "engine": "gencheck",
        "level": "other",
        "ref": "DESIGN.md §5 C11",
        "technique": "rustc as the static checker on everything the build generates under both layout tags and on a fixed "
                     "witness matrix; alias-cycle and identifier-validation rules",
        "text": "rustc's type checker decides validity of all generated files of the repository's build in both table layouts "
                "and of a fixed witness matrix (grammar x configuration) generated by a scratch-built rcomp; structural rules "
                "for alias-only cycles and unvalidated identifiers. Finite corpus decided statically - not a claim over all "
                "grammars. Custom-builder parsers (LR/GLR, both layouts) are type-checked as well; custom-lexer parsers need a user module and are not.",
        "note": "Trusted: rustc (sandbox stable toolchain). The generator's template logic is not proved for all grammar shapes.",
    },
    "C02": {
        "engine": "mirfacts",
        "level": "other",
        "ref": "DESIGN.md §5 C02",
        "technique": 'argument provenance and ordering rules over MIR by path simulation (LR driver, stacks, builder), finite decision table of next_token, structural rules on table construction and generated STOP recognisers',
        "text": "Decides necessary structural clauses of 'the tree is a derivation of the consumed input': Reduce cells are (prod, position) of reducing items; cells only mutated by allowed operations; the LR driver pops/gotos/pushes/calls the builder with the table's (prod, len) and shifts the token that selected the action; stacks split exactly and keep order; result is the top of the builder stack; complete next_token table (synthetic STOP only under partial_parse and STOP expected); generated STOP recogniser matches only at the end; the LR loop answers Ok only through Accept. Partial: not the language, not the gotos. Late addition: right-nulled lengths must be tied to the GLR algorithm (C02-R1b; known finding: they are not).",
        "note": 'Trusted: rustc MIR of the generic runtime (pre-monomorphisation); user builders follow the LRBuilder protocol.',
    },
    "C12": {
        "engine": "mirfacts",
        "level": "other",
        "ref": "DESIGN.md §5 C12",
        "technique": 'finite decision table of the LR error path, argument provenance of the error value, ordering rules, GLR error-path rules by path simulation',
        "text": "Decides where the reported offset and expected set come from (LR and GLR), that whitespace is skipped before the position is read, that errors are neither swallowed nor invented, Ok is only reached through Accept, and that nothing but parse(), the LR shift and the whitespace skip writes the position (who-may-write). Partial: does not decide that the table's error cells are exactly the non-viable prefixes, nor line/column arithmetic. Late addition: the GLR error is made from the furthest head (C12-R8; known finding: from the first). C12-R9: a layout attempt that yields no layout puts the position back (D59, repaired); C12-R6 accepts such restores.",
        "note": 'Trusted: rustc MIR; the table itself (C01/C04 territory).',
    },
    "C13": {
        "engine": "mirfacts",
        "level": "other",
        "ref": "DESIGN.md §5 C13",
        "technique": 'argument provenance of span endpoints and token values over MIR (LR, lexer, GLR), LR/GLR sibling agreement, byte-unit rule, validation of generated recognisers',
        "text": "Decides where span endpoints come from on shift/reduce/empty-reduce (LR and GLR), that the two parsers anchor empty spans alike, the lexer's token value/span/input slice, whitespace skipping, Tree::build span hand-off, that the layout sub-parser's span does not stay in the content context (save/restore bracket on every path, by receiver epoch), that position_after measures in bytes with `\\n` as the only line terminator (line, column after/without a newline, offset), and on generated code that recognisers return input slices and anchor regexes as a whole (two known findings). Partial: not ordering of spans for concrete inputs. C13-R11: a GLR head split off for another lookahead keeps the base head`s position, span, state, frontier and layout.",
        "note": 'Trusted: rustc MIR; Context implementations are trivial setters/getters.',
    },
    "C14": {
        "engine": "mirfacts",
        "level": "other",
        "ref": "DESIGN.md §5 C14",
        "technique": 'ordering/must-pass-through and provenance rules on every hand-off of layout (path simulation), finite tables for configuration wiring',
        "text": 'Decides each hand-off of layout in the LR parser: tried only without a token and in the layout state, stored before the retry, restored after the re-lex that follows a reduce, reset after a shift, whitespace skipper slice/position, builders store it on the right node, layout parser returns an input slice, AUGL lookup and skip_ws && !has_layout. Partial: not the round trip itself. Late additions: after a reduction the older layout is put back only when the second fetch found none (C14-R2), the retry accumulates layout and layout is not tried after tokens only (C14-R1; two known findings). C14-R7: TreeBuilder::get_result returns the node pushed last by this parse (shares C02-R4).',
        "note": 'Trusted: rustc MIR; GLR trees drop layout by design (property stated for LR).',
    },
    "C03": {
        "engine": "mirfacts",
        "level": "other",
        "ref": "DESIGN.md §5 C03",
        "technique": 'keying/provenance rules and guard rules over MIR by path simulation (GLR shifter, reducer, frontier, forest); thin claim',
        "text": "THIN: decides the structural clauses with an oracle in the definition of a GSS / right-nulled table: shifted heads keyed by (state, position), sub-frontiers keyed consistently, right-nulled lengths, SPPF node label on child replacement, accept/forest collection, index past the end, and the registration table of the reducer against the RNGLR rules (new node: its shifts, reductions and accept; new edge on an old node: only reductions of length > 0 over that edge), a reduction path merged into (or dropped for) a stored solution only under the same production and identity of the children they share, and that nothing but the documented strategies takes lookaheads out of the candidate list. The index decoding of solutions()/get_tree() is declined: no independent oracle. C03-R9: find_reduction_paths enumerates paths, not nodes - every pending path taken off the worklist is extended over the back edges or delivered.",
        "note": 'Trusted: rustc MIR; Scott & Johnstone (RNGLR) for the registration table. That the worklist as a whole terminates with the complete forest is not decided.',
    },
    "C06": {
        "engine": "mirfacts",
        "level": "other",
        "ref": "DESIGN.md §5 C06",
        "technique": 'finite decision tables (sort key, finish flags, lexer stop rule, GLR filter) and provenance/sibling rules over MIR',
        "text": "Decides the structure of lexical disambiguation: candidate set, stable descending sort and key table, finish-flag tables, the lexer's stop table, LR/GLR parser-side filters and their sibling agreement, kind->recogniser mapping, shifted heads of lexical alternatives kept apart by position (shared with C03-R2); one known finding (priority-group cut). Partial: not which token wins for concrete regexes and inputs. Late addition: the terminal order key must be lexicographic (C06-R7; known finding: prio*1000+len). C06-R8: create_frontier must not let one head displace another in a (position, kind, state) slot (known finding: it does). C06-R9: after a reduction the LR parser selects the token again in the new state (shares C02-R3).",
        "note": 'Trusted: rustc MIR; documented order of strategies (docs lexical ambiguities).',
    },
    "C07": {
        "engine": "mirfacts",
        "level": "other",
        "ref": "DESIGN.md §5 C07",
        "technique": 'sibling agreement: decisions of the LR and GLR runtimes reduced to common terms/tables from MIR and compared',
        "text": 'Every decision both runtimes take (empty-span anchor, shift geometry, reduction spans, lexical filtering, STOP synthesis, error construction, layout-parser construction and the layout-state and span brackets of the token fetch, replay protocol, table selection, right-nulled table) is extracted from both implementations and compared; a disagreement means some input is treated differently. Partial: not tree equality for concrete grammars. C07-S14: the state merge treats LALR_RN (GLR) like LALR_PAGER (LR default) - shares T-R8 scan-types.',
        "note": 'Trusted: rustc MIR of both generic runtimes.',
    },
    "C01": {
        "engine": "mirfacts",
        "level": "other",
        "ref": "DESIGN.md §5 C01",
        "technique": "textbook-rule comparison of the table pipeline's decision points (FIRST, closure, propagation, fixpoint loops, phase order) extracted from MIR by path simulation; LR driver agreement",
        "text": 'Language equality is NOT decided. Decides the decision points at which lookahead regressions land, each against the textbook rule: phase order, fixpoint loops cannot stop early, lookahead sets only grow, FIRST of a string and every production contributes, the LR(1) closure lookahead rule, successor states and registration, propagation links/direction/source (closure refreshed in every round), state merging (core-equal, all-or-nothing, every reducing item tested against every other item), LR rejects conflicts (every cell of every state looked at), and that the LR driver does what the cell says.',
        "note": 'Trusted: rustc MIR; the textbook rules (Aho et al.; DeRemer/Pennello) as oracle. That the rules iterated yield the LALR(1)/Pager automaton is not decided.',
    },
    "C04": {
        "engine": "mirfacts",
        "level": "other",
        "ref": "DESIGN.md §5 C04",
        "technique": 'structural rules on merge/identity/propagation/right-nulling of the table builder against the definitions, extracted from MIR by path simulation',
        "text": 'Equality with canonical LR(1) is NOT decided. Decides where `same core, same transitions, lookaheads neither lost nor invented, only right-nulled extras` is implemented: merge only equal cores, guarded scan, all-or-nothing, items paired soundly; core identity; propagation into kernel items from all source items along GOTO and SHIFT; FIRST and the closure lookahead rule (FIRST of the whole rest; shared with C01); fixpoints cannot stop early; right-nulled lengths only for LALR_RN and only past rn_len; LR rejects conflicts. T-R8 scan-types: the Pager compatibility scan runs for LALR_PAGER and LALR_RN and not for LALR.',
        "note": 'Trusted: rustc MIR. Of the weak-compatibility test only its quantification (which item pairs are tested) is decided, not the set algebra of the test itself.',
    },
    "C09": {
        "engine": "mirfacts",
        "level": "other",
        "ref": "DESIGN.md §5 C09",
        "technique": 'structural rules over the grammar builder from MIR: finite table of the EMPTY filter, adaptor whitelist, provenance of start/AUG/ntidx, guard polarity of meta inheritance, desugar templates vs the documented expansions, memo-key completeness, guarded inserts',
        "text": 'Decides structural clauses of `the analysed grammar is the one written`: EMPTY filter drops exactly EMPTY references unconditionally; no reordering/dropping; ntidx, start symbol, AUG; meta-data inheritance polarity and order; inline literal resolution; helper rules of ?, *, + equal the documented expansions; helper reuse key covers the separator (known finding); no definition silently dropped (known findings). Late additions: keys that map to one Production field are inherited as one datum (C09-R3 assoc clause), the Layout rule is found by its name as written (C09-R2b; known finding). C09-R4b: the text of a string literal is decoded in one pass (D55, repaired).',
        "note": 'Trusted: rustc MIR; docs/src/grammar_language.md as the spec of the expansions. The bootstrapped parser of the grammar language is not validated here.',
    },
}
