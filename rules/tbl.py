"""Group T: the table pipeline (FIRST, closure, state construction, merge, propagation) against the textbook rules.
Shared by C01 and C04."""
from . import mir, rt, idiom
from .mir import Sim, TermBuilder, callee, fmt, has_call, has_field
from .rt import is_call, calls, idx

T = "rustemo_compiler::table::"
GROW = ("::extend", "::insert", "::push", "::append")


def loops_of(f):
    hs = {}
    for (b, h) in f.back_edges():
        hs.setdefault(h, set()).update(f.loop_blocks(h))
    return hs


def reach_within(f, start, allowed):
    seen = {start}
    st = [start]
    while st:
        b = st.pop()
        for s in f.succ(b):
            if s in allowed and s not in seen:
                seen.add(s)
                st.append(s)
    return seen


def fixpoint_loop(F, res, rid, f, flag, containers, label):
    """T-R2 for one loop: flag var `flag` of function f; containers = field/var names of the monotone sets."""
    L = f.local_of_var(flag)
    loops = loops_of(f)
    if L is None:
        # renamed: the flag is the one named bool variable that a loop header of this function switches on
        cands = set()
        for h in loops:
            t = f.blocks[h]["term"]
            if t["k"] == "switch" and t.get("ty") == "bool" and t["op"]["k"] in ("copy", "move") and not t["op"]["p"]["proj"]:
                nm = f.var_name(t["op"]["p"]["l"])
                if nm:
                    cands.add(nm)
        if len(cands) != 1:
            res.anchor_lost(rid, "%s: flag variable `%s` not found" % (label, flag), f.loc())
            return
        flag = cands.pop()
        L = f.local_of_var(flag)
    # the loop that the flag controls: `while flag { .. }` (the header switches on it) or `loop { .. if !flag { break } }`
    # (a switch on it inside the body leaves the loop)
    tb0 = TermBuilder(f, F)
    def on_flag(t):
        if t["k"] != "switch":
            return False
        op = t["op"]
        return op["k"] in ("copy", "move") and (op["p"]["l"] == L or tb0.operand(op) == ("var", flag)
                                               or tb0.operand(op) == ("un", "Not", ("var", flag)))
    header = None
    for h, body in loops.items():
        region = set(body) | {h}
        for b in region:
            t = f.blocks[b]["term"]
            if on_flag(t) and any(s not in region for s in f.succ(b)):
                if header is None or len(body) > len(loops[header]):
                    header = h
    if header is None:
        res.violation(rid, "%s/exit" % label, "%s: no loop is controlled by the fixpoint flag `%s` (the loop may stop before a round "
                      "without growth)" % (label, flag), f.loc())
        return
    body = loops[header]
    region = set(body) | {header}
    # every way out of the loop is the flag being false
    exit_vals = []
    for b in region:
        t = f.blocks[b]["term"]
        def dead(s):
            # a block that only panics / is unreachable is not an exit of the computation
            k = f.blocks[s]["term"]["k"]
            return k in ("unreachable", "resume", "terminate") or (k == "call" and f.blocks[s]["term"].get("t") is None)
        outs = [s for s in f.succ(b) if s not in region and not dead(s)]
        if not outs:
            continue
        if t["k"] in ("call", "drop", "assert"):
            continue          # unwinding / diverging edges are not exits of the computation
        if not on_flag(t):
            exit_vals.append("other")
            continue
        neg = tb0.operand(t["op"]) == ("un", "Not", ("var", flag))
        for v, tgt in t["targets"]:
            if tgt not in region and not dead(tgt):
                exit_vals.append((1 - v) if neg and v in (0, 1) else v)
        if t["otherwise"] not in region and not dead(t["otherwise"]):
            taken = {v for v, _ in t["targets"]}
            ov = 1 if 0 in taken else 0
            exit_vals.append((1 - ov) if neg else ov)
    if exit_vals and all(v == 0 for v in exit_vals):
        res.ok(rid, "%s/exit" % label, f.loc(), "the loop is left only when `%s` is false" % flag)
    else:
        res.violation(rid, "%s/exit" % label, "%s: the fixpoint loop is left when `%s` is %s" % (label, flag, exit_vals), f.loc())
    # assignments to the flag (function body)
    trues, falses, others = [], [], []
    for i, j, s in f.stmts():
        if s["dst"]["l"] == L and not s["dst"]["proj"]:
            rv = s["rv"]
            if rv["k"] == "use" and rv["op"]["k"] == "const" and rv["op"].get("int") in (0, 1):
                (trues if rv["op"]["int"] else falses).append(i)
            else:
                others.append((i, s))
    # and in closures (stores through the upvar)
    for cl in F.all_nested_closures(f):
        ups = [u["name"] for u in (cl.d.get("upvars") or [])]
        if flag not in ups:
            continue
        tbc = TermBuilder(cl, F)
        for i, j, s in cl.stmts():
            pr = s["dst"]["proj"]
            if not pr:
                continue
            base = tbc.place({"l": s["dst"]["l"], "proj": pr})
            if base != ("upvar", flag):
                continue
            rv = s["rv"]
            if rv["k"] == "use" and rv["op"]["k"] == "const" and rv["op"].get("int") == 1:
                trues.append(("closure", cl.path, i))
            elif rv["k"] == "use" and rv["op"]["k"] == "const" and rv["op"].get("int") == 0:
                res.violation(rid, "%s/reset-in-closure" % label, "%s: the flag is reset inside a closure of the loop body" % label, cl.loc())
            else:
                others.append((("closure", cl.path, i), s))
    if others:
        res.violation(rid, "%s/latch" % label, "%s: `%s` is assigned from a computed value (%d site(s)) instead of being latched to "
                      "true: a later step without growth clears the flag and the fixpoint stops early" % (label, flag, len(others)), f.loc())
    else:
        res.ok(rid, "%s/latch" % label, f.loc(), "`%s` is only ever assigned constants" % flag)
    in_loop_false = [b for b in falses if b in body]
    if len(in_loop_false) != 1:
        res.violation(rid, "%s/reset" % label, "%s: `%s` is reset to false at %d places inside the loop (expected exactly one, at the "
                      "start of an iteration)" % (label, flag, len(in_loop_false)), f.loc())
    else:
        bf = in_loop_false[0]
        # the reset must come before any growth site / true-assignment of the iteration
        later = [b for b in body if b != header and b != bf and not f.dominates(bf, b)]
        grow_blocks = set()
        for b2, t2 in f.calls():
            c = callee(t2)
            if b2 in body and (any(c.endswith(g) or g + "<" in c for g in GROW) or c.endswith("::for_each") or c.endswith("LRState::<'g>::closure")):
                grow_blocks.add(b2)
        bad = [b for b in later if b in grow_blocks or b in [x for x in trues if isinstance(x, int)]]
        if bad:
            res.violation(rid, "%s/reset" % label, "%s: `%s` is reset after growth may already have happened in the iteration" % (label, flag), f.loc())
        else:
            res.ok(rid, "%s/reset" % label, f.loc(), "reset once, before any growth of the iteration")
    if not trues:
        res.violation(rid, "%s/raise" % label, "%s: nothing ever sets `%s` to true: the fixpoint runs a single round" % (label, flag), f.loc())
    else:
        res.ok(rid, "%s/raise" % label, f.loc(), "%d site(s) raise the flag" % len(trues))


def r2_fixpoints(F, res, rid):
    f1 = F.one(r"^rustemo_compiler::table::first_sets$")
    fixpoint_loop(F, res, rid, f1, "additions", ("first_sets",), "first_sets")
    f2 = F.one(r"LRState::<'g>::closure$")
    # closure(): `loop { .. if !change { break } }` - flag is declared inside the loop; exit on !change
    closure_loop(F, res, rid, f2)
    f3 = F.one(r"LRTable::<'g, 's>::propagate_follows$")
    fixpoint_loop(F, res, rid, f3, "changed", ("follow",), "propagate_follows")


def closure_loop(F, res, rid, f):
    label = "closure"
    L = f.local_of_var("change")
    if L is None:
        res.anchor_lost(rid, "closure: flag `change` not found", f.loc())
        return
    trues, falses, others = [], [], []
    for i, j, s in f.stmts():
        if s["dst"]["l"] == L and not s["dst"]["proj"]:
            rv = s["rv"]
            if rv["k"] == "use" and rv["op"]["k"] == "const" and rv["op"].get("int") in (0, 1):
                (trues if rv["op"]["int"] else falses).append(i)
            else:
                others.append(i)
    if others:
        res.violation(rid, "closure/latch", "closure: `change` is assigned from a computed value instead of being latched", f.loc())
    else:
        res.ok(rid, "closure/latch", f.loc())
    if len(falses) != 1 or len(trues) < 2:
        res.violation(rid, "closure/raise", "closure: `change` is set false at %d and true at %d places (expected 1 and 2: follow grew / "
                      "new item)" % (len(falses), len(trues)), f.loc())
    else:
        res.ok(rid, "closure/raise", f.loc(), "raised when an item's follow grew and when a new item was added")
    # exit: the outermost loop is left only through a switch on change == false
    loops = loops_of(f)
    outer = max(loops.items(), key=lambda kv: len(kv[1]))
    body = outer[1]
    exits = []
    tb = TermBuilder(f, F)
    for b in body:
        t = f.blocks[b]["term"]
        for s in f.succ(b):
            if s not in body and f.blocks[s]["term"]["k"] not in ("resume", "unreachable"):
                exits.append((b, s, t))
    okx = True
    for b, s, t in exits:
        if t["k"] != "switch":
            # drop/goto chains after the deciding switch are fine when dominated by it
            continue
        op = tb.operand(t["op"])
        base = op
        nots = 0
        while isinstance(base, tuple) and base[0] == "un" and base[1] == "Not":
            base = base[2]
            nots += 1
        if base != ("var", "change"):
            okx = False
    if okx and exits:
        res.ok(rid, "closure/exit", f.loc(), "left only on !change")
    else:
        res.violation(rid, "closure/exit", "closure: the closure loop can be left on another condition than !change", f.loc())


def r1_phase_order(F, res, rid):
    f = F.one(r"LRTable::<'g, 's>::new$")
    want = ["table::first_sets", "LRTable::<'g, 's>::check_empty_sets", "LRTable::<'g, 's>::calc_states",
            "LRTable::<'g, 's>::propagate_follows", "LRTable::<'g, 's>::calculate_reductions", "LRTable::<'g, 's>::sort_terminals"]
    n = 0
    for p in Sim(f, F, max_paths=200000).run():
        r = [e[1] for e in p.events if e[0] == "return"]
        if p.end != "return" or not r or not (r[0][0] == "agg" and r[0][1].endswith("Result::Ok")):
            continue
        n += 1
        seq = [next((w for w in want if e[1].endswith(w)), None) for e in p.events if e[0] == "call"]
        seq = [s for s in seq if s]
        dedup = [s for i, s in enumerate(seq) if i == 0 or seq[i - 1] != s]
        if dedup != want:
            res.violation(rid, "phase-order", "LRTable::new reaches Ok(table) through %s, expected %s" % (
                [s.split("::")[-1] for s in dedup], [s.split("::")[-1] for s in want]), f.loc())
            return
        # check_empty_sets error propagated
        ce = idx(p, "check_empty_sets")
        nxt = p.events[ce + 1] if ce is not None and ce + 1 < len(p.events) else None
        if not (nxt and nxt[0] == "call" and nxt[1].endswith("Try>::branch")):
            res.violation(rid, "empty-sets-propagated", "the result of check_empty_sets is not propagated with `?`", f.loc())
            return
        # layout automaton: second calc_states iff augmented_layout_index is Some, after layout_state := states.len()
        lay = [v for t, v in p.cond if t[0] == "discr" and has_field(t[1], "augmented_layout_index")]
        ncs = len([e for e in p.events if e[0] == "call" and e[1].endswith("calc_states")])
        if lay and ((lay[0] == frozenset(["Some"])) != (ncs == 2)):
            res.violation(rid, "layout-automaton", "the layout automaton is built %d time(s) although the grammar %s a Layout rule" % (
                ncs - 1, "has" if lay[0] == frozenset(["Some"]) else "has no"), f.loc())
            return
    if n:
        res.ok(rid, "phase-order", f.loc(), "%d Ok paths: first_sets -> check_empty_sets? -> calc_states [-> layout] -> propagate_follows -> "
               "calculate_reductions -> sort_terminals" % n)
    else:
        res.anchor_lost(rid, "no Ok path in LRTable::new", f.loc())


def r3_monotone(F, res, rid):
    """lookahead sets only grow: every mutating call on an LRItem.follow set is extend/insert"""
    n = 0
    for f in F.fns.values():
        if f.crate != "rustemo_compiler" or not f.has_body() or not f.path.startswith(T) and not f.path.startswith("<" + T):
            continue
        if "::tests::" in f.path:
            continue
        tb = None
        # a lookahead set that is assigned as a whole (`*item.follow.borrow_mut() = ..`) is not "only grown"
        for bi, si, s in f.stmts():
            dst = s["dst"]
            if dst["proj"] and dst["proj"][-1]["k"] == "deref" and len(dst["proj"]) == 1 and "BTreeSet" in f.local_ty(dst["l"]) \
                    and f.local_ty(dst["l"]).startswith("&mut"):
                tb = tb or TermBuilder(f, F)
                if has_field(tb.local(dst["l"]), "follow", "LRItem"):
                    n += 1
                    res.violation(rid, "%s/store" % f.path.split("::{closure")[0].rsplit("::", 1)[-1],
                                  "a lookahead set of an LR item is overwritten (lookaheads may only be added)", "%s:%s" % (f.file, s.get("line")))
        for b, t in f.calls():
            c = callee(t)
            if not t["args"]:
                continue
            a0 = t["args"][0]
            if not (a0["k"] in ("copy", "move") and f.local_ty(a0["p"]["l"]).startswith("&mut") and "BTreeSet" in f.local_ty(a0["p"]["l"])):
                continue
            if any(c.endswith(x) for x in ("::deref_mut", "::deref", "::borrow_mut", "::iter", "::len", "::is_empty", "::contains")):
                continue
            tb = tb or TermBuilder(f, F)
            recv = tb.operand(a0)
            if not (has_field(recv, "follow", "LRItem")):
                continue
            n += 1
            m = mir.strip_generics(c).rsplit("::", 1)[-1]
            key = "%s/%s" % (f.path.split("::{closure")[0].rsplit("::", 1)[-1], m)
            if m in ("extend", "insert", "append"):
                res.ok(rid, key, "%s:%s" % (f.file, t["line"]))
            else:
                res.violation(rid, key, "a lookahead set of an LR item is mutated with BTreeSet::%s (lookaheads may only be added)" % m,
                              "%s:%s" % (f.file, t["line"]))
    if n < 3:
        res.anchor_lost(rid, "%d mutating calls on LRItem.follow found, 3 expected" % n)


def _r4_firsts_scan(F, res, rid, f, loops):
    """FIRST(X1..Xn), in whatever control-flow spelling (flags + break, early return): per element x of FIRST(Xi): x is
    EMPTY => Xi is marked nullable and x is not added, else x is added; the mark is cleared for every Xi; a non-nullable Xi
    ends the scan without adding EMPTY; running out of symbols adds EMPTY."""
    inner = min(loops.items(), key=lambda kv: len(kv[1]))
    outer = max(loops.items(), key=lambda kv: len(kv[1]))
    def is_empty_cmp(tm):
        return (tm[0] == "bin" and tm[1] in ("Eq", "Ne") and (has_field(tm[3], "empty_index") or has_field(tm[2], "empty_index"))) or \
            (is_call(tm, "::eq") and any(has_field(a, "empty_index") for a in tm[2])) or \
            (is_call(tm, "::ne") and any(has_field(a, "empty_index") for a in tm[2]))
    def is_eq(tm, v):
        neg = (tm[0] == "bin" and tm[1] == "Ne") or is_call(tm, "::ne")
        return (v == 1) != neg
    def set_inserts(p):
        return [e for e in p.events if e[0] == "call" and "BTreeSet" in e[1] and e[1].endswith("::insert")]
    # (1) element table; the nullable mark is whichever bool variable is raised on the `== EMPTY` branch
    rows = set()
    marks = set()
    for p in Sim(f, F).run(entry=inner[0]):
        if p.end != "backedge":
            continue
        eq = [(tm, v) for tm, v in p.cond if is_empty_cmp(tm)]
        if not eq:
            continue
        iseq = is_eq(*eq[0])
        raised = [e[1] for e in p.events if e[0] == "set" and e[2] == ("const", 1) and f.local_ty(f.local_of_var(e[1]) or 0) == "bool"]
        if iseq:
            marks.update(raised)
        rows.add((iseq, bool(set_inserts(p)), bool(raised)))
    exp = {(True, False, True), (False, True, False)}
    if not rows or len(marks) != 1:
        res.anchor_lost(rid, "firsts: comparison with EMPTY / nullable mark not recognised (rows %s, marks %s)" % (sorted(rows), sorted(marks)), f.loc())
        return
    if rows == exp:
        res.ok(rid, "firsts/element", f.loc(), "x == EMPTY => symbol marked nullable (x not inserted); else x inserted")
    else:
        res.violation(rid, "firsts/element", "FIRST of a string: per-element table (x == EMPTY, inserted, marked nullable) is %s, "
                      "textbook %s" % (sorted(rows), sorted(exp)), f.loc())
    mark = marks.pop()
    # (2) scan: from the head of the symbol loop
    ok_reset = ok_stop = ok_all = None
    why = ""
    for p in Sim(f, F).run(entry=outer[0]):
        nx = [v for tm, v in p.cond if tm[0] == "discr" and is_call(tm[1], "Iterator>::next")]
        if not nx:
            continue
        adds_empty = any(has_field(e[2][1], "empty_index") for e in set_inserts(p) if len(e[2]) > 1)
        if nx[0] == frozenset(["None"]):
            # out of symbols: EMPTY is added (a path without it must hang on a flag the simulator cannot resolve)
            if p.end == "return" and adds_empty:
                ok_all = True
            elif p.end == "return" and not any(tm[0] == "var" for tm, _ in p.cond):
                ok_all = False
                why = "running out of symbols does not add EMPTY"
        elif nx[0] == frozenset(["Some"]):
            sets = [e for e in p.events if e[0] == "set" and e[1] == mark]
            if sets and ok_reset is not False:
                ok_reset = sets[0][2] == ("const", 0)
            mc = [v for tm, v in p.cond if tm == ("var", mark)]
            if not mc and len(nx) > 1 and nx[-1] == frozenset(["None"]) and sets and sets[-1][2][0] == "const":
                # the element loop was left on this path with the mark still holding the value it was given here
                mc = [sets[-1][2][1]]
            if mc and mc[-1] == 0:
                # the symbol is not nullable: the scan ends here, without EMPTY
                good = p.end == "return" and not adds_empty
                if ok_stop is not False:
                    ok_stop = good
                if not good:
                    why = "after a symbol that is not nullable the scan %s" % ("goes on" if p.end == "backedge" else "adds EMPTY")
    for key, ok, good_msg, bad_msg in (
            ("firsts/empty-reset", ok_reset, "the nullable mark is cleared for every symbol", "the nullable mark is not cleared for every symbol of the string"),
            ("firsts/stop-at-non-nullable", ok_stop, "a non-nullable symbol ends the scan without EMPTY", "FIRST of a string: " + why),
            ("firsts/empty-iff-all-nullable", ok_all, "EMPTY is added when the symbols run out", "FIRST of a string: " + why)):
        if ok is None:
            res.anchor_lost(rid, "firsts: %s - not recognised" % key, f.loc())
        elif ok:
            res.ok(rid, key, f.loc(), good_msg)
        else:
            res.violation(rid, key, bad_msg, f.loc())


def r4_first(F, res, rid):
    """FIRST of a symbol string and the FIRST-set fixpoint body."""
    f = F.one(r"^rustemo_compiler::table::firsts$")
    loops = loops_of(f)
    if len(loops) < 2:
        res.anchor_lost(rid, "firsts: the scan over the symbols and the loop over one symbol's FIRST set were not both found", f.loc())
    else:
        _r4_firsts_scan(F, res, rid, f, loops)
    # first_sets fixpoint body: every production contributes firsts(rhs) to its own lhs
    g = F.one(r"^rustemo_compiler::table::first_sets$")
    gl = loops_of(g)
    # the production loop = the loop containing the call to firsts
    fb = [b for b, t in g.calls() if callee(t).endswith("table::firsts")]
    if not fb:
        res.anchor_lost(rid, "call of firsts in first_sets not found", g.loc())
        return
    cands = [(h, body) for h, body in gl.items() if fb[0] in body]
    h, body = min(cands, key=lambda kv: len(kv[1]))
    okp = None
    for p in Sim(g, F).run(entry=h):
        if p.end != "backedge":
            continue
        nx = [v for t, v in p.cond if t[0] == "discr" and is_call(t[1], "Iterator>::next")]
        if not nx or nx[0] != frozenset(["Some"]):
            continue
        fc = calls(p, "table::firsts")
        ex = [e for e in p.events if e[0] == "call" and e[1].endswith("::extend")]
        if not fc or not ex:
            okp = False
            res.violation(rid, "first-sets/every-production", "a production can be skipped in the FIRST fixpoint (a path of the production "
                          "loop does not add firsts(rhs) to FIRST(lhs)): %s" % [(fmt(t)[:70], rt.val(v)) for t, v in p.cond][-2:], g.loc())
            break
        lhs = ex[0][2][0]
        rhs = fc[0][2][2]
        prod = [x for x in mir.walk(rhs) if isinstance(x, tuple) and x[0] == "vfield" and is_call(x[1], "Iterator>::next")]
        ok = has_call(lhs, "nonterm_to_symbol_index") and has_field(lhs, "nonterminal", "Production") and has_call(rhs, "Production::rhs_symbols") \
            and is_call(ex[0][2][1], "table::firsts")
        if not ok:
            okp = False
            res.violation(rid, "first-sets/lhs-rhs", "FIRST fixpoint adds %s to %s (expected firsts(rhs of the production) into FIRST(its lhs))" % (
                fmt(ex[0][2][1])[:80], fmt(lhs)[:80]), g.loc())
            break
        okp = True
    if okp:
        res.ok(rid, "first-sets/every-production", g.loc(), "FIRST(lhs) += firsts(rhs) for every production, every round")
    elif okp is None:
        res.anchor_lost(rid, "production loop of first_sets not found", g.loc())


def r5_closure(F, res, rid):
    """LR(1) closure lookahead rule."""
    f = F.one(r"LRState::<'g>::closure$")
    # every pass looks at EVERY item of the state (an item that is already there can have got new lookaheads, which its
    # closure items must inherit): no skip / slice / take on the way from self.items to the loop
    tb0 = TermBuilder(f, F)
    srcs = []
    for b0, t0 in f.calls():
        if mir.call_matches(callee(t0), "Iterator::next") and t0["args"]:
            s0 = tb0.operand(t0["args"][0])
            if has_field(s0, "items", "LRState") and not has_call(s0, "iter_mut") and not has_call(s0, "::find"):
                srcs.append(s0)
    cutters = sorted({mir.short(c[1]) for s0 in srcs for c in mir.calls_in(s0) if any(c[1].endswith(k) for k in (
        "Iterator::skip", "Iterator::take", "Iterator::step_by", "Iterator::skip_while", "Iterator::take_while", "Iterator::filter",
        "Iterator::rev")) or ("index" in c[1].lower() and len(c[2]) > 1 and isinstance(c[2][1], tuple) and c[2][1][0] == "agg"
                              and "Range" in c[2][1][1])})
    if srcs and cutters:
        res.violation(rid, "all-items", "a closure pass does not look at every item of the state (%s on self.items): lookaheads that reach an "
                      "item already in the state are not handed down to its closure items" % ", ".join(cutters), f.loc())
    elif srcs:
        res.ok(rid, "all-items", f.loc(), "for item in &self.items")
    # region: body of the item loop = the loop containing the call to firsts
    fb = [b for b, t in f.calls() if callee(t).endswith("table::firsts")]
    if not fb:
        res.anchor_lost(rid, "call of firsts in closure not found", f.loc())
        return
    gl = loops_of(f)
    cands = [(h, body) for h, body in gl.items() if fb[0] in body]
    h, body = min(cands, key=lambda kv: len(kv[1]))
    rows = set()
    suffix_ok = None
    items_ok = None
    for p in Sim(f, F).run(entry=h):
        nt = [v for t, v in p.cond if is_call(t, "Grammar::is_nonterm")]
        if not nt or nt[0] != 1:
            # nothing may be added for a terminal / no symbol at the dot
            if calls(p, "LRItem::with_follow"):
                res.violation(rid, "only-nonterminal", "closure adds items although the symbol at the dot is not a nonterminal", f.loc())
            continue
        a1 = [v for t, v in p.cond if t[0] == "bin" and t[1] == "Lt" and has_field(t[2], "position", "LRItem")]
        # "FIRST(suffix) contains EMPTY": `contains(EMPTY)` or the bool that `remove(EMPTY)` returns
        fc = calls(p, "table::firsts")
        wf0 = calls(p, "LRItem::with_follow")
        if not wf0:
            continue
        a2all = [(t, v) for t, v in p.cond if (is_call(t, "BTreeSet::<T, A>::contains") or is_call(t, "BTreeSet::<T, A>::remove"))
                 and len(t[2]) > 1 and has_field(t[2][1], "empty_index")]
        # ... asked of FIRST(suffix) itself (the set the new items get), not of some other set
        a2 = [v for t, v in a2all if is_call(t[2][0], "table::firsts") and fc and idiom.same(t[2][0][2][2], fc[0][2][2])]
        if a2all and not a2:
            res.violation(rid, "empty-test", "closure decides whether to add the item's lookaheads by asking %s for EMPTY, expected "
                          "FIRST of the whole rest of the production" % fmt(a2all[0][0][2][0])[:100], f.loc())
            return
        # abstract value of the lookahead set handed to the new items: (starts from FIRST(suffix), EMPTY removed, item's
        # lookaheads added), read off the operations on that object in path order
        base = wf0[0][2][3]
        wi = p.events.index(wf0[0])
        def on_base(e):
            return e[0] == "call" and e[2] and idiom.same(e[2][0], base)
        removed = any(on_base(e) and "BTreeSet" in e[1] and e[1].endswith("::remove") and has_field(e[2][1], "empty_index") for e in p.events[:wi])
        extended = any(on_base(e) and e[1].endswith("::extend") and has_field(e[2][1], "follow", "LRItem") for e in p.events[:wi])
        from_first = is_call(base, "table::firsts")
        from_follow = not from_first and has_field(base, "follow", "LRItem")
        rows.add((a1[0] if a1 else None, a2[0] if a2 else None, from_first, removed, extended or from_follow))
        if fc and suffix_ok is None:
            s = fc[0][2][2]
            # production_rhs_symbols(item.prod)[item.position + 1 ..]
            suffix_ok = has_call(s, "Grammar::production_rhs_symbols") and mir.contains(s, lambda x: isinstance(x, tuple) and x[0] == "bin" and x[1] == "Add"
                                                                                         and has_field(x[2], "position", "LRItem") and x[3] == ("const", 1)) \
                and mir.contains(s, lambda x: isinstance(x, tuple) and x[0] == "agg" and x[1].endswith("RangeFrom"))
            if not suffix_ok:
                res.violation(rid, "suffix", "closure computes FIRST of %s, expected the symbols after the nonterminal at the dot "
                              "(rhs[position + 1 ..])" % fmt(s)[:140], f.loc())
        wf = calls(p, "LRItem::with_follow")
        if wf and items_ok is None:
            a = wf[0][2]
            prods_src = a[1]
            items_ok = has_field(prods_src, "productions", "NonTerminal") and has_call(prods_src, "symbol_to_nonterm_index")
            if not items_ok:
                res.violation(rid, "new-items", "closure creates items for %s, expected every production of the nonterminal at the dot" % fmt(prods_src)[:120], f.loc())
    # textbook: suffix empty -> the item's lookaheads; suffix non-empty -> FIRST(suffix), and iff that contains EMPTY: without
    # EMPTY, plus the item's lookaheads (removing an absent EMPTY is a no-op, so the `removed` column is free when it is absent)
    def row_ok(r):
        nonempty, eps, ff, rem, plus = r
        if nonempty == 0:
            return (not ff) and plus
        if nonempty == 1 and eps == 1:
            return ff and rem and plus
        if nonempty == 1 and eps == 0:
            return ff and not plus
        return None
    verdicts = {r: row_ok(r) for r in rows}
    situations = {(r[0], r[1] if r[0] == 1 else None) for r in rows}
    if not rows or None in verdicts.values() or situations != {(0, None), (1, 0), (1, 1)}:
        res.anchor_lost(rid, "closure lookahead computation not recognised (rows %s)" % sorted(rows, key=str), f.loc())
    elif all(verdicts.values()):
        res.ok(rid, "lookahead-rule", f.loc(), "suffix non-empty: FIRST(suffix), and if it contains EMPTY remove it and add the item's "
               "lookaheads; suffix empty: the item's lookaheads")
    else:
        res.violation(rid, "lookahead-rule", "closure lookahead table (suffix non-empty, FIRST(suffix) has EMPTY -> starts from FIRST(suffix), "
                      "EMPTY removed, item's lookaheads added) is %s" % sorted(rows, key=str), f.loc())
    if suffix_ok:
        res.ok(rid, "suffix", f.loc())
    if items_ok:
        res.ok(rid, "new-items", f.loc())


def r9_propagation(F, res, rid):
    f = F.one(r"LRTable::<'g, 's>::propagate_follows$")
    cls = F.all_nested_closures(f)
    # the for_each closure that extends target follows
    # the code that extends the target item's lookaheads: a for_each closure, or the body of a `for` loop in the function
    main = None
    for cl in cls + [f]:
        if any(callee(t).endswith("::extend") for _, t in cl.calls()):
            main = cl
            break
    if main is None:
        res.anchor_lost(rid, "extension of the target item's follow not found in propagate_follows", f.loc())
        return
    where = main.loc()
    okd = None
    try:
        mpaths = Sim(main, F, max_paths=100000).run()
    except mir.PathLimit:
        res.anchor_lost(rid, "too many paths in %s" % main.path, where)
        return
    for p in mpaths:
        ex = [e for e in p.events if e[0] == "call" and e[1].endswith("::extend")]
        if not ex:
            continue
        dst, src = ex[0][2][0], ex[0][2][1]
        # dst: target_item.follow (target from self.states[target_state].items filtered is_kernel); src: source item found in state.items
        tgt_ok = has_field(dst, "follow", "LRItem") and has_call(dst, "Iterator::filter") and (
            mir.contains(dst, lambda x: isinstance(x, tuple) and x[0] == "upvar" and "states" in x[1]) or has_field(dst, "states", "LRTable"))
        src_ok = has_field(src, "follow", "LRItem") and has_call(src, "::find")
        finds = [c for c in mir.calls_in(src) if c[1].endswith("::find")]
        src_iter = finds[0][2][0] if finds else None
        if not tgt_ok or not src_ok:
            okd = False
            res.violation(rid, "direction", "propagation extends %s with %s (expected: the target state's kernel item receives the "
                          "lookaheads of the matching item of the source state)" % (fmt(dst)[:100], fmt(src)[:100]), where)
            break
        # source search ranges over all items of the source state (kernel and closure items)
        adapt = [mir.short(c[1]) for c in mir.calls_in(src_iter)] if src_iter else []
        if any("kernel_items" in a or "filter" in a for a in adapt) or not has_field(src_iter, "items", "LRState"):
            okd = False
            res.violation(rid, "source-items", "the source item is searched in %s: lookaheads that reach a state's closure items are not "
                          "propagated to its successors (all items of the source state must be searched)" % adapt, where)
            break
        okd = True
    # every growth asks for another round: on each path where the target's lookahead set was extended and found larger, the
    # fixpoint flag is raised, whatever else holds on that path
    grew_paths = unflagged = 0
    for p in mpaths:
        i_ex = [i for i, e in enumerate(p.events) if e[0] == "call" and e[1].endswith("::extend")]
        if not i_ex:
            continue
        grow = [(i, e) for i, e in enumerate(p.events) if e[0] == "cond" and i > i_ex[0] and e[1][0] == "bin" and e[1][1] in ("Gt", "Lt", "Ne")
                and has_call(e[1], "::len") and has_field(e[1], "follow", "LRItem")]
        if not grow:
            continue
        gi, ge = grow[0]
        grew = (ge[2] == 1)
        if not grew:
            continue
        grew_paths += 1
        raised = any(e[0] in ("set", "store") and e[2] == ("const", 1) for e in p.events[gi:])
        if not raised:
            unflagged += 1
    if grew_paths and unflagged:
        res.violation(rid, "growth-raises-flag", "%d of %d paths on which a target item's lookaheads grew do not ask for another propagation "
                      "round: the fixpoint can stop with lookaheads that were never passed on" % (unflagged, grew_paths), where)
    elif grew_paths:
        res.ok(rid, "growth-raises-flag", where, "%d growth path(s), all raise the flag" % grew_paths)
    if okd:
        res.ok(rid, "direction", where, "extend(target kernel item follow, source item follow)")
        res.ok(rid, "source-items", where, "source searched in state.items (all items)")
    # filter of target items is is_kernel
    fk = None
    for cl in cls:
        cs = {callee(t) for _, t in cl.calls()}
        if any(c.endswith("LRItem::is_kernel") for c in cs):
            # the filter closure answers is_kernel() itself (not its negation, nothing and-ed to it)
            pi = idiom.predicate_is(F, cl, "LRItem::is_kernel")
            fk = pi if fk is None else (fk and pi)
    if fk is None:
        res.violation(rid, "target-kernel", "propagation does not restrict the updated items to the kernel items of the target state", where)
    elif fk:
        res.ok(rid, "target-kernel", where)
    else:
        res.violation(rid, "target-kernel", "propagation does not restrict the updated items to the kernel items of the target state", where)
    # match predicate: same prod, position == target.position - 1
    okm = False
    for cl in cls:
        for p in Sim(cl, F).run():
            r = [e[1] for e in p.events if e[0] == "return"]
            eqp = [1 for t, v in p.cond if is_call(t, "::eq") and any(has_field(a, "prod", "LRItem") for a in t[2])]
            if r and r[0][0] == "bin" and r[0][1] == "Eq" and has_field(r[0][2], "position", "LRItem"):
                rhs = r[0][3]
                if rhs[0] == "bin" and rhs[1] == "Sub" and has_field(rhs[2], "position", "LRItem") and rhs[3] == ("const", 1) and eqp:
                    okm = True
                else:
                    res.violation(rid, "link-position", "the source item is matched by position == %s (expected target.position - 1 with "
                                  "the same production)" % fmt(rhs)[:80], cl.loc())
    if okm:
        res.ok(rid, "link-position", where, "same production, dot one symbol earlier")
    # link set: gotos (Some) chained with Shift targets
    names = {callee(t) for _, t in f.calls()}
    have_chain = any(n.endswith("Iterator::chain") for n in names)
    shift_cl = False
    for cl in cls:
        for p in Sim(cl, F).run():
            for t, v in p.cond:
                if t[0] == "discr" and len(t) > 2 and str(t[2]).endswith("table::Action") and v == frozenset(["Shift"]):
                    shift_cl = True
    gotos = any(has_field(TermBuilder(f, F).operand(t["args"][0]), "gotos", "LRState") for _, t in f.calls() if t["args"] and callee(t).endswith("NonTermVec::<T>::iter"))
    # ... and every link is followed: nothing filters, skips or cuts the chained transitions (a state's transition to itself
    # carries lookaheads like any other)
    tbf = TermBuilder(f, F)
    cut = []
    for g in [f] + cls:
        tbg = tbf if g is f else TermBuilder(g, F)
        for _, t2 in g.calls():
            c = callee(t2)
            if any(c.endswith(k) for k in ("Iterator::filter", "Iterator::skip", "Iterator::take", "Iterator::step_by", "Iterator::skip_while",
                                           "Iterator::take_while")) and t2["args"]:
                src = tbg.operand(t2["args"][0])
                if has_field(src, "items", "LRState"):
                    continue        # the filter over a state's items (kernel items of the target)
                if has_call(src, "Iterator::chain") or has_field(src, "gotos", "LRState") or has_field(src, "actions", "LRState"):
                    cut.append(mir.short(c))
    if cut:
        res.violation(rid, "links", "some transitions are left out of the propagation (%s on the GOTO/SHIFT links): their targets never "
                      "receive the lookaheads" % ", ".join(sorted(set(cut))), f.loc())
    elif have_chain and shift_cl and gotos:
        res.ok(rid, "links", f.loc(), "gotos chained with the targets of Shift actions")
    else:
        res.violation(rid, "links", "lookaheads are not propagated along both GOTO and SHIFT transitions (gotos: %s, chain: %s, shift "
                      "targets: %s)" % (gotos, have_chain, shift_cl), f.loc())
    # every round re-closes every state
    cblocks = [b for b, t in f.calls() if callee(t).endswith("LRState::<'g>::closure")]
    # ... in every round: inside the loop that the fixpoint flag controls (the outermost loop of the function)
    floops = loops_of(f)
    outer = max(floops.items(), key=lambda kv: len(kv[1])) if floops else None
    if cblocks and outer and all(b in outer[1] for b in cblocks):
        res.ok(rid, "reclose", f.loc(), "closure() of every state inside the fixpoint loop")
    elif cblocks and outer:
        res.violation(rid, "reclose", "the states are re-closed outside the propagation loop: lookaheads that reach a kernel item in a "
                      "later round never reach that state's closure items", f.loc())
    else:
        res.violation(rid, "reclose", "propagation rounds do not re-close the states (lookaheads never reach closure items)", f.loc())


def r8_merge(F, res, rid):
    f = F.one(r"LRTable::<'g, 's>::merge_state$")
    paths = Sim(f, F, max_paths=200000).run()
    # different kernels => false with no mutation
    first = [p for p in paths if any(is_call(t, "PartialEq>::ne") or is_call(t, "::ne") or is_call(t, "::eq") for t, v in p.cond[:1])]
    ne = [p for p in paths if p.cond and (is_call(p.cond[0][0], "::ne") and p.cond[0][1] == 1 or is_call(p.cond[0][0], "::eq") and p.cond[0][1] == 0)]
    if ne and all(p.end == "return" and [e for e in p.events if e[0] == "return"][0][1] == ("const", 0)
                  and not [e for e in p.events if e[0] == "call" and e[1].endswith("::extend")] for p in ne):
        res.ok(rid, "different-core", f.loc(), "old_state != new_state => false, nothing merged")
    else:
        res.violation(rid, "different-core", "merge_state does not return false untouched for states with different kernel cores", f.loc())
    # compatibility scan iff table type != LALR; every `return false` precedes the first extend
    # all-or-nothing, on the flow graph (the merging `extend` sits in a loop, which a single acyclic path does not cross):
    # no block that assigns `false` to the return place is reachable from a block that extends an item's lookaheads
    tbf = TermBuilder(f, F)
    ext_blocks = [b for b, t2 in f.calls() if callee(t2).endswith("::extend") and t2["args"] and has_field(tbf.operand(t2["args"][0]), "follow", "LRItem")]
    false_blocks = [bi for bi, si, s in f.stmts() if s["dst"]["l"] == 0 and not s["dst"]["proj"] and s["rv"]["k"] == "use"
                    and s["rv"]["op"]["k"] == "const" and s["rv"]["op"].get("int") == 0]
    def reach(b0):
        seen, st = {b0}, [b0]
        while st:
            for s2 in f.succ(st.pop()):
                if s2 not in seen:
                    seen.add(s2)
                    st.append(s2)
        return seen
    if not ext_blocks or not false_blocks:
        res.anchor_lost(rid, "merge_state: merging extend / `return false` not recognised", f.loc())
    elif any(fb in reach(eb) for eb in ext_blocks for fb in false_blocks):
        res.violation(rid, "all-or-nothing", "merge_state can return false after lookaheads were already merged into the old state", f.loc())
    else:
        res.ok(rid, "all-or-nothing", f.loc(), "no `return false` is reachable from the merging extend")
    # the weak-compatibility test ranges over every reducing item and every OTHER item: the only pairs the scan may skip are
    # (non-reducing item, *) in the outer loop and (x, x) in the inner one (Definition 2.29 quantifies over all pairs)
    fl = loops_of(f)
    inter_blocks = [b for b, t2 in f.calls() if callee(t2).endswith("::intersection")]
    scan_loops = sorted([(h, body) for h, body in fl.items() if inter_blocks and any(b in body for b in inter_blocks)], key=lambda kv: len(kv[1]))
    if len(scan_loops) >= 3:
        (h_mid, b_mid), (h_out, b_out) = scan_loops[1], scan_loops[2]
        def skips(h, body):
            out = set()
            for p in Sim(f, F, max_paths=100000).run(entry=h):
                if not (p.events and p.events[-1] == ("backedge", h)) or any(e[0] == "call" and e[1].endswith("::intersection") for e in p.events):
                    continue
                if not set(p.blocks) <= set(body) | {h}:
                    continue
                cs = []
                for tm, v in p.cond:
                    if tm[0] == "discr" and is_call(tm[1], "Iterator>::next"):
                        continue
                    cs.append((mir.short(tm[1]) if tm[0] == "call" else fmt(tm)[:40], v))
                if cs:
                    out.add(tuple(cs))
            return out
        s_mid, s_out = skips(h_mid, b_mid), skips(h_out, b_out)
        def is_eq_skip(c):
            return len(c) == 1 and ((c[0][0].endswith("::eq") and c[0][1] == 1) or (c[0][0].endswith("::ne") and c[0][1] == 0))
        def is_nonreducing_skip(c):
            return len(c) == 1 and c[0][0].endswith("is_reducing") and c[0][1] == 0
        bad_mid = [c for c in s_mid if not is_eq_skip(c)]
        bad_out = [c for c in s_out if not is_nonreducing_skip(c) and not any(is_eq_skip((x,)) for x in c)]
        if not s_mid:
            res.anchor_lost(rid, "merge_state: skip of the identical item in the compatibility scan not recognised", f.loc())
        elif bad_mid or bad_out:
            res.violation(rid, "scan-pairs", "the weak-compatibility scan skips item pairs under %s: every reducing item must be tested "
                          "against every other item (kernel items that are not complete still contribute reductions through their "
                          "closure)" % sorted(bad_mid + bad_out)[:2], f.loc())
        else:
            res.ok(rid, "scan-pairs", f.loc(), "skips only non-reducing items (outer) and the item itself (inner)")
    else:
        res.anchor_lost(rid, "merge_state: nested loops of the compatibility scan not recognised", f.loc())
    tt = [v for p in paths for t, v in p.cond if is_call(t, "::ne") and any(has_field(a, "table_type", "Settings") for a in t[2])
          or (is_call(t, "::eq") and any(has_field(a, "table_type", "Settings") for a in t[2]))]
    if tt:
        res.ok(rid, "scan-guard", f.loc(), "compatibility scan guarded by table_type != LALR")
    else:
        res.violation(rid, "scan-guard", "the weak-compatibility scan is no longer guarded by the table type", f.loc())
    # which table types run the scan: LALR_RN is the table GLR uses and LALR_PAGER the one LR uses by default; they must be
    # the same automaton (RN only adds right-nulled reductions), or a state merged for GLR alone expects - and lexes - a
    # token LR never looks for there and the two parsers disagree on an LR(1) grammar (C07)
    VAR = "rustemo_compiler::table::TableType::"
    runs = {}
    for p in paths:
        scan = any(e[0] == "call" and (e[1].endswith("::all") or e[1].endswith("::any") or e[1].endswith("Iterator>::next")) for e in p.events) and \
            any(is_call(t_, "::ne") or is_call(t_, "::eq") for t_, _v in p.cond)
        for t_, v in p.cond:
            if (is_call(t_, "::ne") or is_call(t_, "::eq")) and any(has_field(a, "table_type", "Settings") for a in t_[2]):
                c = [a for a in t_[2] if isinstance(a, tuple) and a[0] == "const" and isinstance(a[1], str) and a[1].startswith(VAR)]
                if not c:
                    runs = None
                    break
                named = c[0][1][len(VAR):]
                eq = is_call(t_, "::eq")
                for ty in ("LALR", "LALR_PAGER", "LALR_RN"):
                    holds = (ty == named) == eq
                    if holds == bool(v) and runs is not None:
                        runs.setdefault(ty, set()).add(True)
        if runs is None:
            break
    if runs is None or not runs:
        res.undecided(rid, "merge_state: the table type the compatibility scan is guarded by is not a named constant", f.loc())
    else:
        # a type `runs` the scan if some path whose guard admits it goes on into the scan; the guard is a single test, so the
        # types admitted on the branch that is taken when the test holds are read off the first admitting valuation
        admitted = set()
        for p in paths:
            for t_, v in p.cond:
                if (is_call(t_, "::ne") or is_call(t_, "::eq")) and any(has_field(a, "table_type", "Settings") for a in t_[2]):
                    c = [a for a in t_[2] if isinstance(a, tuple) and a[0] == "const" and isinstance(a[1], str) and a[1].startswith(VAR)]
                    named = c[0][1][len(VAR):]
                    eq = is_call(t_, "::eq")
                    # the scan is the only way out of merge_state with `false` once the cores are equal: a path that
                    # passes the guard and returns false went through the scan
                    into_scan = any(e[0] == "return" and len(e) > 1 and fmt(e[1]) in ("0", "false") for e in p.events)
                    if into_scan:
                        admitted |= {ty for ty in ("LALR", "LALR_PAGER", "LALR_RN") if ((ty == named) == eq) == bool(v)}
        if admitted == {"LALR_PAGER", "LALR_RN"}:
            res.ok(rid, "scan-types", f.loc(), "the compatibility scan runs for LALR_PAGER and LALR_RN, not for LALR")
        else:
            res.violation(rid, "scan-types", "the weak-compatibility scan runs for %s; it has to run for LALR_PAGER and LALR_RN alike (the "
                          "GLR table is the LR default table plus right-nulled entries) and not for LALR" % sorted(admitted), f.loc())
    # pairing: new item found by equality with the old kernel item (not positional)
    okp = False
    for cl in F.all_nested_closures(f):
        for p in Sim(cl, F).run():
            if calls(p, "::find") or any(e[0] == "call" and e[1].endswith("Iterator>::find") for e in p.events):
                fd = [e for e in p.events if e[0] == "call" and e[1].endswith("::find")]
                if fd and has_field(fd[0][2][0], "items", "LRState"):
                    okp = True
    names = {callee(t) for _, t in f.calls()}
    ordered, detail = state_eq_ordered(F)
    if okp:
        res.ok(rid, "pairing", f.loc(), "each old kernel item is paired with the new item equal to it in (prod, position)")
    elif ordered:
        res.ok(rid, "pairing", f.loc(), "positional pairing; sound because LRState == requires the kernel items pairwise equal in order")
    else:
        res.violation(rid, "pairing", "old and new kernel items are paired by position although LRState equality does not guarantee the "
                      "same item order (%s): lookaheads of different items are cross-wired when two states have the same core in a "
                      "different order" % detail, f.loc())


def r11_identity(F, res, rid):
    f = F.one(r"^<rustemo_compiler::table::LRItem as core::cmp::PartialEq>::eq$")
    fields = set()
    for p in Sim(f, F).run():
        for t, v in p.cond:
            for x in mir.walk(t):
                if isinstance(x, tuple) and x[0] == "field" and str(x[3]).endswith("LRItem"):
                    fields.add(x[2])
        for e in p.events:
            if e[0] == "return":
                for x in mir.walk(e[1]):
                    if isinstance(x, tuple) and x[0] == "field" and str(x[3]).endswith("LRItem"):
                        fields.add(x[2])
    if fields == {"prod", "position"}:
        res.ok(rid, "item-identity", f.loc(), "LRItem == on (prod, position) only")
    else:
        res.violation(rid, "item-identity", "LRItem equality looks at %s (identity of an item is its core: production and dot)" % sorted(fields), f.loc())
    g = F.one(r"^rustemo_compiler::table::LRItem::is_kernel$")
    rows = set()
    for p in Sim(g, F).run():
        r = [e[1] for e in p.events if e[0] == "return"]
        rows.add((tuple((fmt(t)[:60], v) for t, v in p.cond), fmt(r[0])[:80] if r else None))
    exp = {((("Gt(param(self).position, 0)", 1),), "1"),
           ((("Gt(param(self).position, 0)", 0),), "<rustemo_compiler::index::ProdIndex as core::cmp::PartialEq>::eq(param(self).prod, rustemo_compiler::ind")}
    ok = len(rows) == 2 and any(r[1] == "1" and r[0][0][1] == 1 for r in rows) and any("ProdIndex" in (r[1] or "") and r[0][0][1] == 0 for r in rows)
    if ok:
        res.ok(rid, "kernel-table", g.loc(), "position > 0 || prod == ProdIndex(0)")
    else:
        res.violation(rid, "kernel-table", "is_kernel table is %s" % sorted(rows, key=str), g.loc())
    ordered, detail = state_eq_ordered(F)
    h = F.one(r"^<rustemo_compiler::table::LRState<'_> as core::cmp::PartialEq>::eq$")
    res.ok(rid, "state-identity", h.loc(), "LRState == compares kernel items %s" % ("pairwise in order" if ordered else "as a set (%s)" % detail))


def state_eq_ordered(F):
    """is LRState equality `kernel item sequences pairwise equal in order`?"""
    h = F.one(r"^<rustemo_compiler::table::LRState<'_> as core::cmp::PartialEq>::eq$")
    names = {callee(t) for _, t in h.calls()}
    for cl in F.all_nested_closures(h):
        names |= {callee(t) for _, t in cl.calls()}
    need = ("LRState::<'g>::kernel_items", "Iterator::zip", "::all")
    setlike = [mir.short(n) for n in names if any(k in n for k in ("BTreeSet", "HashSet", "::contains", "::sort", "Iterator>::any", "::any"))]
    ordered = all(any(n.endswith(k) or k in n for n in names) for k in need) and not setlike
    return ordered, setlike or sorted(mir.short(n) for n in names)[:6]


def r13_lr_rejects(F, res, rid):
    f = F.fn("rustemo_compiler::generator::generate_parser")
    rows = set()
    for p in Sim(f, F, max_paths=200000).run():
        algo = [rt.val(v) for t, v in p.cond if t[0] == "discr" and has_field(t[1], "parser_algo", "Settings")]
        emp = [v for t, v in p.cond if is_call(t, "Vec::<T, A>::is_empty") and has_call(t, "get_conflicts")]
        gen = bool(calls(p, "ParserGenerator::<'g, 's>::generate"))
        r = [e[1] for e in p.events if e[0] == "return"]
        err = bool(r and r[0][0] == "agg" and r[0][1].endswith("Result::Err") and not gen)
        if algo:
            rows.add((algo[0], emp[0] if emp else None, gen or (not err and p.end != "return"), ))
    bad = [r for r in rows if r[0] == "LR" and r[1] == 0 and r[2]]
    okr = ("LR", 0, False) in rows and not bad and any(r[0] == "GLR" for r in rows)
    if okr:
        res.ok(rid, "lr-rejects-conflicts", f.loc(), "LR && !conflicts.is_empty() => Err before anything is generated; GLR keeps them")
    else:
        res.violation(rid, "lr-rejects-conflicts", "table of (algo, conflicts empty) -> generates is %s: an LR parser must not be generated "
                      "from a table with unresolved conflicts" % sorted(rows, key=str), f.loc())
    g = F.one(r"LRTable::<'g, 's>::get_conflicts$")
    okf = False
    for cl in F.all_nested_closures(g):
        for p in Sim(cl, F).run():
            r = [e[1] for e in p.events if e[0] == "return"]
            if r and r[0][0] == "bin" and r[0][1] == "Gt" and has_call(r[0][2], "::len") and r[0][3] == ("const", 1):
                okf = True
    gnames = {callee(t) for h in [g] + F.all_nested_closures(g) for _, t in h.calls()}
    dropping = sorted(mir.short(n) for n in gnames if any(n.endswith(k) for k in ("Iterator::skip", "Iterator::take", "Iterator::step_by",
                                                                                    "Iterator::skip_while", "Iterator::take_while", "Iterator::rev")))
    nfilters = len([1 for h in [g] + F.all_nested_closures(g) for _, t in h.calls() if callee(t).endswith("Iterator::filter")])
    if dropping or nfilters > 1:
        res.violation(rid, "conflict-definition", "get_conflicts does not look at every cell of every state (%s%s): conflicts in the "
                      "skipped cells are never reported" % (", ".join(dropping), "; %d filters" % nfilters if nfilters > 1 else ""), g.loc())
    elif okf:
        res.ok(rid, "conflict-definition", g.loc(), "cells with more than one action")
    else:
        res.violation(rid, "conflict-definition", "get_conflicts no longer reports exactly the cells with more than one action", g.loc())


def r10_rn(F, res, rid):
    f = F.one(r"LRTable::<'g, 's>::new$")
    rows = set()
    for p in Sim(f, F, max_paths=200000).run():
        tt = [rt.val(v) for t, v in p.cond if t[0] == "discr" and has_field(t[1], "table_type", "Settings")]
        rn = [e for e in p.events if e[0] == "set" and e[1] == "production_rn_lengths"]
        if tt and rn:
            rows.add((tt[0], "Some" if rn[-1][2][0] == "agg" and rn[-1][2][1].endswith("Some") else "None"))
    exp_some = {r for r in rows if r[1] == "Some"}
    if rows and {r[0] for r in exp_some} == {"LALR_RN"} and all(r[1] == "None" for r in rows if "LALR_RN" not in r[0]):
        res.ok(rid, "rn-iff-lalr-rn", f.loc(), "production_rn_lengths is Some iff table_type == LALR_RN")
    else:
        res.violation(rid, "rn-iff-lalr-rn", "right-nulled lengths are computed for %s (only LALR_RN tables may contain right-nulled "
                      "reductions)" % sorted(rows, key=str), f.loc())
    g = F.one(r"^rustemo_compiler::table::production_rn_lengths$")
    gl = loops_of(g)
    inner = min(gl.items(), key=lambda kv: len(kv[1])) if gl else None
    rows = set()
    if inner:
        for p in Sim(g, F).run(entry=inner[0]):
            c = [v for t, v in p.cond if is_call(t, "BTreeSet::<T, A>::contains") and has_field(t[2][1], "empty_index")]
            dec = [e for e in p.events if e[0] == "set" and e[1] == "rn_len" and e[2][0] == "bin" and e[2][1] == "Sub"]
            if c:
                rows.add((c[0], bool(dec), p.end))
    names = {callee(t) for _, t in g.calls()} | {callee(t) for cl in F.all_nested_closures(g) for _, t in cl.calls()}
    rev = any(n.endswith("Iterator::rev") for n in names)
    def sub_of_len(x):
        return isinstance(x, tuple) and x[0] == "bin" and x[1] == "Sub" and has_call(x[2], "::len")
    if rows:
        dec_names = set()
        for p in Sim(g, F).run(entry=inner[0]):
            dec_names.update(e[1] for e in p.events if e[0] == "set" and e[2][0] == "bin" and e[2][1] == "Sub")
        # name-independent: the decremented counter is whatever variable is decremented in the loop
        rows = set()
        for p in Sim(g, F).run(entry=inner[0]):
            c = [v for t, v in p.cond if is_call(t, "BTreeSet::<T, A>::contains") and has_field(t[2][1], "empty_index")]
            dec = [e for e in p.events if e[0] == "set" and e[1] in dec_names and e[2][0] == "bin" and e[2][1] == "Sub"]
            if c:
                stays = bool(p.events) and p.events[-1] == ("backedge", inner[0]) and set(p.blocks) <= set(inner[1]) | {inner[0]}
                rows.add((c[0], bool(dec), stays))
        if all((c == 1) == d for c, d, e in rows) and {c for c, d, e in rows} == {0, 1} and rev and \
                all(e for c, d, e in rows if c == 1) and all(not e for c, d, e in rows if c == 0):
            res.ok(rid, "rn-scan", g.loc(), "right to left, decrement while the symbol is nullable, stop at the first that is not")
        else:
            res.violation(rid, "rn-scan", "right-nulled length scan table (nullable, decremented, continues) is %s (rev: %s)" % (
                sorted(rows, key=str), rev), g.loc())
    else:
        # second spelling: rhs.len() - rhs_symbols().iter().rev().take_while(|s| FIRST(s) contains EMPTY).count()
        tw = [(b, t2) for b, t2 in g.calls() if callee(t2).endswith("Iterator::take_while")]
        okc = False
        if tw and rev and any(n.endswith("Iterator::count") for n in names):
            tbg = TermBuilder(g, F)
            clo = tbg.operand(tw[0][1]["args"][1])
            src = tbg.operand(tw[0][1]["args"][0])
            if isinstance(clo, tuple) and clo[0] == "closure" and clo[1] in F.fns and has_call(src, "Iterator::rev"):
                rets = [e[1] for q in Sim(F.fns[clo[1]], F).run() for e in q.events if e[0] == "return"]
                pred_ok = rets and all(is_call(r, "BTreeSet::<T, A>::contains") and has_field(r[2][1], "empty_index") for r in rets)
                pushes = [tbg.operand(t2["args"][1]) for b, t2 in g.calls() if callee(t2).endswith("::push") and len(t2["args"]) > 1]
                if pred_ok and pushes and all(sub_of_len(x) and has_call(x[3], "Iterator::count") for x in pushes):
                    okc = True
        if okc:
            res.ok(rid, "rn-scan", g.loc(), "len - (length of the longest nullable suffix), counted right to left with take_while")
        else:
            res.anchor_lost(rid, "right-nulled length scan not recognised (neither a decrementing loop nor rev().take_while(nullable).count())", g.loc())
    # every LRItem is built with rn_len of its own production
    n = 0
    for fn in F.fns.values():
        if fn.crate != "rustemo_compiler" or not fn.has_body() or "::tests::" in fn.path:
            continue
        tb = None
        for b, t in fn.calls():
            if callee(t).endswith("LRItem::with_follow"):
                tb = tb or TermBuilder(fn, F)
                a = [tb.operand(x) for x in t["args"]]
                prod, rn = a[1], a[2]
                n += 1
                key = "item-rn/%s" % fn.path.split("::{closure")[0].rsplit("::", 1)[-1]
                # rn = map(production_rn_lengths, |p| p[prod])
                ok = has_call(rn, "Option::<T>::map") or has_call(rn, "::map")
                if ok:
                    res.ok(rid, key, "%s:%s" % (fn.file, t["line"]))
                else:
                    res.violation(rid, key, "an LR item is created with rn_len = %s" % fmt(rn)[:80], "%s:%s" % (fn.file, t["line"]))
    if n < 2:
        res.anchor_lost(rid, "%d LRItem::with_follow sites found" % n)


def r6_successors(F, res, rid):
    f = F.one(r"LRTable::<'g, 's>::create_new_states$")
    okc = False
    for cl in F.all_nested_closures(f):
        for p in Sim(cl, F).run():
            r = [e[1] for e in p.events if e[0] == "return"]
            if r and is_call(r[0], "LRItem::inc_position") and has_field(r[0][2][0], "items", "LRState"):
                okc = True
    fam = [f] + F.all_nested_closures(f)
    names = {callee(t) for g in fam for _, t in g.calls()}
    flt = [mir.short(n) for n in names if any(k in n for k in ("Iterator::filter", "Iterator::skip", "Iterator::take", "::dedup"))]
    lab = None
    for g in fam:
        tb = TermBuilder(g, F)
        for b, t in g.calls():
            if callee(t).endswith("LRState::<'g>::new_with_items"):
                a = [tb.operand(x) for x in t["args"]]
                lab = a[2]
    if lab is None or not any(n.endswith("LRItem::inc_position") for n in names):
        res.anchor_lost(rid, "create_new_states: construction of the successor states (new_with_items over inc_position clones) not recognised", f.loc())
    elif okc and not flt and (lab[0] in ("vfield", "field", "var", "param")):
        res.ok(rid, "successors", f.loc(), "one successor per symbol after the dot with the inc_position clones of its items")
    else:
        res.violation(rid, "successors", "successor states are not `for each symbol after the dot: the grouped items with the dot moved` "
                      "(inc_position closure: %s, filters: %s)" % (okc, flt), f.loc())


def r7_registration(F, res, rid):
    f = F.one(r"LRTable::<'g, 's>::calc_states$")
    gl = loops_of(f)
    # the loop over new states: contains the merge_state call
    mb = [b for b, t in f.calls() if callee(t).endswith("merge_state")]
    if not mb:
        res.anchor_lost(rid, "merge_state call in calc_states not found", f.loc())
        return
    cands = [(h, body) for h, body in gl.items() if mb[0] in body]
    # second smallest: the `for new_state in new_states` loop (the smallest is the search loop)
    cands.sort(key=lambda kv: len(kv[1]))
    h = cands[1][0] if len(cands) > 1 else cands[0][0]
    rows = set()
    for p in Sim(f, F, max_paths=200000).run(entry=h):
        if p.end != "backedge":
            continue
        nx = [v for t, v in p.cond if t[0] == "discr" and is_call(t[1], "Iterator>::next") and has_call(t[1], "create_new_states")]
        if not nx or nx[0] != frozenset(["Some"]):
            continue
        mg = [v for t, v in p.cond if is_call(t, "merge_state")]
        isnt = [v for t, v in p.cond if is_call(t, "Grammar::is_nonterm")]
        queued = bool([e for e in p.events if e[0] == "call" and e[1].endswith("VecDeque::<T, A>::push_back")])
        goto_store = [e for e in p.events if e[0] == "store" and has_field(e[1], "gotos", "LRState") is not None and "gotos" in fmt(e[1])] + \
                     [e for e in p.events if e[0] == "call" and "index_mut" in e[1] and has_field(e[2][0], "gotos", "LRState")]
        shift_push = [e for e in p.events if e[0] == "call" and e[1].endswith("Vec::<T, A>::push") and e[2][1][0] == "agg" and e[2][1][1].endswith("Action::Shift")]
        tgt = None
        if shift_push:
            tgt = dict(shift_push[0][2][1][2])["0"]
        rows.add((mg[-1] if mg else None, isnt[0] if isnt else None, queued, bool(shift_push), bool(goto_store)))
    ok = rows and all(((m == 1) != q) for m, nt, q, sp, gs in rows if nt is not None) and \
        all((nt == 1 and gs and not sp) or (nt == 0 and sp) for m, nt, q, sp, gs in rows if nt is not None) and \
        any(m == 1 for m, nt, q, sp, gs in rows if nt is not None) and any(m != 1 for m, nt, q, sp, gs in rows if nt is not None)
    if ok:
        res.ok(rid, "registration", f.loc(), "merged => not queued; new => queued with the running index; goto for nonterminals, Shift for terminals")
    else:
        res.violation(rid, "registration", "state registration table (merged, nonterminal, queued, shift pushed, goto stored) is %s" % sorted(rows, key=str), f.loc())
    # the search for an equal state ranges over states, the queue and the state being processed
    names = {callee(t) for _, t in f.calls()}
    chains = len([1 for _, t in f.calls() if callee(t).endswith("Iterator::chain")])
    if chains >= 2 and any(n.endswith("iter::sources::once::once") or n.endswith("iter::once") for n in names):
        res.ok(rid, "search-range", f.loc(), "states, queue and the current state")
    else:
        res.violation(rid, "search-range", "the search for an existing equal state does not range over finished states, queued states and "
                      "the state being processed (%d chain calls)" % chains, f.loc())
