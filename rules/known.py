"""Cross-listing of findings that violate several properties (reported under one, mentioned in the others)."""
import json
import os

from .report import VERIF


def crosslist(res, prop, key, rid):
    kf = json.load(open(os.path.join(VERIF, "known_findings.json")))
    for e in kf:
        if e["key"] == key and e["status"] == "known":
            res.notes.append("cross-listed finding (reported under %s): %s" % (e["property"], e["what"]))
