"""C01 - a deterministic LR parser accepts exactly the language of its grammar (partial: the lookahead dataflow rules
of the table pipeline against the textbook, and the LR driver; not the language equality)."""
from . import tbl, rt, report

LEVEL = "other"


def run(ctx, res):
    F = ctx.facts("core")
    tbl.r1_phase_order(F, res, res.rule("T-R1", "phase order of LRTable::new", floor=1))
    tbl.r2_fixpoints(F, res, res.rule("T-R2", "the three fixpoint loops are well formed (exit only after a round without growth, flag "
                                      "latched, reset at the start of a round)", floor=9))
    tbl.r3_monotone(F, res, res.rule("T-R3", "lookahead sets of LR items only grow", floor=3))
    tbl.r4_first(F, res, res.rule("T-R4", "FIRST of a symbol string and the FIRST fixpoint body follow the textbook rule", floor=4))
    tbl.r5_closure(F, res, res.rule("T-R5", "LR(1) closure lookahead rule", floor=3))
    tbl.r6_successors(F, res, res.rule("T-R6", "successor states", floor=1))
    tbl.r7_registration(F, res, res.rule("T-R7", "state search and registration", floor=2))
    tbl.r8_merge(F, res, res.rule("T-R8", "state merging (LALR and the Pager split): core-equal, guarded, all-or-nothing, every reducing item "
                                  "tested against every other item (shared with C04: a wrong merge loses or invents lookaheads, i.e. sentences)", floor=4))
    tbl.r9_propagation(F, res, res.rule("T-R9", "lookahead propagation links, direction and source", floor=5))
    tbl.r13_lr_rejects(F, res, res.rule("T-R13", "LR rejects unresolved conflicts", floor=2))
    # driver: the LR loop does what the cell says (shared with C02-R3); reductions use every lookahead (C02-R1)
    from . import c02
    sub = report.Result("C01", ctx.tier)
    rid = sub.rule("C02-R3", "")
    rt.lr_driver(F, sub, rid)
    c02.r1_reduce_cells(F, sub)
    rd = res.rule("C01-D", "LR driver and reduce cells (shared with C02-R1/R3)", floor=8)
    for inst in sub.instances:
        if inst["ok"]:
            res.ok(rd, inst["instance"], inst.get("where"), inst.get("detail"))
    for v in sub.violations:
        res.violation(rd, v["key"].split("/", 1)[1], v["what"], v.get("where"))
    from . import known
    known.crosslist(res, "C01", "C13-R8/template-anchor", "C01-X1")
    res.explanation = (
        "Language equality for every grammar and string is a fixpoint/behavioural fact and is NOT decided. Decided are the "
        "decision points at which the property's own why-text says regressions land, each compared with the textbook rule "
        "(Aho et al.: FIRST, LR(1) closure; DeRemer/Pennello-style propagation) extracted from MIR by path simulation: phase "
        "order; the three fixpoint loops cannot stop early; lookahead sets only grow; FIRST of a string (add FIRST(X)\\\\{eps} "
        "while the prefix is nullable, eps iff all are) and every production contributes every round; the closure lookahead "
        "rule; successor states; state registration; propagation along GOTO and SHIFT links from dot-1 to dot, from all "
        "items of the source state into kernel items of the target; LR rejects unresolved conflicts; the LR driver does "
        "what the cell says.")
    res.assumptions = ["these rules iterated yield the LALR(1)/Pager automaton of the grammar: not decided"]
