"""C15 - parsing is total: Ok or Err, never a panic or hang (runtime crate)."""
import re

from . import mir, census, rt
from .mir import Sim, callee, fmt

LEVEL = "other"
CRATES = ("rustemo",)


def roots(F):
    # every public function and every trait impl of the runtime is callable by a user
    return [p for p, f in F.fns.items() if f.crate == "rustemo" and (f.d.get("pub") or f.d.get("implements"))]


def _cls(s):
    if s.kind == "overflow-add":
        return "usize counter/offset addition (bounded by the input length)"
    if mir.is_log(s.detail):
        return "inside log!/logn! (evaluated only with RUSTEMO_TRACE in debug builds)"
    if s.kind == "assert-OtherAssert":
        return "compiler-inserted debug UB check (null/alignment), not a source-level panic"
    return None


CLASS_RULES = [_cls]

INV = "invariant"
# (fnmatch pattern on the key, status, reason). First match wins.
TRIAGE_RULES = [
    # ---- LR parse stack and builder stack
    ("rustemo::lr::parser::ParseStack::state/unwrap/*", INV,
     "the LR stack is created with one item (ParseStack::new) and split_off(len - n) with table lengths never empties it (C02-R3/R4)"),
    ("rustemo::lr::parser::ParseStack::pop_states/unwrap/slice::last(param(self).stack)", INV,
     "as above: the bottom item is never popped (table reduce lengths <= items pushed since the start state)"),
    ("rustemo::lr::parser::ParseStack::pop_states/overflow-sub/*", INV,
     "len(stack) >= states + 1: one push per shifted/reduced symbol, reduce length = |rhs| of a production whose symbols are on the stack (C02-R1/R3)"),
    ("rustemo::lr::parser::ParseStack::pop_states/vec-op/*", INV, "split_off(len - states) with len >= states (same argument)"),
    ("rustemo::lr::parser::ParseStack::pop_states/index/*", INV, "states_removed[0] only on the `states != 0` branch; split_off returned `states` items"),
    ("rustemo::lr::parser::ParseStack::pop_states/unwrap/slice::last(Vec::split_off*", INV, "last() of the non-empty removed part (`states != 0` branch)"),
    ("<rustemo::lr::builder::TreeBuilder* as rustemo::builder::Builder>::get_result/unwrap/*", INV,
     "called after Accept: the start symbol's node is on the builder stack (one push per LR reduction)"),
    ("<rustemo::lr::builder::TreeBuilder* as rustemo::lr::builder::LRBuilder*>::reduce_action/overflow-sub/*", INV,
     "builder stack mirrors the LR stack: one node per stack item (C02-R3/R4)"),
    ("<rustemo::lr::builder::TreeBuilder* as rustemo::lr::builder::LRBuilder*>::reduce_action/vec-op/*", INV, "same as above"),
    ("<rustemo::lr::builder::TreeBuilder* as rustemo::lr::builder::LRBuilder*>::reduce_action/index/*", INV,
     "children[0] on the prod_len > 0 branch; split_off returned prod_len items"),
    ("<rustemo::lr::builder::SliceBuilder* as rustemo::lr::builder::LRBuilder*>::reduce_action/index/*", INV,
     "span endpoints are lexer positions inside the input (C13-R1/R2: spans come from position_after of matched slices)"),
    # ---- LR driver
    ("<rustemo::lr::parser::LRParser* as rustemo::parser::Parser*>::parse_with_context/refcell/*", INV,
     "builder cell is borrowed once per parse; the layout parser owns a different cell (re-entrancy from user actions is outside the property)"),
    ("<rustemo::lr::parser::LRParser* as rustemo::parser::Parser*>::parse_with_context/unwrap/State::default_layout()", INV,
     "only under has_layout, which the generator sets iff the table has a layout state (C14-R6, C08-R1 default_layout pairing)"),
    ("<rustemo::lr::parser::LRParser* as rustemo::parser::Parser*>::parse_file/unwrap/*", INV, "content was assigned Some(..) two statements earlier"),
    ("rustemo::lr::parser::LRParser::next_token/unwrap/State::default_layout()", INV, "layout_parser is Some only under has_layout (see above)"),
    ("rustemo::lr::parser::LRParser::next_token/unwrap/Iterator::max_by_key*", INV, "under tokens.len() > 1"),
    ("rustemo::lr::parser::LRParser::next_token/index/*", INV, "empty range pos..pos at a lexer position"),
    # ---- GLR driver
    ("<rustemo::glr::parser::GlrParser* as rustemo::parser::Parser*>::parse_with_context/refcell/*", INV, "layout_parser cell: no borrow is live across this assignment"),
    ("<rustemo::glr::parser::GlrParser* as rustemo::parser::Parser*>::parse_with_context/unwrap/State::default_layout()", INV, "only under has_layout (as LR)"),
    ("<rustemo::glr::parser::GlrParser* as rustemo::parser::Parser*>::parse_file/unwrap/*", INV, "content was assigned Some(..) two statements earlier"),
    ("rustemo::glr::parser::GlrParser::find_lookaheads/unwrap/State::default_layout()", INV, "layout parser exists only under has_layout"),
    ("rustemo::glr::parser::GlrParser::find_lookaheads/unwrap/Iterator::max_by_key*", INV, "under tokens.len() > 1"),
    ("rustemo::glr::parser::GlrParser::find_lookaheads/refcell/*", INV, "layout_parser cell is only borrowed here and assigned before the loop in parse_with_context"),
    ("rustemo::glr::parser::GlrParser::find_lookaheads/index/*", INV, "empty range 0..0"),
    ("rustemo::glr::parser::GlrParser::initial_process_frontier/unwrap/*", INV,
     "heads enter a frontier only after set_token_ahead/with_tok* (C03-R1: create_frontier inserts a head after setting its token)"),
    ("rustemo::glr::parser::GlrParser::reducer/unwrap/*", INV, "start heads come from a frontier: token_ahead is set (as above)"),
    ("rustemo::glr::parser::GlrParser::shifter/unwrap/*", INV, "pending shifts hold frontier heads: token_ahead is set"),
    ("rustemo::glr::parser::GlrParser::reducer/index/*", INV, "parents[0] / parents[len-1] on the !parents.is_empty() branch; possibilities[0]: every stored Parent has >= 1 possibility"),
    ("rustemo::glr::parser::GlrParser::reducer/overflow-sub/*", INV, "parents.len() - 1 on the non-empty branch"),
    ("rustemo::glr::parser::GlrParser::reducer/refcell/*", INV, "borrows of possibilities/children are statement-local; no overlapping borrow_mut of the same cell (9th site, with the D27 repair: `children.borrow()` in the condition of the replacement, its guard is dropped before the block takes borrow_mut)"),
    ("rustemo::glr::parser::GlrParser::reducer/panic/*", INV, "Action::Error arm: both table layouts strip Error from action lists (C08-R1)"),
    ("rustemo::glr::parser::GlrParser::find_reduction_paths/debug_assert/*", INV, "ReductionStart::Node is built iff length == 0 at all construction sites (C03-R3)"),
    ("rustemo::glr::parser::GlrParser::find_reduction_paths/overflow-sub/*", INV, "Edge-based reductions have length >= 1 (C03-R3)"),
    ("rustemo::glr::parser::GlrParser::create_forest/refcell/*", INV, "shared borrow after parsing finished"),
    ("rustemo::glr::parser::GlrParser::make_error/unwrap/*", INV, "the frontier loop runs at least once and records a non-empty base (decided by C15-R9)"),
    # ---- GSS / forest
    ("rustemo::glr::gss::GssGraph::*/unwrap/*", INV, "node/edge indices are produced by the same graph and nothing is ever removed from it (C15-R2f: no remove_* call)"),
    ("rustemo::glr::gss::GssGraph::add_solution/refcell/*", INV, "temporary borrow_mut, no other borrow live"),
    ("rustemo::glr::gss::*::solutions/refcell/*", INV, "shared borrows only; no borrow_mut during traversal"),
    ("rustemo::glr::gss::*::ambiguities/refcell/*", INV, "shared borrows only"),
    ("rustemo::glr::gss::Tree::children/refcell/*", INV, "shared borrows only"),
    ("rustemo::glr::gss::Tree::children/index/*", INV, "weights[(idx+1)..] with idx enumerating a vector of the same length"),
    ("rustemo::glr::gss::Tree::children/div-zero/", INV, "factor is a product of solution counts of stored parents, each >= 1 (every Parent has >= 1 possibility; Empty is never stored)"),
    ("rustemo::glr::gss::Tree::children/unwrap/*", INV, "index decoding consistent with counting (not decided, see C03)"),
    ("rustemo::glr::gss::Tree::find_tree_root/bounds/*", INV, "roots[root_idx]: emptiness check first, root_idx < len re-checked before each use"),
    ("<rustemo::glr::gss::SPPFTree* as rustemo::context::Context*>::state/panic/*", INV, "only span() and layout_ahead() are ever called on an SPPFTree (C15-R2g)"),
    ("<rustemo::glr::gss::SPPFTree* as rustemo::context::Context*>::position/panic/*", INV, "as above"),
    ("<rustemo::glr::gss::SPPFTree* as rustemo::context::Context*>::span/panic/*", INV, "SPPFTree::Empty is never stored in a possibilities list"),
    ("<rustemo::glr::gss::SPPFTree* as rustemo::context::Context*>::layout_ahead/panic/*", INV, "as above"),
    # ---- lexer / input
    ("rustemo::lexer::TokenRecognizer::recognize/panic/*", INV, "default method: every generated recogniser overrides it (C15-R2h)"),
    ("<rustemo::lexer::TokenIterator* as core::iter::traits::iterator::Iterator>::next/index/param(self).token_recognizers*", INV,
     "under `self.index < len` in the same condition"),
    ("<rustemo::lexer::TokenIterator* as core::iter::traits::iterator::Iterator>::next/index/param(self).input*", INV,
     "position.pos is a lexer position (char boundary, <= len): C15-R2d"),
    ("<rustemo::lexer::StringLexer* as rustemo::lexer::Lexer*>::next_tokens/bounds/*", INV,
     "one recogniser per TokenKind: array length is TERMINAL_COUNT and tokens are TokenKind values (C08-R1 RECOGNIZERS)"),
    ("rustemo::lexer::StringLexer::skip/index/*", INV, "pos and pos + sum(len_utf8 of leading whitespace chars) are char boundaries (C15-R2d)"),
    ("<str as rustemo::input::Input>::context_str/index/*", INV, "trace/log only; position is a lexer position"),
    ("<[[]u8] as rustemo::input::Input>::context_str/overflow-sub/*", INV, "pos - min(15, pos)"),
    ("<str as rustemo::input::Input>::position_after/overflow-sub/*", INV, "len - new_col - 1 with new_col = rposition(..) < len"),
    ("<str as rustemo::input::Input>::slice/index/*", INV,
     "start is snapped to a char boundary (fix f84b1ec); end is start + a char_indices offset of the remainder"),
    ("<str as rustemo::input::Input>::slice/overflow-sub/*", INV, "callers pass start <= end (len-20..len under len > 50; position < token start)"),
    ("rustemo::input::Input::slice/index/*", INV, "default impl for byte-like inputs: callers pass in-range ranges"),
    # ---- error values (Display is outside `parse`)
    ("rustemo::error::error_expected/bounds/*", INV,
     "expected[0] on len <= 1: every state of a generated table has at least one expected token kind (C08-R1 checks it per state)"),
    ("<rustemo::error::ParseError as core::fmt::Display>::fmt/*", INV,
     "Display of the returned error value, not part of parse(); span is the zero-width current position inside src"),
]


def is_call_t(t, sub):
    return isinstance(t, tuple) and t[0] == "call" and mir.call_matches(t[1], sub)


def r2_guards(F, res):
    """Guards a regression would remove (progress, one-shot layout flag, layout-parser constants)."""
    rid = res.rule("C15-R2", "retry loops make progress (layout.len() > 0 before `continue`; GLR one-shot flag) and the layout "
                   "parser is built with partial_parse = true, has_layout = false", floor=4)
    # (a) LR next_token: every path that loops back passes set_layout_ahead(Some(l)) under len(l) > 0
    f = F.one(r"^rustemo::lr::parser::LRParser::<[^>]*>::next_token$")
    back = [p for p in Sim(f, F, max_paths=200000).run() if p.end == "backedge"]
    ok = bool(back)
    for p in back:
        prog = False
        for t, v in p.cond:
            nz = rt._nonzero_len(t, "Input::len")
            if nz is not None and v in (0, 1) and (v == 1) == nz:        # len > 0 in any spelling
                prog = True
        if not prog:
            ok = False
            res.violation(rid, "lr-next-token/progress", "LRParser::next_token can retry lexing without the layout parser "
                          "having consumed anything (no `layout.len() > 0` guard on a retry path): endless loop on an empty layout match",
                          f.loc(), [(fmt(t)[:90], str(v)) for t, v in p.cond][-5:])
            break
    if ok:
        res.ok(rid, "lr-next-token/progress", f.loc(), "%d retry path(s), all under layout.len() > 0" % len(back))
    # (b) GLR find_lookaheads
    g = F.one(r"^rustemo::glr::parser::GlrParser::<[^>]*>::find_lookaheads$")
    back = [p for p in Sim(g, F, max_paths=200000).run() if p.end == "backedge"]
    ok = bool(back)
    for p in back:
        prog = any(rt._nonzero_len(t, "Input::len") is not None and v in (0, 1) and (v == 1) == rt._nonzero_len(t, "Input::len")
                   for t, v in p.cond)
        # the layout parser gets one try per call: a flag cleared before the retry, or a loop that runs over a fixed array /
        # range of attempts (`for layout_allowed in [true, false]`)
        oneshot = any(e[0] == "set" and e[2] == ("const", 0) and g.local_ty(g.local_of_var(e[1]) or 0) == "bool" for e in p.events) or \
            any(tm[0] == "discr" and is_call_t(tm[1], "Iterator>::next") and ("array::iter::IntoIter" in tm[1][1] or "ops::range::Range" in tm[1][1])
                for tm, _v in p.cond)
        # (progress needs the non-empty layout only: since the D31 repair the GLR fetch retries after layout as LR does, and
        # the one-shot flag is no longer something to insist on)
        if not prog:
            ok = False
            res.violation(rid, "glr-find-lookaheads/progress", "GlrParser::find_lookaheads can retry without progress "
                          "(layout.len() > 0: %s, one-shot flag cleared: %s)" % (prog, oneshot), g.loc())
            break
    if ok:
        res.ok(rid, "glr-find-lookaheads/progress", g.loc(), "%d retry path(s), each under layout.len() > 0" % len(back))
    # (e) layout parser construction constants
    for nm, rx in (("lr", r"^<rustemo::lr::parser::LRParser<.*> as rustemo::parser::Parser<.*>>::parse_with_context"),
                   ("glr", r"^<rustemo::glr::parser::GlrParser<.*> as rustemo::parser::Parser<.*>>::parse_with_context")):
        found = False
        for h in F.find(rx):
            if not h.has_body():
                continue
            tb = mir.TermBuilder(h, F)
            for b, t in h.calls():
                if callee(t).endswith("::new_default") and "LRParser" in callee(t):
                    found = True
                    args = [tb.operand(a) for a in t["args"]]
                    pp, hl = args[2], args[3]
                    where = "%s:%s" % (h.file, t["line"])
                    if pp == ("const", 1) and hl == ("const", 0):
                        res.ok(rid, "%s/layout-parser-constants" % nm, where, "partial_parse = true, has_layout = false")
                    else:
                        res.violation(rid, "%s/layout-parser-constants" % nm,
                                      "the layout parser is built with partial_parse = %s, has_layout = %s (must be true, false: "
                                      "has_layout = true recurses without bound, partial_parse = false rejects layout followed "
                                      "by content)" % (fmt(pp), fmt(hl)), where)
                    # built for THIS parse: its SliceBuilder holds the input; the only condition on the construction is
                    # `has_layout` (a parser object is used for many inputs)
                    extra = []
                    for db in h.dominators().get(b, ()):
                        tmd = h.blocks[db]["term"]
                        if tmd["k"] == "switch" and not mir.is_log(tmd) and db != b:
                            ct = tb.operand(tmd["op"])
                            if not mir.has_field(ct, "has_layout"):
                                extra.append(fmt(ct)[:80])
                    if extra:
                        res.violation(rid, "%s/layout-parser-per-parse" % nm, "the layout parser is built only under %s: a parser object "
                                      "that is used again keeps a layout parser (and its SliceBuilder) made for an earlier input" % extra[0], where)
                    else:
                        res.ok(rid, "%s/layout-parser-per-parse" % nm, where, "built on every parse with a layout")
                    st = args[1]
                    if not mir.has_call(st, "default_layout"):
                        res.violation(rid, "%s/layout-parser-state" % nm, "the layout parser does not start in State::default_layout()", where)
        if not found:
            res.anchor_lost(rid, "construction of the %s layout parser (LRParser::new_default) not found" % nm)
    # (f) nothing is ever removed from the GSS graph
    rid2 = res.rule("C15-R2f", "no node/edge is ever removed from the GSS graph (keeps every stored index valid)", floor=1)
    bad = []
    n = 0
    for h in F.fns.values():
        if h.crate != "rustemo":
            continue
        for b, t in h.calls():
            c = callee(t)
            if c.startswith("petgraph::graph_impl::Graph"):
                n += 1
                m = c.rsplit("::", 1)[-1]
                if m.startswith("remove") or m in ("clear", "clear_edges", "retain_nodes", "retain_edges", "filter_map", "reverse"):
                    bad.append((h, t, m))
    for h, t, m in bad:
        res.violation(rid2, "graph/%s" % m, "GSS graph operation %s invalidates stored node/edge indices" % m, "%s:%s" % (h.file, t.get("line")))
    if not bad:
        res.ok(rid2, "graph-ops", None, "%d petgraph calls, none removes" % n)
    # (g) only span()/layout_ahead() are called on an SPPFTree as Context
    rid3 = res.rule("C15-R2g", "only span() and layout_ahead() are called on SPPFTree through the Context trait", floor=1)
    n = 0
    for h in F.fns.values():
        if h.crate != "rustemo" or not h.has_body():
            continue
        for b, t in h.calls():
            c = callee(t)
            if c.startswith("<rustemo::glr::gss::SPPFTree") and "as rustemo::context::Context" in c:
                n += 1
                m = c.rsplit("::", 1)[-1]
                if m not in ("span", "layout_ahead"):
                    res.violation(rid3, "sppf-context/%s" % m, "Context::%s is called on an SPPFTree (panics by definition)" % m,
                                  "%s:%s" % (h.file, t.get("line")))
    res.ok(rid3, "sppf-context-calls", None, "%d resolved calls" % n)
    # Empty is constructed only by Default
    empties = 0
    for h in F.fns.values():
        if h.crate != "rustemo" or not h.has_body():
            continue
        for i, j, s in h.stmts():
            rv = s["rv"]
            if rv["k"] == "agg" and rv.get("adt") == "rustemo::glr::gss::SPPFTree" and rv.get("variant") == "Empty":
                root = h.path.split("::{closure")[0]
                if "as core::default::Default>::default" in root or "as core::clone::Clone>::clone" in root:
                    empties += 1
                else:
                    res.violation(rid3, "sppf-empty/%s" % root, "SPPFTree::Empty is constructed in %s: span()/layout_ahead() "
                                  "panic on it" % root, "%s:%s" % (h.file, s.get("line")))
    res.ok(rid3, "sppf-empty", None, "Empty constructed only by Default/Clone (%d sites)" % empties)


def closure_callees(F, cpath):
    g = F.fn(cpath)
    return {callee(t) for _, t in g.calls()} if g is not None else set()


def r2d_boundaries(F, res):
    """char-boundary safety of the whitespace skipper: the skipped length is a sum of len_utf8 over
    the leading whitespace chars of input[pos..] - a byte length, never a char count."""
    rid = res.rule("C15-R2d", "every str range index in the default lexer uses position.pos or position.pos + sum(len_utf8) "
                   "of chars taken from that position (char boundaries by construction)", floor=3)
    f = F.one(r"^rustemo::lexer::StringLexer::<[^>]*>::skip$")
    tb = mir.TermBuilder(f, F)
    n = 0
    for b, t in f.calls():
        c = callee(t)
        if not (census.INDEX_CALL.search(c) and "str" in c):
            continue
        rng = tb.operand(t["args"][1])
        where = "%s:%s" % (f.file, t["line"])
        if rng[0] != "agg":
            res.violation(rid, "skip/range", "unrecognised range expression %s" % fmt(rng)[:100], where)
            continue
        fields = dict(rng[2])
        def is_pos(x):
            return isinstance(x, tuple) and x[0] == "field" and x[2] == "pos" and mir.has_call(x[1], "Context::position")
        for nm, v in fields.items():
            n += 1
            key = "skip/%s/%s" % (rng[1].rsplit("::", 1)[-1], nm)
            if is_pos(v):
                res.ok(rid, key, where, "position.pos")
                continue
            # pos + skipped_len
            ok = False
            why = fmt(v)[:160]
            if v[0] == "bin" and v[1].startswith("Add") and is_pos(v[2]):
                sl = v[3]
                calls = [x for x in mir.calls_in(sl)]
                names = [x[1] for x in calls]
                has = lambda s: any(s in nme for nme in names)
                # the mapped / tested function: a closure, or the function item itself (`map(char::len_utf8)`)
                def fn_callees(a):
                    if a[0] == "closure":
                        return closure_callees(F, a[1])
                    if a[0] == "fn":
                        return [a[1]]
                    return []
                def ws_pred_exact(a):
                    # exactly char::is_whitespace (the closure answers it for its argument, or the function item itself): a
                    # narrower or wider test changes which characters count as skippable
                    if a[0] == "fn":
                        return a[1].endswith("is_whitespace") and "ascii" not in a[1]
                    if a[0] == "closure":
                        from . import idiom
                        return bool(idiom.predicate_is(F, F.fns.get(a[1]), "char::methods::<impl char>::is_whitespace"))
                    return False
                maps = [x for x in calls if x[1].endswith("Iterator::map") and len(x[2]) > 1 and x[2][1][0] in ("closure", "fn")]
                tws = [x for x in calls if x[1].endswith("Iterator::take_while") and len(x[2]) > 1 and x[2][1][0] in ("closure", "fn")]
                idx = [x for x in calls if census.INDEX_CALL.search(x[1]) and len(x[2]) > 1]
                from_pos = any(x[2][1][0] == "agg" and x[2][1][1].endswith("RangeFrom") and is_pos(dict(x[2][1][2]).get("start"))
                               for x in idx)
                if sl[0] == "call" and sl[1].endswith("Iterator::sum") and has("str>::chars") and maps and tws and from_pos \
                        and any("len_utf8" in cc for cc in fn_callees(maps[0][2][1])) \
                        and ws_pred_exact(tws[0][2][1]):
                    ok = True
                else:
                    why = "the skipped length is %s - not the sum of len_utf8 over the leading whitespace chars of input[pos..]" % fmt(sl)[:200]
            if ok:
                res.ok(rid, key, where, "position.pos + sum(len_utf8) of the chars taken from position.pos")
            else:
                res.violation(rid, key, "byte offset used to slice the input is not a char boundary by construction: " + why, where)
    g = F.one(r"^<rustemo::lexer::TokenIterator<.*> as core::iter::traits::iterator::Iterator>::next$")
    tbg = mir.TermBuilder(g, F)
    for b, t in g.calls():
        c = callee(t)
        if census.INDEX_CALL.search(c) and "str" in c:
            rng = tbg.operand(t["args"][1])
            where = "%s:%s" % (g.file, t["line"])
            n += 1
            st = dict(rng[2]).get("start") if rng[0] == "agg" and rng[1].endswith("RangeFrom") else None
            if st is not None and st[0] == "field" and st[2] == "pos" and mir.has_field(st, "position", "TokenIterator"):
                res.ok(rid, "token-iterator/RangeFrom/start", where, "self.position.pos")
            else:
                res.violation(rid, "token-iterator/RangeFrom/start", "the recogniser input slice does not start at "
                              "self.position.pos: %s" % fmt(rng)[:160], where)
    if n < 3:
        res.anchor_lost(rid, "%d str range indexes found in the default lexer, 4 expected" % n, f.loc())


def r3_regex(F, res):
    rid = res.rule("C15-R3", "regex text from the grammar is validated by the compiler before it reaches the generated "
                   "`Regex::new(..).unwrap()`", floor=1)
    calls = 0
    for f in F.fns.values():
        if f.crate != "rustemo_compiler" or "rustemo_compiler::lang::rustemo::" in f.path:
            continue  # (the bootstrapped parser compiles its own, fixed, recogniser regexes)
        for b, t in f.calls():
            c = callee(t)
            if c.startswith("regex::") or c.startswith("regex_syntax::") or c.startswith("fancy_regex::"):
                calls += 1
    if calls == 0:
        res.violation(rid, "regex-unvalidated",
                      "the compiler never compiles or parses a terminal's regex: an invalid regex is accepted and the "
                      "generated recogniser panics in Regex::new(..).unwrap() on first use (D14)",
                      "rustemo-compiler/src/generator/base.rs")
    else:
        res.ok(rid, "regex-validated", None, "%d regex API calls in the compiler" % calls)


def r2h_slice_ranges(F, res):
    """`input.slice(a..b)` counts on a <= b (it subtracts): every call site outside the Input impls builds its range from
    constants, from (len - k, len), or under a dominating ORDER comparison of the two positions it takes the ends from
    (`!=` is not an order: a synthetic STOP token sits before the position)."""
    rid = res.rule("C15-R2h", "every Input::slice(a..b) call of the runtime has a well-formed range by construction: constants, "
                   "(len - k .. len), or a dominating `end > start` / `>=` on the positions the two ends come from", floor=3)
    for pth, f in sorted(F.fns.items()):
        if f.crate != "rustemo" or not f.has_body() or " as rustemo::input::Input>" in pth or f.d.get("inlined_into"):
            continue
        tb = None
        for b, tm in f.calls():
            if not mir.call_matches(callee(tm), "Input::slice") or len(tm["args"]) < 2:
                continue
            tb = tb or mir.TermBuilder(f, F)
            rg = tb.operand(tm["args"][1])
            where = "%s:%s" % (f.file, tm.get("line"))
            key = "slice/%s" % mir.strip_generics(pth).split("::{closure")[0].rsplit("::", 1)[-1]
            if not (isinstance(rg, tuple) and rg[0] == "agg" and rg[1].endswith("Range::Range")):
                res.anchor_lost(rid, "range of a slice call not recognised (%s)" % fmt(rg)[:60], where)
                continue
            d = dict(rg[2])
            a, e = d.get("start"), d.get("end")
            if a[0] == "const" and e[0] == "const" and isinstance(a[1], int) and isinstance(e[1], int) and a[1] <= e[1]:
                res.ok(rid, key + "/const", where, "%s..%s" % (a[1], e[1]))
                continue
            if a[0] == "bin" and a[1].startswith("Sub") and a[2] == e:
                res.ok(rid, key + "/tail", where, "len - k .. len")
                continue
            # the values the two ends are the `.pos` of
            def owner(x):
                return x[1] if isinstance(x, tuple) and x[0] == "field" and x[2] == "pos" else x
            xa, xe = owner(a), owner(e)
            okg = False
            for (op, vals, dd, sw) in census.dominating_guards(f, b, tb):
                base, nots = census.strip_not(op)
                truth = census.edge_true(vals, nots)
                if not (isinstance(base, tuple) and base[0] == "call" and len(base[2]) == 2):
                    continue
                m = mir.strip_generics(base[1]).rsplit("::", 1)[-1]
                l, r = base[2]
                # end > start / end >= start, in either spelling and polarity
                if (m in ("gt", "ge") and truth and l == xe and r == xa) or (m in ("lt", "le") and truth and l == xa and r == xe) or \
                        (m == "lt" and not truth and l == xe and r == xa) or (m == "gt" and not truth and l == xa and r == xe):
                    okg = True
            if okg:
                res.ok(rid, key + "/ordered", where, "under end > start")
            else:
                res.violation(rid, key + "/ordered", "input.slice(%s .. %s) is not under a dominating order comparison of its two ends: "
                              "with end < start the slice subtracts below zero (panic)" % (fmt(a)[:60], fmt(e)[:60]), where)


def r4_error_cells(ctx, res):
    """Backs the triage rows of the `Action::Error` arms in both drivers ("cannot happen": the generated tables never hand out
    Error): the arrays accessor must read the Error-padded cell as a prefix, the functions layout must have no Error in
    its arms. Same generated-source facts as C08, only this clause."""
    from . import gen
    rid = res.rule("C15-R4", "generated actions(state, token) never returns Action::Error (arrays: take_while(!Error) prefix reader; "
                   "functions: no Error in any arm) - backs the `cannot happen` arms of the LR and GLR drivers", floor=40)
    for fset in ("gen-functions", "gen-arrays"):
        for g in gen.load_set(ctx.dir(fset)):
            if g.parse_error:
                continue
            im = g.impl("ParserDefinition<")
            name = (g.name or "").replace("target:", "")
            if not im:
                continue
            fns = {x.get("ident"): x for x in im["items"]}
            a = fns.get("actions")
            if not a:
                continue
            body = gen.flat(a["body"])
            # arrays: actions[state][token] (a padded cell); functions: actions[state](token) (a function per state)
            layout = "arrays" if re.search(r"\]\s*\[", body) else "functions"
            if layout == "arrays":
                okc = "take_while" in body and "Action :: Error" in body
                if okc:
                    res.ok(rid, "%s/%s" % (fset, name), g.entry.get("parser_file_rel"), "prefix reader")
                else:
                    res.violation(rid, "arrays-reader", "%s [arrays layout]: actions() hands out the Error-padded cell as it is: "
                                  "the GLR driver panics (`Cannot happen!`) and the LR driver stops on the padding" % name,
                                  g.entry.get("parser_file_rel"))
            else:
                # the per-state functions are separate items: any `Error` outside a catch-all `_ => vec![]`
                txt = " ".join(gen.flat(it.get("body", [])) for it in g.items if it["kind"] == "fn" and str(it.get("ident", "")).startswith("action_"))
                if "Action :: Error" in txt or "Error ," in txt.replace("Action :: Error", ""):
                    res.violation(rid, "functions-error-arm", "%s [functions layout]: an action function returns Action::Error" % name,
                                  g.entry.get("parser_file_rel"))
                else:
                    res.ok(rid, "%s/%s" % (fset, name), g.entry.get("parser_file_rel"), "no Error in the action functions")


def in_log_region(f, b):
    """block b only runs when a log!/logn! guard (RUSTEMO_TRACE set, debug build) was taken: an argument expression of
    log! keeps the caller's span, but it sits on the guarded edge"""
    dom = f.dominators().get(b, set())
    for d in dom:
        tm = f.blocks[d]["term"]
        if tm["k"] == "switch" and mir.is_log(tm):
            tmap = dict((v, bb) for v, bb in tm["targets"])
            then_bb = tm["otherwise"] if 0 in tmap else tmap.get(1)
            if then_bb is not None and (then_bb == b or then_bb in dom) and f.pred(then_bb) == [d]:
                return True
    return False


def r5_no_forest_traversal(F, res):
    """The forest can be cyclic (cyclic grammars) and arbitrarily deep: its traversals (solutions, ambiguities, tree
    extraction, ..) are recursions without a depth bound. They are the user's to call; the GLR driver itself must not
    run them on the way to its answer (outside trace output), or parse() inherits their stack overflow."""
    rid = res.rule("C15-R5", "the GLR driver does not call the recursive forest traversals of glr::gss (solutions, ambiguities, "
                   "tree extraction) outside log!: parse() stays free of unbounded-depth recursion on cyclic/deep forests", floor=1)
    gss = {p: f for p, f in F.fns.items() if f.crate == "rustemo" and f.has_body() and f.file.endswith("glr/gss.rs")}
    def direct(f):
        out = set()
        for _, tm in f.calls():
            r = tm["f"].get("resolved") or tm["f"].get("def") if tm["f"]["k"] == "fn" else None
            if r:
                out.add(r)
        for _, _, s in f.stmts():
            rv = s.get("rv")
            if rv and rv["k"] == "agg" and "closure" in rv:
                out.add(rv["closure"])
        return out
    E = {p: direct(f) & set(gss) for p, f in gss.items()}
    def reach(a):
        seen, st = set(), list(E.get(a, ()))
        while st:
            x = st.pop()
            if x in seen:
                continue
            seen.add(x)
            st.extend(E.get(x, ()))
        return seen
    recursive = {p for p in gss if p in reach(p)}
    traversals = {p for p in gss if p in recursive or reach(p) & recursive}
    if not recursive:
        res.anchor_lost(rid, "no recursive forest traversal found in glr::gss")
        return
    bad = []
    ncalls = 0
    for p, f in sorted(F.fns.items()):
        if f.crate != "rustemo" or not f.has_body() or not f.file.endswith("glr/parser.rs"):
            continue
        for b, tm in f.calls():
            r = (tm["f"].get("resolved") or tm["f"].get("def")) if tm["f"]["k"] == "fn" else None
            if r in traversals:
                ncalls += 1
                if not mir.is_log(tm) and not in_log_region(f, b):
                    bad.append(("%s:%s" % (f.file, tm.get("line")), mir.short(r), mir.strip_generics(p).rsplit("::", 1)[-1]))
    if bad:
        res.violation(rid, "driver-traverses-forest", "the GLR driver calls %s in %s: a recursion over the forest whose depth the input "
                      "decides (a cyclic grammar never returns from it)" % (bad[0][1], bad[0][2]), bad[0][0])
    else:
        res.ok(rid, "driver-traverses-forest", None, "%d recursive traversal(s) in glr::gss, %d call(s) from the driver, all inside log!" % (
            len(recursive), ncalls))


_TY_TOK = re.compile(r"&(?:'\w+\s+)?(?:mut\s+)?|\*(?:const|mut)\s+|[A-Za-z_][A-Za-z0-9_]*(?:::[A-Za-z_][A-Za-z0-9_]*)*|[<>(),\[\];]")


# generic wrappers whose drop does not drop their argument: markers, weak handles, RefCell guards, borrowing iterators
NOT_OWNING = ("PhantomData", "Weak", "Ref", "RefMut", "Iter", "IterMut", "Edges", "EdgeReference", "Neighbors")


def owned_adts(ty, adts):
    """ADT paths mentioned in the type string `ty` and owned by a value of that type: mentions behind `&`/raw pointers and
    inside PhantomData<..> do not count (the drop glue does not go there)."""
    out = set()
    toks = _TY_TOK.findall(ty)
    i, depth = 0, 0
    skip_until = None       # nesting depth at which a skipped generic argument list ends
    borrowed_at = None      # `&` seen: the next type expression is not owned
    while i < len(toks):
        t = toks[i]
        if t in ("<", "(", "["):
            depth += 1
        elif t in (">", ")", "]"):
            depth -= 1
            if skip_until is not None and depth < skip_until:
                skip_until = None
            if borrowed_at is not None and depth < borrowed_at:
                borrowed_at = None
        elif t == "," and borrowed_at is not None and depth <= borrowed_at:
            borrowed_at = None
        elif t.startswith("&") or t.startswith("*"):
            if borrowed_at is None:
                borrowed_at = depth
        elif skip_until is None and t[0].isalpha() or t[0] == "_":
            if t.rsplit("::", 1)[-1] in NOT_OWNING:
                skip_until = depth + 1
            elif borrowed_at is None:
                if t in adts:
                    out.add(t)
            elif depth == borrowed_at and not (i + 1 < len(toks) and toks[i + 1] == "<"):
                borrowed_at = None          # `&T` without generics ends here
            # `&T<..>`: stays borrowed until the matching `>` brings the depth back
        i += 1
    return out


def recursive_types(F, crate):
    """(recursive, owners): ADTs of `crate` on a cycle of the owns-relation (each such cycle runs through Box/Rc/Vec/..: the
    compiler's drop glue for it is a recursion as deep as the value), and the ADTs that own one of them transitively."""
    adts = {p: a for c in F.crates if c.name == crate and not c.test for p, a in c.adts.items() if p.startswith(crate + "::")}
    E = {}
    for p, a in adts.items():
        E[p] = set()
        for v in a["variants"]:
            for f in v["fields"]:
                E[p] |= owned_adts(f["ty"], adts)
    def reach(a):
        seen, st = set(), list(E.get(a, ()))
        while st:
            x = st.pop()
            if x not in seen:
                seen.add(x)
                st.extend(E.get(x, ()))
        return seen
    R = {p: reach(p) for p in adts}
    rec = {p for p in adts if p in R[p]}
    owners = {p for p in adts if R[p] & rec}
    return adts, rec, owners, R


PARSE_ENTRIES = ("parse", "parse_with_context", "parse_file")


def parse_reach(F):
    """functions reachable from the parse entry points of the runtime (Parser impls of LRParser and GlrParser)"""
    entries = [p for p, f in F.fns.items() if f.crate == "rustemo" and f.d.get("implements")
               and mir.strip_generics(f.d["implements"]).rsplit("::", 1)[-1] in PARSE_ENTRIES
               and "Parser" in f.d["implements"]]
    return entries, mir.CallGraph(F).reach(entries)


def r7_recursive_drop(F, res):
    """Values whose drop glue is a recursion over an input-sized structure must not be dropped on the way out of parse():
    a long input (left-recursive list, 100 000 elements) overflows the stack there - an abort, not an Err."""
    rid = res.rule("C15-R7", "no function reachable from parse() drops a value that owns a recursive runtime type with compiler-"
                   "generated drop glue (SPPF nodes, tree nodes): the glue recurses as deep as the tree, and the depth is the "
                   "input's to choose", floor=2)
    adts, rec, owners, R = recursive_types(F, "rustemo")
    if not rec:
        res.anchor_lost(rid, "no recursive type found in the runtime crate (SPPFTree/Parent, TreeNode were)")
        return
    manual = set()
    for c in F.crates:
        if c.name != "rustemo" or c.test:
            continue
        for im in c.impls:
            if im.get("trait") in ("core::ops::Drop", "std::ops::Drop", "core::ops::drop::Drop"):
                manual |= owned_adts(im["self_ty"], adts) | {a for a in adts if im["self_ty"].startswith(a)}
    entries, reachable = parse_reach(F)
    if len(entries) < 4:
        res.anchor_lost(rid, "parse entry points of LRParser/GlrParser not found (%d)" % len(entries))
        return
    sites, handles = {}, {}
    for p in sorted(reachable):
        f = F.fns.get(p)
        if f is None or f.crate != "rustemo" or not f.has_body():
            continue
        for bi, b in enumerate(f.blocks):
            tm = b["term"]
            if tm["k"] != "drop" or b.get("cleanup"):
                continue
            pl = tm["p"]
            ty = None
            for pr in pl.get("proj", []):
                if pr.get("k") == "field" and pr.get("ty"):
                    ty = pr["ty"]
                elif pr.get("k") in ("deref", "index", "cindex"):
                    ty = None if ty is None else ty
            if ty is None:
                ty = f.d["locals"][pl["l"]]["ty"] if "locals" in f.d and pl.get("l") is not None else ""
            shared = ty.startswith("alloc::rc::Rc<") or ty.startswith("alloc::sync::Arc<")
            for a in owned_adts(ty, adts):
                for r in ({a} | R[a]) & rec:
                    (handles if shared else sites).setdefault(r, []).append((
                        mir.strip_generics(F.owner_root(p)), ty,
                        "%s: %s (%s)" % (f.file, mir.short(mir.strip_generics(F.owner_root(p))), f.var_name(pl.get("l")) or "temporary")))
            # the same through a call that empties a collection in place
        for bi, tm in f.calls():
            nm = mir.strip_generics(callee(tm) or "")
            if nm.rsplit("::", 1)[-1] not in ("clear", "truncate") or not tm.get("args"):
                continue
            a0 = tm["args"][0]
            pl = a0.get("p") if isinstance(a0, dict) else None
            if not pl or pl.get("l") is None or "locals" not in f.d:
                continue
            ty = re.sub(r"^&(?:'\w+\s+)?mut\s+", "", f.d["locals"][pl["l"]]["ty"]) if not pl.get("proj") else ""
            for a in owned_adts(ty, adts):
                for r in ({a} | R[a]) & rec:
                    sites.setdefault(r, []).append((
                        mir.strip_generics(F.owner_root(p)), ty,
                        "%s: %s (%s)" % (f.file, mir.short(mir.strip_generics(F.owner_root(p))), nm.rsplit("::", 1)[-1] + "()")))
    for r in sorted(rec):
        cyc = sorted(x for x in R[r] & rec if r in R[x])
        have_drop = [x for x in cyc if x in manual]
        ss = sorted(sites.get(r, []), key=lambda x: (not x[1].startswith("rustemo::"), x[2]))
        inst = "recursive-drop/" + r
        if have_drop:
            res.ok(rid, inst, None, "cycle %s has a manual Drop on %s (its iterativeness is not decided here)" % (cyc, have_drop))
        elif not ss:
            res.ok(rid, inst, None, "recursive (cycle %s), compiler drop glue, but no value owning it is dropped in a function "
                   "reachable from parse() (%d drop(s) of shared Rc handles not counted): it leaves with the result or stays in "
                   "the parser object" % (cyc, len(handles.get(r, []))))
        else:
            fns = sorted({x[0] for x in ss})
            res.violation(rid, inst, "%s is recursive through %s and has compiler-generated drop glue; values owning it are dropped "
                          "in %d place(s) reachable from parse() (%s; not counting %d drop(s) of shared Rc handles): the drop "
                          "recurses as deep as the tree, a long input overflows the stack" % (
                              mir.short(r), [mir.short(x) for x in cyc], len(ss), ", ".join(mir.short(x) for x in fns[:4]),
                              len(handles.get(r, []))), ss[0][2])


TOKEN_PIPELINE = (r"^<rustemo::lexer::TokenIterator<.*> as core::iter::traits::iterator::Iterator>::next$",
                  r"^<rustemo::lexer::StringLexer<.*> as rustemo::lexer::Lexer<.*>>::next_tokens$",
                  r"^rustemo::lr::parser::LRParser::<[^>]*>::next_token$",
                  rt.GLR + "find_lookaheads$")


def r8_empty_token_progress(ctx, F, res):
    """A shift moves the position by the length of the token's text: a content token that matched the EMPTY string moves
    nothing, the same state asks the lexer again at the same place and gets the same token - the LR loop and the GLR
    frontier loop never end (`A: /a*/;` under repetition, input `b`). Somewhere between the recogniser's answer and the
    shift an empty match has to be turned away (STOP is the one token that is empty by right)."""
    from . import gen, idiom
    rid = res.rule("C15-R8", "a content token that matched the empty string is turned away before it can be shifted (in the generated "
                   "recogniser, the token iterator, the lexer or the token fetch of either parser): otherwise the parser does not "
                   "move and never returns", floor=1)
    guards = []
    seen = 0
    def about_token_text(c):
        return mir.has_call(c, "recognize") or mir.contains(c, lambda x: isinstance(x, tuple) and (
            (x[0] == "field" and x[2] == "value" and str(x[3]).endswith("Token")) or (x[0] in ("var", "param") and str(x[1]) in ("recognized", "x_str"))))
    for pat in TOKEN_PIPELINE:
        try:
            fn = F.one(pat)
        except Exception:      # noqa
            continue
        seen += 1
        for h in [fn] + F.all_nested_closures(fn):
            try:
                paths = Sim(h, F, max_paths=100000).run()
            except Exception:      # noqa
                continue
            for p in paths:
                for t, v in p.cond:
                    r = idiom.emptiness(t, v)
                    if r and about_token_text(r[0]):
                        # a comparison of a token length with another token's length (longest match) is not this
                        guards.append("%s (%s)" % (mir.short(mir.strip_generics(fn.path)), fn.file))
    ngen = 0
    for g in gen.load_set(ctx.dir("gen-functions")):
        if g.parse_error:
            continue
        im = g.impl("TokenRecognizerT<", "TokenRecognizer")
        f = [x for x in (im or {}).get("items", []) if x.get("ident") == "recognize"]
        if not f:
            continue
        ngen += 1
        body = gen.flat(f[0]["body"]).replace(" ", "")
        # the arm of the regex recogniser (the Stop arm tests the INPUT for emptiness, which is something else)
        i = body.find("Recognizer::RegexMatch(")
        arm = body[i:] if i >= 0 else ""
        if re.search(r"(x_str|x\.as_str\(\)|x|m|mat)\.(is_empty\(\)|len\(\)(>0|==0|!=0|>=1)|end\(\)(>0|==0|!=0))", arm):
            guards.append("generated recogniser of %s" % (g.name or ""))
    if seen < 3 or not ngen:
        res.anchor_lost(rid, "token pipeline not found (%d of 4 runtime functions, %d generated recognisers)" % (seen, ngen))
    elif guards:
        res.ok(rid, "empty-token-progress", None, "empty matches are tested in %s" % sorted(set(guards))[:3])
    else:
        res.violation(rid, "empty-token-progress", "nothing between TokenRecognizer::recognize and the shift tests the matched text for "
                      "emptiness (%d runtime functions of the token pipeline and %d generated recognisers read): a regex or string "
                      "terminal that matches the empty string is shifted without moving the position, and the parser asks for the "
                      "same token for ever" % (seen, ngen), "rustemo/src/lexer.rs")


def r9_error_base(F, res, rid=None):
    """GlrParser::make_error reads the first head of `last_frontier_base` (`expect("There must be a head ..")`): the census
    row for that site says "the frontier loop records a non-empty base before it is left". This rule is that sentence,
    decided: a forward analysis over the CFG of parse_with_context with sets of abstract states (rules/absint.py; Vec locals
    empty / non-empty / unknown, branches on is_empty() refine, no join at the loop head) - every state that reaches the
    call passes a base that is non-empty."""
    from . import absint
    rid = rid or res.rule("C15-R9", "GlrParser::make_error is never handed an empty frontier base (its first head is unwrapped): every "
                          "abstract state reaching the call has `last_frontier_base` non-empty (loop invariant by abstract "
                          "interpretation of Vec emptiness)", floor=1)
    try:
        fn = F.one(r"^<rustemo::glr::parser::GlrParser<.*> as rustemo::parser::Parser<.*>>::parse_with_context$")
    except Exception:      # noqa
        res.anchor_lost(rid, "GlrParser::parse_with_context not found")
        return
    sites = [(bi, tm) for bi, tm in fn.calls() if mir.strip_generics(callee(tm) or "").endswith("::make_error")]
    if not sites:
        res.anchor_lost(rid, "call of make_error not found in GlrParser::parse_with_context", fn.loc())
        return
    try:
        A = absint.VecEmptiness(fn).run()
    except Exception as e:      # noqa
        res.undecided(rid, "abstract interpretation of parse_with_context failed: %s: %s" % (type(e).__name__, e), fn.loc())
        return
    callee_fn = F.fns.get(callee(sites[0][1]))
    # which argument is the base: the Vec<NodeIndex> parameter of make_error
    argi = None
    for i, a in enumerate(sites[0][1].get("args", [])):
        l = A._arg_local(a)
        if l is not None and (l in A.vecs or (l < len(A.tys) and "Vec<" in A.tys[l])):
            argi = i
    if argi is None:
        res.undecided(rid, "make_error takes no Vec argument any more", fn.loc())
        return
    for bi, tm in sites:
        vals = A.arg_states(bi, argi)
        where = "%s:%s" % (fn.file, tm.get("line"))
        if not A.complete or not vals:
            res.undecided(rid, "the analysis did not reach the make_error call (%d states, complete=%s)" % (len(vals), A.complete), where)
        elif any(v == "E" for v in vals):
            res.violation(rid, "error-base-non-empty", "make_error can be called with an EMPTY frontier base (%d of %d abstract states "
                          "reaching the call): its `expect(\"There must be a head in the last frontier!\")` panics instead of the "
                          "parser returning Err - e.g. when nothing can be shifted from the start state" % (
                              sum(1 for v in vals if v == "E"), len(vals)), where)
        elif all(v == "N" for v in vals):
            res.ok(rid, "error-base-non-empty", where, "%d abstract state(s) reach the call, the base is non-empty in each (%d state/"
                   "block pairs explored)" % (len(vals), A.pairs))
        else:
            res.undecided(rid, "the base handed to make_error is not known to be non-empty in %d of %d abstract states (built by "
                          "something the analysis does not model)" % (sum(1 for v in vals if v is None), len(vals)), where)


def r6_generated_recognizers(ctx, res):
    """The generated recogniser runs on every token attempt with text the user controls: it answers Some/None and never
    unwraps what the regex engine returns (fancy-regex answers Err on its backtrack limit)."""
    from . import gen
    rid = res.rule("C15-R6", "generated TokenRecognizer::recognize has no unwrap/expect/panic!/unreachable! (a regex engine error or a "
                   "failed match is `not recognised`, not a panic)", floor=40)
    for fset in ("gen-functions",):
        for g in gen.load_set(ctx.dir(fset)):
            if g.parse_error:
                continue
            im = g.impl("TokenRecognizerT<", "TokenRecognizer")
            name = (g.name or "").replace("target:", "")
            f = [x for x in (im or {}).get("items", []) if x.get("ident") == "recognize"]
            if not f:
                continue
            body = gen.flat(f[0]["body"]).replace(" ", "")
            hits = [k for k in (".unwrap()", ".expect(", "panic!(", "unreachable!(", ".unwrap_unchecked(") if k in body]
            if hits:
                res.violation(rid, "generated-recognizer-panics", "%s: the generated recogniser contains %s: a lexer attempt can panic "
                              "the parser" % (name, ", ".join(hits)), g.entry.get("parser_file_rel"))
            else:
                res.ok(rid, name, g.entry.get("parser_file_rel"), "no panicking construct")


def run(ctx, res):
    F = ctx.facts("core")
    rid = res.rule("C15-R1", "may-panic census of the runtime crate: every panic-capable construct reachable from the public "
                   "API is class-discharged, mechanically discharged by a dominating guard, or a triaged invariant", floor=60)
    triage = census.load_triage("panic_runtime.json")
    stats, stale, fns = census.run_census(F, res, rid, CRATES, roots(F), triage, CLASS_RULES, "C15")
    r7_recursive_drop(F, res)
    for k in stale:
        res.notes.append("triage row no longer matches any site: " + k)
    r2_guards(F, res)
    r2d_boundaries(F, res)
    r2h_slice_ranges(F, res)
    r3_regex(F, res)
    r4_error_cells(ctx, res)
    r5_no_forest_traversal(F, res)
    r6_generated_recognizers(ctx, res)
    r8_empty_token_progress(ctx, F, res)
    r9_error_base(F, res)
    from . import controls
    controls.run(ctx, res, "C15")
    res.extra.update({"obligations": stats["sites"], "discharged": stats["sites"] - stats["new"] - stats["finding"],
                      "census": stats, "stale_triage_rows": len(stale)})
    res.explanation = (
        "May-panic census over the MIR of the runtime crate `rustemo`: all functions reachable from the public API "
        "(class-hierarchy resolution of trait calls) are scanned for Assert terminators (bounds, overflow, division), "
        "unwrap/expect, panic!/assert!/unreachable!, slicing/indexing calls, RefCell borrows and panicking Vec/str "
        "operations. A site is discharged by class (usize additions, trace-only code, compiler UB checks), mechanically "
        "by a dominating guard on the same terms (Q1 is_some/match arm, Q2 index < len, Q4 l >= r, Q7 fresh Some, Q8 "
        "contains_key), or by an exact row of the hand-audited triage table (rules/tables/panic_runtime.json) with its "
        "reason; anything else is a violation. Plus the progress guards of the two retry loops, the layout-parser "
        "constants, no removal from the GSS graph, the SPPFTree-as-Context restriction, the unvalidated-regex "
        "finding, and the recursive-drop rule (type graph of the runtime ADTs; Drop terminators and clear()/truncate() "
        "calls in functions reachable from the parse entry points). Not decided: termination of the LR/GLR main loops in general (cyclic grammars, unbounded ambiguity), "
        "stack depth of recursive forest traversals, panics inside user actions or third-party crates.")
    res.assumptions = ["invariant rows of the triage table are human judgements (listed in evidence with reasons)",
                       "generic runtime code is analysed pre-monomorphisation"]
