"""A small disjunctive abstract interpreter over MIR: which `Vec` locals of a function are empty / non-empty where.

The path simulator forgets what a loop did; some invariants are about exactly that ("when the frontier loop is left, the
remembered base is not empty"). This module runs a forward analysis over the CFG with SETS of abstract states (no join, so
`base is empty  =>  last is not` survives the loop head), the domain per Vec local being E (empty), N (non-empty) or
unknown (absent). It understands: Vec::new / vec![x, ..] / moves and clones between locals / clone_from / mem::take /
push / clear / branches on `is_empty()` and on its negation; any other call that gets a `&mut` to a local, or defines it,
makes it unknown. Branches that contradict the state are not followed. Nothing is executed."""
from . import mir
from .mir import callee

MAX_PAIRS = 20000


def _is_vec(ty):
    return ty.startswith("alloc::vec::Vec<")


class VecEmptiness:
    def __init__(self, fn):
        self.fn = fn
        self.tys = [l["ty"] for l in fn.d.get("locals", [])]
        self.vecs = {i for i, t in enumerate(self.tys) if _is_vec(t)}
        self.at_block = {}       # block -> set of states at its entry
        self.pairs = 0
        self.complete = False

    # a state: (frozenset((vec local, 'E'|'N')), frozenset((ref local, target local, is_mut)), frozenset((bool local, vec local, polarity)))
    @staticmethod
    def _thaw(st):
        return dict(st[0]), {r: (x, m) for r, x, m in st[1]}, {b: (x, p) for b, x, p in st[2]}

    @staticmethod
    def _freeze(vs, refs, bools):
        return (frozenset(vs.items()), frozenset((r, x, m) for r, (x, m) in refs.items()),
                frozenset((b, x, p) for b, (x, p) in bools.items()))

    def _kill(self, vs, refs, bools, l):
        vs.pop(l, None)
        refs.pop(l, None)
        bools.pop(l, None)
        for b in [b for b, (x, _) in bools.items() if x == l]:
            bools.pop(b)

    def _stmt(self, s, vs, refs, bools):
        if s.get("k") != "assign":
            return
        dst = s["dst"]
        if dst["proj"]:
            return
        d = dst["l"]
        rv = s["rv"]
        k = rv.get("k")
        if k == "use":
            op = rv["op"]
            if op.get("k") in ("move", "copy") and not op["p"]["proj"]:
                src = op["p"]["l"]
                val, ref, boo = vs.get(src), refs.get(src), bools.get(src)
                self._kill(vs, refs, bools, d)
                if d in self.vecs and val is not None:
                    vs[d] = val
                if ref is not None:
                    refs[d] = ref
                if boo is not None:
                    bools[d] = boo
                if op["k"] == "move" and src in self.vecs:
                    vs.pop(src, None)
                return
            self._kill(vs, refs, bools, d)
            return
        if k == "ref":
            p = rv["p"]
            self._kill(vs, refs, bools, d)
            if not p["proj"] and p["l"] in self.vecs:
                refs[d] = (p["l"], bool(rv.get("mut")))
            elif len(p["proj"]) == 1 and p["proj"][0]["k"] == "deref" and p["l"] in refs:
                refs[d] = (refs[p["l"]][0], bool(rv.get("mut")) and refs[p["l"]][1])
            return
        if k == "un" and rv.get("op") == "Not":
            x = rv["x"]
            src = x["p"]["l"] if x.get("k") in ("move", "copy") and not x["p"]["proj"] else None
            boo = bools.get(src)
            self._kill(vs, refs, bools, d)
            if boo is not None:
                bools[d] = (boo[0], not boo[1])
            return
        self._kill(vs, refs, bools, d)

    def _arg_local(self, a):
        return a["p"]["l"] if isinstance(a, dict) and a.get("k") in ("move", "copy") and not a["p"]["proj"] else None

    def _call(self, tm, vs, refs, bools):
        name = mir.strip_generics(callee(tm) or "")
        meth = name.rsplit("::", 1)[-1]
        args = [self._arg_local(a) for a in tm.get("args", [])]
        dst = tm.get("dst")
        d = dst["l"] if dst and not dst["proj"] else None
        def target(i):
            r = refs.get(args[i]) if i < len(args) and args[i] is not None else None
            return r[0] if r else None
        is_vec_fn = name.startswith("alloc::vec::Vec::") or ">::" in name and "Vec<" in name
        new_dst = None          # value for d if it is a vec local
        if name.startswith("alloc::vec::Vec::") and meth in ("new", "with_capacity"):
            new_dst = "E"
        elif meth in ("box_assume_init_into_vec_unsafe", "into_vec"):
            new_dst = "N"        # vec![a, ..]: built from an array of at least one element
        elif meth == "is_empty" and is_vec_fn and target(0) is not None:
            x = target(0)
            if d is not None:
                self._kill(vs, refs, bools, d)
                bools[d] = (x, True)
            return
        elif meth == "clone" and target(0) is not None:
            new_dst = vs.get(target(0))
            if d is not None:
                self._kill(vs, refs, bools, d)
                if d in self.vecs and new_dst is not None:
                    vs[d] = new_dst
            return
        elif meth == "clone_from" and target(0) is not None:
            x, y = target(0), target(1)
            val = vs.get(y) if y is not None else None
            self._kill(vs, {}, bools, x)
            if val is not None:
                vs[x] = val
            return
        elif meth == "take" and name.startswith("core::mem::") and target(0) is not None:
            x = target(0)
            val = vs.get(x)
            self._kill(vs, {}, bools, x)
            vs[x] = "E"
            if d is not None:
                self._kill(vs, refs, bools, d)
                if d in self.vecs and val is not None:
                    vs[d] = val
            return
        elif meth in ("push", "insert", "push_back", "push_front") and is_vec_fn and target(0) is not None:
            x = target(0)
            self._kill(vs, {}, bools, x)
            vs[x] = "N"
            return
        elif meth == "clear" and is_vec_fn and target(0) is not None:
            x = target(0)
            self._kill(vs, {}, bools, x)
            vs[x] = "E"
            return
        elif meth in ("len", "iter", "first", "last", "get", "contains", "as_slice", "deref", "index") and target(0) is not None \
                and not (refs.get(args[0]) or (None, True))[1]:
            if d is not None:
                self._kill(vs, refs, bools, d)
            return
        # anything else: what it gets by `&mut` or by value, and what it defines, is unknown afterwards
        for a in args:
            if a is None:
                continue
            r = refs.get(a)
            if r is not None and r[1]:
                self._kill(vs, {}, bools, r[0])
            if a in self.vecs:
                vs.pop(a, None)
        if d is not None:
            self._kill(vs, refs, bools, d)
            if d in self.vecs and new_dst is not None:
                vs[d] = new_dst

    def _after_stmts(self, bi, st):
        vs, refs, bools = self._thaw(st)
        for s in self.fn.blocks[bi]["stmts"]:
            self._stmt(s, vs, refs, bools)
        return vs, refs, bools

    def _succ(self, bi, st):
        """[(successor block, state)]"""
        b = self.fn.blocks[bi]
        vs, refs, bools = self._after_stmts(bi, st)
        tm = b["term"]
        k = tm["k"]
        out = []
        if k == "call":
            self._call(tm, vs, refs, bools)
            if tm.get("t") is not None:
                out.append((tm["t"], self._freeze(vs, refs, bools)))
        elif k == "switch":
            op = tm["op"]
            l = self._arg_local(op)
            boo = bools.get(l)
            tg = [(v, t) for v, t in tm["targets"]] + [("other", tm["otherwise"])]
            for v, t in tg:
                if t is None:
                    continue
                vs2 = dict(vs)
                if boo is not None and tm.get("ty") == "bool":
                    taken_true = (v != 0) if v != "other" else (0 in [x for x, _ in tm["targets"]])
                    empty = taken_true if boo[1] else (not taken_true)
                    want = "E" if empty else "N"
                    have = vs2.get(boo[0])
                    if have is not None and have != want:
                        continue            # contradicts what is known: not a feasible branch
                    vs2[boo[0]] = want
                out.append((t, self._freeze(vs2, refs, bools)))
        elif k == "drop":
            pl = tm["p"]
            if not pl["proj"]:
                self._kill(vs, refs, bools, pl["l"])
            if tm.get("t") is not None:
                out.append((tm["t"], self._freeze(vs, refs, bools)))
        elif k in ("goto", "assert", "false_edge", "falseedge"):
            t = tm.get("t")
            if t is not None:
                out.append((t, self._freeze(vs, refs, bools)))
        else:
            for t in mir.term_targets(tm) if hasattr(mir, "term_targets") else []:
                out.append((t, self._freeze(vs, refs, bools)))
        return [(t, s) for t, s in out if t is not None and not self.fn.blocks[t].get("cleanup")]

    def run(self):
        start = self._freeze({}, {}, {})
        work = [(0, start)]
        self.at_block = {0: {start}}
        while work:
            bi, st = work.pop()
            self.pairs += 1
            if self.pairs > MAX_PAIRS:
                return self
            for t, s in self._succ(bi, st):
                seen = self.at_block.setdefault(t, set())
                if s not in seen:
                    seen.add(s)
                    work.append((t, s))
        self.complete = True
        return self

    def arg_states(self, bi, argi):
        """abstract values ('E' / 'N' / None) of the Vec passed (by value or by reference) as argument `argi` of the call that
        ends block bi, one per state that reaches the call"""
        res = []
        tm = self.fn.blocks[bi]["term"]
        for st in self.at_block.get(bi, ()):
            vs, refs, bools = self._after_stmts(bi, st)
            a = self._arg_local(tm["args"][argi]) if argi < len(tm.get("args", [])) else None
            if a is None:
                res.append(None)
            elif a in refs:
                res.append(vs.get(refs[a][0]))
            else:
                res.append(vs.get(a))
        return res
