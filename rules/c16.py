"""C16 - the compiler is total: any grammar text gives a parser or a diagnostic."""
from . import mir, census
from .mir import Sim, callee, fmt

LEVEL = "other"
CRATES = ("rustemo_compiler", "rcomp")
ENTRY = [
    "rustemo_compiler::settings::Settings::process_grammar", "rustemo_compiler::settings::Settings::process_dir",
    "rustemo_compiler::settings::process_grammar", "rustemo_compiler::settings::process_dir",
    "rustemo_compiler::settings::process_crate_dir", "rcomp::main", "rustemo_compiler::generator::generate_parser",
]


def roots(F):
    return [p for p in ENTRY if p in F.fns]


def _cls(s):
    root = s.root()
    if s.kind == "overflow-add":
        return "usize counter addition"
    if mir.is_log(s.detail):
        return "inside log!/logn! (trace only)"
    if s.kind == "assert-OtherAssert":
        return "compiler-inserted debug UB check"
    if "rustemo_compiler::lang::rustemo::" in root or root.startswith("<rustemo_compiler::lang::rustemo::"):
        return "bootstrapped generated parser (lang/rustemo.rs): generated-code classes of C15/C08/C10"
    if root.startswith("<rustemo_compiler::index::") or root.startswith("rustemo_compiler::index::") or \
            root.startswith("<rustemo_compiler::table::ItemVec") or root.startswith("rustemo_compiler::table::ItemVec"):
        return "typed index newtype into its own vector (index.rs create_index!): indices are allocated by the builder / enumerate"
    if " as core::fmt::Debug>::fmt" in root:
        return "derived/handwritten Debug (trace output only)"
    return None


def _cls2(s):
    # call sites of the typed-vector Index impls
    if s.kind == "index" and s.callee and ("rustemo_compiler::index::" in s.callee or "rustemo_compiler::table::ItemVec" in s.callee):
        return "typed index newtype into its own vector (call site): indices are allocated densely by the builder (C16-R3 guards the density)"
    if s.kind in ("ident-new", "parse-quote"):
        return "quote template: panics only if an interpolated fragment is not valid Rust in its position - identifier validity is C16-R4 / C11-R2"
    return None


CLASS_RULES = [_cls, _cls2]
INV = "invariant"
FIND = "finding"
P = "rustemo_compiler::"
TRIAGE_RULES = [
    # ---------------- findings (reproduced, see DESIGN.md par. 8)
    (P + "grammar::builder::GrammarBuilder::desugar_regex/todo/*", FIND,
     "greedy repetition operators `*!`, `+!`, `?!` are accepted by the grammar language and reach todo!() (D4)"),
    (P + "lang::rustemo_actions::int_const/unwrap/*", FIND,
     "an integer constant that does not fit u32 panics in parse().unwrap() (D6a): `A: 'a' {99999999999};`"),
    (P + "grammar::builder::GrammarBuilder::try_from_file/unwrap/BTreeMap::get(param(self).nonterminals, *", FIND,
     "a file with only a `terminals` section has no AUG/start nonterminal: get(..).unwrap() panics (D6b)"),
    (P + "grammar::builder::GrammarBuilder::extract_productions_and_symbols/unwrap/*gsymbol", FIND,
     "parenthesized groups are accepted by the grammar language but gsymbol is None: unwrap() panics (D6c)"),
    (P + "grammar::builder::GrammarBuilder::desugar_regex/unwrap/param(gsymref).gsymbol", FIND,
     "parenthesized group with a repetition operator: expect(\"Parenthesized groups are not implemented!\") (D6c)"),
    (P + "grammar::builder::GrammarBuilder::desugar_regex/assert/Eq(Vec::len(*", FIND,
     "more than one repetition modifier `A+[Tb, Tc]` hits assert!(modifiers.len() == 1) (D6d)"),
    (P + "table::LRTable::calculate_reductions/assert/Eq(Vec::len(*", FIND,
     "assert!(actions.len() == 1) fails for a three-way conflict with priorities, under LR and GLR (D6e)"),
    (P + "table::LRTable::get_conflicts/unreachable/*", FIND,
     "an [Accept, Reduce] cell of an indirectly cyclic grammar reaches unreachable!() in get_conflicts (D6f)"),
    (P + "grammar::types::SymbolTypes::symbol_types/assert/*", FIND,
     "two terminals of the same name (or one named STOP) overwrite each other in the symbol table; "
     "assert!(types.len() == terminal.idx) fails (D6h)"),
    (P + "table::LRTable::calc_states/assert_eq/*", FIND,
     "a user rule named AUG is merged with the augmented nonterminal; assert_eq!(prods.len(), 1) fails (D6j)"),
    (P + "settings::Settings::process_grammar/unwrap/*root_dir", FIND,
     "configuration-triggered: `rcomp -o out g.rustemo` outside cargo: expect(\"'root_dir' must be set!\") (D6g)"),
    # ---------------- invariants
    (P + "settings::Settings::lexical_disamb_grammar_order/panic/*", INV,
     "documented configuration panic (grammar order cannot be disabled for LR); outside the property's quantifier (grammar text)"),
    ("<rcomp::Cli as clap_builder::derive::Args>::augment_args*/unwrap/*", INV, "clap derive: default value of a ValueEnum always has a possible value"),
    (P + "table::LRTable::calculate_reductions/assert/Le(Vec::len(*", INV,
     "at most one Shift/Accept per terminal: one successor state per symbol (T-R6/T-R7)"),
    (P + "table::LRTable::calculate_reductions/panic/discr(param(x))", INV, "`reduces` holds only Reduce actions (partition predicate; C05 contexts)"),
    (P + "table::LRTable::calculate_reductions/index/*max_prior_for_term*", INV,
     "a Shift on terminal t in this state was created from an item with t after the dot, which recorded max_prior_for_term[t] (C05-R3)"),
    (P + "table::LRTable::calculate_reductions/refcell/*", INV, "shared borrow; no borrow_mut of follow sets in this phase"),
    (P + "table::LRItem::inc_position/assert/*", INV, "called only on items grouped under a symbol after the dot (symbol_at_position is Some => position < prod_len)"),
    (P + "table::LRItem::to_string/*", INV, "display helper: rhs.insert(position, ..) with position <= rhs.len(); shared borrow"),
    (P + "table::LRState::closure/refcell/*", INV, "borrows are statement-local; items of new_items are distinct objects from self.items"),
    (P + "table::LRState::closure/index/Grammar::production_rhs_symbols*", INV, "[position + 1..] under position + 1 < rhs.len()"),
    (P + "table::LRState::closure/index/param(p)*", INV, "production_rn_lengths has one entry per production"),
    (P + "table::LRTable::calc_states/index/Grammar::symbol_to_nonterm*", INV, "prods[0] after assert_eq!(prods.len(), 1) (the assert itself is finding D6j)"),
    (P + "table::LRTable::calc_states/index/param(p)*", INV, "production_rn_lengths has one entry per production"),
    (P + "table::LRTable::calc_states/index/upvar(prods)*", INV, "prods[0] after the length assertion"),
    (P + "table::LRTable::merge_state/unwrap/*", INV, "old_state == new_state (kernel cores equal) was checked first: every old kernel item has a partner"),
    (P + "table::LRTable::merge_state/refcell/*", INV, "borrow_mut of the old item's follow while only the new state's follow is borrowed"),
    (P + "table::LRTable::propagate_follows/overflow-sub/*", INV,
     "kernel items of a transition target have position >= 1 (created by inc_position); the AUG item at position 0 is in state 0, never a target"),
    (P + "table::LRTable::propagate_follows/refcell/*", INV, "source and target items are different objects unless self-loop with equal (prod, position), which position-1 excludes"),
    (P + "table::LRTable::max_actions/unwrap/*", INV, "a table has at least one state"),
    (P + "table::LRTable::max_recognizers/unwrap/*", INV, "a table has at least one state"),
    (P + "table::LRTable::sort_terminals/overflow-mul/*", INV, "priority <= 100 (checked <= 99 for user terminals) times 1000"),
    (P + "table::LRTable::get_conflicts/index/*", INV, "full-range slice"),
    (P + "table::production_rn_lengths/overflow-sub/*", INV, "rn_len starts at rhs.len() and is decremented once per visited rhs symbol"),
    ("<" + P + "table::LRTable<'_, '_> as core::fmt::Display>::fmt/*", INV, "display of the table (--print-table): gotos filtered to Some before unwrap"),
    ("<" + P + "grammar::Grammar as core::fmt::Display>::fmt/*", INV, "typed index (display)"),
    (P + "grammar::Grammar::symbol_to_nonterm*/unwrap/*", INV,
     "callers pass nonterminal symbol indexes (is_nonterm checked, or rhs symbol resolved to a nonterminal, or augmented/start index)"),
    (P + "grammar::Production::rhs_symbol/index/*", INV, "pos is a position with a symbol (callers iterate rhs)"),
    (P + "grammar::res_symbol/panic/*", INV, "resolve_references runs before Grammar construction and returns Err for unresolved names (C16-R2 order)"),
    (P + "grammar::builder::GrammarBuilder::resolve_references/panic/*", INV,
     "inline string terminals were resolved to indexes by resolve_inline_terminals_from_productions (index is Some, this arm needs index None)"),
    (P + "grammar::builder::GrammarBuilder::resolve_references/unwrap/*", INV, "unwrap_err() on a just-built Err (err! macro)"),
    (P + "grammar::builder::GrammarBuilder::try_from_file/index/*", INV, "grammar_rules is `GrammarRule+` in the grammar of grammars: non-empty when Some"),
    (P + "grammar::builder::GrammarBuilder::extract_productions_and_symbols/index/*", INV, "rules[0]: same non-empty list"),
    (P + "grammar::builder::GrammarBuilder::desugar_regex/index/*", INV, "modifiers[0] after assert!(modifiers.len() == 1) (the assert is finding D6d)"),
    (P + "grammar::types::SymbolTypes::find_recursions*/unwrap/*", INV,
     "every ref_type is the name of a grammar symbol and `types` has one entry per symbol (names resolved by resolve_references)"),
    (P + "grammar::types::SymbolTypes::get_type_kind/index/*fields*", INV, "full-range slice for slice patterns"),
    (P + "grammar::types::SymbolTypes::get_type_kind/index/Iterator::collect*", INV, "choices_noe[0] under choices_noe.len() == 1"),
    (P + "grammar::types::SymbolTypes::get_type_kind/unreachable/*", INV, "guarded by !matches!(choices_noe[0].kind, Plain) and choices_noe excludes Empty"),
    (P + "grammar::types::SymbolTypes::symbol_types/index/*", INV, "rhs[0] under rhs.len() == 1 / rhs_with_content.len() == 1 guards"),
    (P + "lang::rustemo_actions::float_const/unwrap/*", INV, "the FloatConst recogniser regex only matches text that f32::from_str accepts (digits, optional fraction/exponent)"),
    (P + "lang::rustemo_actions::regex_term/*", INV, "token matched /\\/(..)*\\// : at least two ASCII delimiters"),
    (P + "lang::rustemo_actions::str_const/*", INV, "token matched a quoted string: at least two ASCII delimiters"),
    (P + "lang::rustemo_actions::annotation/index/*", INV, "token matched /@[a-zA-Z0-9_]+/: first byte is ASCII '@'"),
    (P + "generator::ParserGenerator::generate/panic/*", INV, "part generators return Item statements only (parse_quote! templates of items)"),
    (P + "generator::ParserGenerator::action_to_syntax/index/*", INV, "typed index"),
    (P + "generator::ParserGenerator::state_kind_ident/index/*", INV, "typed index"),
    (P + "generator::actions::generate_parser_actions/unwrap/Path::file_stem*", INV, "file_name is a non-empty file stem (ParserGenerator::new returns Err otherwise)"),
    (P + "generator::actions::generate_parser_actions/unwrap/param(generator).types", INV,
     "called only for the Default builder (C18-R6), for which ParserGenerator::new sets types = Some"),
    ("<" + P + "generator::base::BasePartGenerator as *>::builder/unwrap/upvar(generator).types", INV, "Default-builder-only code (early return otherwise)"),
    ("<" + P + "generator::base::BasePartGenerator as *>::builder/unwrap/Vec::pop*", INV, "pop() of a vector built with repeat_n(.., n >= 1)"),
    ("<" + P + "generator::base::BasePartGenerator as *>::builder/index/*", INV, "typed index / production_rn_lengths has one entry per production"),
    ("<" + P + "generator::base::BasePartGenerator as *>::delegate/unimplemented/*", INV, "BasePartGenerator overrides every PartGenerator method that would call delegate() (C16-R7)"),
    ("<" + P + "generator::base::BasePartGenerator as *>::lexer_definition/panic/*", INV,
     "generate_parser returns Err for any terminal without recogniser under the default lexer, for every terminal (C16-R5)"),
    ("<" + P + "generator::functions::FunctionPartGenerator as *>::parser_definition/unwrap/*", INV, "gotos filtered to Some before unwrap"),
    ("<" + P + "generator::functions::FunctionPartGenerator as *>::parser_definition/index/*", INV, "typed index"),
    ("<" + P + "generator::*PartGenerator as *>::parser_definition/overflow-sub/*", INV, "max over the same collection minus one element's length"),
    ("<" + P + "generator::actions::production::ProductionActionsGenerator<'_> as *>::nonterminal_*/unreachable/*", INV,
     "nonterminal types are never Terminal; Vec kind implies every choice is Empty | Ref | Struct[1..2 fields] (get_type_kind sets no_match otherwise: C16-R6)"),
    ("<" + P + "generator::actions::production::ProductionActionsGenerator<'_> as *>::nonterminal_actions/index/*", INV, "full-range slice for slice patterns"),
    ("<" + P + "generator::actions::production::ProductionActionsGenerator<'_> as *>::nonterminal_types/unwrap/*", FIND,
     "a symbol whose snake_case form is a Rust keyword (rule `Do` -> field `do`, `Type` -> `type`) passes check_identifier "
     "but Field::parse_named.parse2(..).unwrap() panics in the actions generator (D21)"),
    (P + "grammar::*/index/*", INV, "typed index"),
    (P + "table::*/index/*", INV, "typed index"),
]



GB = "rustemo_compiler::grammar::builder::GrammarBuilder::"
TABLES = ("terminals", "nonterminals", "terminals_matches")

DIAGNOSTICS = [
    # (substring of the message constant, function that must contain it)
    ("Recognizer not defined for terminal", "rustemo_compiler::generator::generate_parser"),
    ("Grammar is not deterministic", "rustemo_compiler::generator::generate_parser"),
    ("Grammar file doesn't exist", "rustemo_compiler::generator::generate_parser"),
    ("First set empty for grammar symbol", "rustemo_compiler::table::LRTable::<'g, 's>::check_empty_sets"),
    ("Priority must be <=99", GB + "collect_terminals"),
    ("is not defined in the terminals section", GB + "desugar_regex"),
    ("is not defined in the 'terminals' section", GB + "resolve_inline_terminals_from_productions"),
    ("Unexisting symbol", GB + "resolve_references"),
    ("Infinite recursion on symbol", GB + "resolve_references"),
    ("as a valid Rust identifier", GB + "check_identifier"),
]


def all_consts(F, f):
    out = []
    fs = [f] + F.all_nested_closures(f)
    for g in fs:
        if not g.has_body():
            continue
        def op(o):
            if isinstance(o, dict) and o.get("k") == "const":
                out.append(o.get("disp", ""))
        for _, _, s in g.stmts():
            rv = s["rv"]
            for k in ("op", "l", "r", "x"):
                op(rv.get(k))
            for o in rv.get("ops", []):
                op(o)
        for _, tt in g.terms():
            if tt["k"] == "call":
                for a in tt["args"]:
                    op(a)
    return out


def r2_diagnostics(F, res):
    rid = res.rule("C16-R2", "every diagnostic of the compiler is still produced as an error value by the function that "
                   "checks for the problem, and that function returns Result", floor=9)
    for msg, fn in DIAGNOSTICS:
        f = F.fn(fn)
        if f is None:
            res.violation(rid, "diagnostic/" + msg, "function %s that reports `%s` no longer exists" % (fn, msg))
            continue
        consts = " ".join(all_consts(F, f)).replace("\\n", " ")
        norm = lambda s: " ".join(s.replace("\\", "").replace("\"", "").replace("'", "").split())
        if norm(msg) in norm(consts) and "Result<" in f.d.get("ret", ""):
            res.ok(rid, "diagnostic/" + msg, f.loc(), "returned as Err by %s" % fn.split("::")[-1])
        else:
            res.violation(rid, "diagnostic/" + msg, "the diagnostic `%s` is no longer produced as an error value in %s "
                          "(check dropped or turned into a panic)" % (msg, fn), f.loc())
    # callers propagate: no unwrap/expect on a Result of the compiler's own fallible functions
    rid2 = res.rule("C16-R2b", "results of the compiler's fallible functions are propagated (no unwrap/expect on them)", floor=1)
    n = 0
    for f in F.fns.values():
        if f.crate not in CRATES or not f.has_body() or "rustemo_compiler::lang::rustemo::" in f.path:
            continue
        tb = None
        for b, tt in f.calls():
            c = callee(tt)
            if mir.strip_generics(c) in ("core::result::Result::unwrap", "core::result::Result::expect"):
                tb = tb or mir.TermBuilder(f, F)
                r = tb.operand(tt["args"][0])
                n += 1
                if isinstance(r, tuple) and r[0] == "call" and r[1].startswith("rustemo_compiler::") and \
                        "rustemo_actions" not in r[1]:
                    res.violation(rid2, "%s/%s" % (f.path.split("::{closure")[0], mir.short(r[1])),
                                  "the error returned by %s is unwrapped in %s (a diagnostic becomes a panic)" % (
                                      mir.short(r[1]), f.path), "%s:%s" % (f.file, tt["line"]))
    res.ok(rid2, "unwrap-on-own-results", None, "%d Result::unwrap/expect call(s) inspected" % n)


def r3_symbol_tables(F, res):
    rid = res.rule("C16-R3", "every insert into the builder's symbol tables (terminals, nonterminals, terminals_matches) is "
                   "guarded by !contains_key on the same key or inspects insert()'s result", floor=6)
    for f in F.find("^" + GB.replace(":", r"\:")):
        if not f.has_body():
            continue
        tb = mir.TermBuilder(f, F)
        root = f.path.split("::{closure")[0][len(GB):]
        for b, tt in f.calls():
            c = callee(tt)
            if not (("BTreeMap" in c and c.endswith("::insert")) or
                    ("btree::map::entry::Entry" in c and (c.endswith("::or_insert_with") or c.endswith("::or_insert")))):
                continue
            recv = tb.operand(tt["args"][0])
            tname = [x[2] for x in mir.walk(recv) if isinstance(x, tuple) and x[0] == "field" and x[2] in TABLES
                     and str(x[3]).endswith("GrammarBuilder")]
            if not tname:
                continue
            tname = tname[0]
            where = "%s:%s" % (f.file, tt["line"])
            key = "%s/%s" % (root, tname)
            if c.endswith("::insert"):
                keyterm = tb.operand(tt["args"][1])
                guarded = False
                for (op, vals, d, sw) in census.dominating_guards(f, b, tb):
                    base, nots = census.strip_not(op)
                    if isinstance(base, tuple) and base[0] == "call" and base[1].endswith("::contains_key") \
                            and not census.edge_true(vals, nots):
                        guarded = True
                # result inspected?
                dst = tt["dst"]
                used = False
                if not dst["proj"]:
                    for i2, j2, s2 in f.stmts():
                        rv = s2["rv"]
                        if rv["k"] == "discr" and rv["p"]["l"] == dst["l"]:
                            used = True
                if guarded or used:
                    res.ok(rid, key, where, "guarded" if guarded else "result inspected")
                elif root in ("try_from_file", "extract_productions_and_symbols") and \
                        mir.const_str(keyterm if keyterm[0] == "const" else (keyterm[2][0] if keyterm[0] == "call" and keyterm[2] else keyterm)) in ("STOP", "EMPTY"):
                    res.ok(rid, key + "/first", where, "first insert into the still empty table")
                elif root in ("create_optional", "create_one", "create_zero"):
                    # guard is at the call sites
                    ok = True
                    ncalls = 0
                    for g in F.find("^" + GB.replace(":", r"\:") + "desugar_regex"):
                        tbg = mir.TermBuilder(g, F)
                        for b2, t2 in g.calls():
                            if callee(t2) == GB + root:
                                ncalls += 1
                                name_arg = tbg.operand(t2["args"][1])
                                okc = False
                                for (op, vals, d, sw) in census.dominating_guards(g, b2, tbg):
                                    base, nots = census.strip_not(op)
                                    if isinstance(base, tuple) and base[0] == "call" and base[1].endswith("::contains_key") \
                                            and not census.edge_true(vals, nots) and base[2][1] == name_arg:
                                        okc = True
                                if not okc:
                                    ok = False
                                    res.violation(rid, key + "/caller", "%s is called without a dominating "
                                                  "!nonterminals.contains_key(name) on the same name: an existing helper "
                                                  "nonterminal is overwritten and its index orphaned" % root,
                                                  "%s:%s" % (g.file, t2["line"]))
                    if ok and ncalls:
                        res.ok(rid, key, where, "%d call site(s), each under !contains_key(name)" % ncalls)
                    elif not ncalls:
                        res.anchor_lost(rid, "no call site of %s found" % root, where)
                else:
                    res.violation(rid, key, "%s: insert into `%s` may silently overwrite an existing definition of the same "
                                  "name after an index was already allocated (no contains_key guard, result ignored)" % (root, tname), where)
            else:
                # entry().or_insert_with: an existing nonterminal is reused without a diagnostic
                res.violation(rid, key + "/entry", "%s: an existing nonterminal of the same name is reused without a "
                              "diagnostic (duplicate rule definition: ntidx restarts, ProdKind variants collide)" % root, where)


def r2c_resolution_complete(F, res, rid="C16-R2"):
    """The resolution passes look at every production before they answer Ok: the loop over `self.productions` dominates every
    return (no shortcut that skips the diagnosis of what the later passes unwrap)."""
    res.rule(rid, "", 0)
    from . import tbl
    for fn in ("resolve_inline_terminals_from_productions", "resolve_references"):
        f = F.fn(GB + fn)
        if f is None or not f.has_body():
            res.anchor_lost(rid, fn + " not found")
            continue
        tb = mir.TermBuilder(f, F)
        loops = tbl.loops_of(f)
        heads = []
        for h, body in loops.items():
            # the loop header calls next() on an iterator over self.productions
            for b in body | {h}:
                tm = f.blocks[b]["term"]
                if tm["k"] == "call" and mir.call_matches(callee(tm), "Iterator::next") and tm["args"] and \
                        mir.has_field(tb.operand(tm["args"][0]), "productions", "GrammarBuilder"):
                    heads.append(h)
        rets = [i for i, b in enumerate(f.blocks) if b["term"]["k"] == "return"]
        if not heads or not rets:
            res.anchor_lost(rid, "%s: loop over self.productions not recognised" % fn, f.loc())
            continue
        outer = max(heads, key=lambda h: len(loops[h]))
        if all(f.dominates(outer, r) for r in rets):
            res.ok(rid, "pass-complete/" + fn, f.loc(), "every return is behind the loop over the productions")
        else:
            res.violation(rid, "pass-complete/" + fn, "%s can return without having looked at the productions: what it would have "
                          "diagnosed reaches the later passes unresolved (unwrap of a missing index)" % fn, f.loc())


def r8_types_iff_default(F, res):
    """Backs the `generator.types.as_ref().unwrap()` sites of the default-builder code: the AST types are deduced whenever the
    builder type is Default - under no further condition."""
    rid = res.rule("C16-R8", "ParserGenerator::new deduces the AST types iff builder_type == Default (the default-builder generator "
                   "unwraps them)", floor=1)
    f = F.fn("rustemo_compiler::generator::ParserGenerator::<'g, 's>::new")
    if f is None or not f.has_body():
        res.anchor_lost(rid, "ParserGenerator::new not found")
        return
    rows = set()
    for p in Sim(f, F, max_paths=100000).run():
        if p.end != "return":
            continue
        r = [e[1] for e in p.events if e[0] == "return"][0]
        if not (r[0] == "agg" and r[1].endswith("Ok")):
            continue
        s = dict(r[2]).get("0")
        ty = dict(s[2]).get("types") if isinstance(s, tuple) and s[0] == "agg" else None
        if not (isinstance(ty, tuple) and ty[0] == "agg"):
            continue
        bt = [v for tm, v in p.cond if tm[0] == "discr" and mir.has_field(tm[1], "builder_type", "Settings")]
        isdef = None
        if bt and isinstance(bt[-1], frozenset):
            isdef = True if bt[-1] == frozenset(["Default"]) else (False if "Default" not in bt[-1] else None)
        rows.add((isdef, ty[1].rsplit("::", 1)[-1]))
    if not rows or any(r[0] is None for r in rows):
        res.anchor_lost(rid, "decision on builder_type in ParserGenerator::new not recognised (%s)" % sorted(rows, key=str), f.loc())
    elif rows == {(True, "Some"), (False, "None")}:
        res.ok(rid, "types-iff-default", f.loc(), "types: Some iff BuilderType::Default")
    else:
        res.violation(rid, "types-iff-default", "ParserGenerator::new: with the default builder the AST types can be left out (%s): the "
                      "generator of the default builder unwraps them and panics" % sorted(rows, key=str), f.loc())


def r3b_dense_indices(F, res, rid="C16-R3"):
    """Index allocation in the rule loop: a nonterminal index is drawn only when the rule's name has none yet (the typed vectors
    that are indexed with it have exactly one slot per index: C16-R1 class `typed index`)."""
    res.rule(rid, "", 0)
    f = F.fn(GB + "extract_productions_and_symbols")
    if f is None or not f.has_body():
        res.anchor_lost(rid, "extract_productions_and_symbols not found")
        return
    seen = False
    bad = None
    # the rule loop: the outermost loop that contains a call of get_nonterm_idx (the implicit EMPTY/AUG symbols are created
    # before it, unconditionally, into the still empty table)
    from . import tbl
    loops = tbl.loops_of(f)
    alloc_blocks = [b for b, t2 in f.calls() if callee(t2) == GB + "get_nonterm_idx"]
    cand = sorted([(h, body) for h, body in loops.items() if any(b in body for b in alloc_blocks)], key=lambda kv: -len(kv[1]))
    if not cand:
        res.anchor_lost(rid, "allocation of the nonterminal index in the rule loop not recognised", f.loc())
        return
    header = cand[0][0]
    for p in Sim(f, F, max_paths=300000).run(entry=header):
        lookups = []      # (value) of `nonterminals.get(name)` / contains_key(name) decisions met so far
        for e in p.events:
            if e[0] == "cond":
                tm, v = e[1], e[2]
                if tm[0] == "discr" and mir.has_call(tm[1], "::get") and mir.has_field(tm[1], "nonterminals", "GrammarBuilder"):
                    lookups.append("present" if v == frozenset(["Some"]) else "absent" if v == frozenset(["None"]) else "?")
                elif is_call_sub(tm, "::contains_key") and mir.has_field(tm, "nonterminals", "GrammarBuilder") and v in (0, 1):
                    lookups.append("present" if v == 1 else "absent")
            elif e[0] == "call" and e[1] == GB + "get_nonterm_idx":
                seen = True
                # drawn only after the name was looked up and found absent (an unconditional or "present" allocation burns an
                # index per repeated rule name)
                if not lookups or lookups[-1] != "absent":
                    bad = "%s:%s" % (f.file, e[3])
    if not seen:
        res.anchor_lost(rid, "allocation of the nonterminal index in the rule loop not recognised", f.loc())
    elif bad:
        res.violation(rid, "extract_productions_and_symbols/index-allocation", "a nonterminal index is drawn for a rule whose name "
                      "already has one: indices stop being dense and the typed vectors indexed by them are too short", bad)
    else:
        res.ok(rid, "extract_productions_and_symbols/index-allocation", f.loc(), "get_nonterm_idx() only on the lookup-miss edge")


def roots_of(t):
    return {x for x in mir.walk(t) if isinstance(x, tuple) and x[0] in ("param", "var", "upvar")} | \
           {("call", x[1]) for x in mir.calls_in(t) if x[1].startswith("rustemo_compiler::")}


def r4_identifiers(F, res):
    rid = res.rule("C16-R4", "every grammar-text name that becomes a Rust identifier in generated code is validated by "
                   "check_identifier first (terminal, rule and assignment names; production kind)", floor=4)
    checks = []   # (function root, arg term)
    for f in F.find("^" + GB.replace(":", r"\:")):
        if not f.has_body():
            continue
        tb = mir.TermBuilder(f, F)
        for b, tt in f.calls():
            if callee(tt) == GB + "check_identifier":
                checks.append((f.path.split("::{closure")[0], tb.operand(tt["args"][1])))
    def checked(fnroot, pred):
        return any(r == fnroot and pred(a) for r, a in checks)
    ct = GB + "collect_terminals"
    ep = GB + "extract_productions_and_symbols"
    sinks = [
        ("Terminal.name", ct, lambda a: mir.has_field(a, "name", "TerminalRule")),
        ("NonTerminal.name (rule)", ep, lambda a: mir.has_field(a, "name", "GrammarRule")),
        ("assignment name", ep, lambda a: mir.has_field(a, "name", "PlainAssignment") or mir.has_field(a, "name")
         and mir.contains(a, lambda x: isinstance(x, tuple) and x[0] == "var" and x[1] == "assign")),
        ("Production.kind", ep, lambda a: mir.contains(a, lambda x: mir.const_str(x) == "kind")),
    ]
    for name, fn, pred in sinks:
        if checked(fn, pred):
            res.ok(rid, "sink/" + name, None, "check_identifier on the same source in %s" % fn.split("::")[-1])
        else:
            res.violation(rid, "sink/" + name, "%s comes from grammar text and reaches format_ident!/parse_quote! without "
                          "check_identifier (a kind such as `My.Kind` or `Self` panics in the generator)" % name,
                          F.fn(fn).loc() if F.fn(fn) else None)


def r4b_check_identifier(F, res, rid="C16-R4"):
    """check_identifier itself: the text handed to the Rust identifier parser is the whole name, and a parse error is
    answered with Err"""
    res.rule(rid, "", 0)
    f = F.fn(GB + "check_identifier")
    if f is None or not f.has_body():
        res.anchor_lost(rid, "check_identifier not found")
        return
    parsed = None
    err_on_fail = ok_on_fail = False
    for p in Sim(f, F).run():
        for e in p.events:
            if e[0] == "call" and ("syn::parse_str" in e[1] or "parse_str" in e[1].rsplit("::", 2)[-2:][0] or e[1].endswith("parse_str")) and e[2]:
                parsed = e[2][0]
        r = [e[1] for e in p.events if e[0] == "return"]
        failed = any(tm[0] == "discr" and has_call(tm[1], "parse_str") and v == frozenset(["Err"]) for tm, v in p.cond) or \
            any(is_call_sub(tm, "is_err") and v == 1 for tm, v in p.cond) or any(is_call_sub(tm, "is_ok") and v == 0 for tm, v in p.cond)
        if failed and r and isinstance(r[0], tuple):
            # `err!(..)?`: the residual of the `?` is the Err answer (its Continue edge is not a real path)
            if (r[0][0] == "agg" and r[0][1].endswith("Err")) or (r[0][0] == "call" and "FromResidual" in r[0][1]):
                err_on_fail = True
            elif r[0][0] == "agg" and r[0][1].endswith("Ok"):
                ok_on_fail = True
    if parsed is None:
        res.anchor_lost(rid, "check_identifier: call of syn::parse_str not recognised", f.loc())
        return
    whole = parsed == ("param", "name") or (isinstance(parsed, tuple) and parsed[0] == "field" and parsed[1] == ("param", "name"))
    extra = sorted({mir.short(c[1]) for c in mir.calls_in(parsed)})
    if whole and not extra:
        res.ok(rid, "check-identifier/whole-name", f.loc(), "syn::parse_str::<Ident>(name)")
    else:
        res.violation(rid, "check-identifier/whole-name", "check_identifier validates %s instead of the whole name (%s): a name with an "
                      "unchecked part reaches format_ident! and panics the generator" % (fmt(parsed)[:100], ", ".join(extra) or "derived text"), f.loc())
    if err_on_fail:
        res.ok(rid, "check-identifier/answer", f.loc(), "parse error => Err")
    elif ok_on_fail:
        res.violation(rid, "check-identifier/answer", "check_identifier returns Ok for a name that is not a Rust identifier", f.loc())


def is_call_sub(t, sub):
    return isinstance(t, tuple) and t[0] == "call" and sub in t[1]


def has_call(t, sub):
    return mir.has_call(t, sub)


def r5_recognizer_pairing(F, res):
    rid = res.rule("C16-R5", "the recogniser-presence check covers every terminal (unfiltered) under the default lexer - it "
                   "backs the panic!(\"Undefined recognizer\") in lexer_definition", floor=1)
    f = F.fn("rustemo_compiler::generator::generate_parser")
    if f is None:
        res.anchor_lost(rid, "generate_parser not found")
        return
    found = False
    for p in Sim(f, F, max_paths=200000).run():
        if p.end != "return":
            continue
        cds = p.cond
        rec = [(t, v) for t, v in cds if t[0] == "discr" and mir.has_field(t[1], "recognizer", "Terminal")]
        rec2 = [(t, v) for t, v in cds if t[0] == "call" and t[1].endswith("::is_none") and mir.has_field(t, "recognizer", "Terminal")]
        if rec and rec[-1][1] == frozenset(["None"]):
            pass
        elif rec2 and rec2[-1][1] == 1:
            rec = rec2
        else:
            continue
        found = True
        t = rec[-1][0]
        # the iterator the terminal comes from
        nexts = [x for x in mir.calls_in(t) if x[1].endswith("Iterator>::next")]
        it = nexts[0][2][0] if nexts else None
        adaptors = [mir.short(x[1]) for x in mir.calls_in(it)] if it else ["?"]
        bad = [a for a in adaptors if any(k in a for k in ("filter", "skip", "take", "step_by", "rev"))]
        lex = [(tt, v) for tt, v in cds if tt[0] == "discr" and mir.has_field(tt[1], "lexer_type", "Settings")]
        if bad:
            res.violation(rid, "terminal-iteration", "the recogniser-presence check skips terminals (%s): a terminal without "
                          "recogniser that the check does not see panics later in lexer_definition" % ", ".join(bad), f.loc())
        elif not (it and mir.has_field(it, "terminals", "Grammar")):
            res.violation(rid, "terminal-iteration", "the recogniser-presence check does not iterate grammar.terminals: %s" % (
                fmt(it)[:120] if it else "?"), f.loc())
        elif not lex or lex[-1][1] != frozenset(["Default"]):
            res.violation(rid, "lexer-type", "the recogniser-presence check is not under lexer_type == Default", f.loc())
        else:
            res.ok(rid, "terminal-iteration", f.loc(), "for term in &grammar.terminals, under LexerType::Default")
        break
    if not found:
        # second spelling: grammar.terminals.iter().find/any/position(|t| .. t.recognizer.is_none()) answered with an Err
        for p in Sim(f, F, max_paths=200000).run():
            if p.end != "return":
                continue
            for e in p.events:
                if e[0] != "call" or not any(mir.call_matches(e[1], "Iterator::" + m) for m in ("find", "any", "position", "find_map")):
                    continue
                src, clo = e[2][0], (e[2][1] if len(e[2]) > 1 else None)
                if not (isinstance(clo, tuple) and clo[0] == "closure" and clo[1] in F.fns):
                    continue
                g = F.fns[clo[1]]
                looks = any(mir.has_field(tm, "recognizer", "Terminal") for q in Sim(g, F).run()
                            for tm in [c[0] for c in q.cond] + [e2[1] for e2 in q.events if e2[0] == "return"])
                if not looks:
                    continue
                found = True
                bad = [mir.short(x[1]) for x in mir.calls_in(src) if any(k in x[1] for k in ("filter", "skip", "take", "step_by", "rev"))]
                lex = [(tt, v) for tt, v in p.cond if tt[0] == "discr" and mir.has_field(tt[1], "lexer_type", "Settings")]
                if bad:
                    res.violation(rid, "terminal-iteration", "the recogniser-presence check skips terminals (%s)" % ", ".join(bad), f.loc())
                elif not mir.has_field(src, "terminals", "Grammar"):
                    res.violation(rid, "terminal-iteration", "the recogniser-presence check does not iterate grammar.terminals: %s" % fmt(src)[:120], f.loc())
                elif not lex or lex[-1][1] != frozenset(["Default"]):
                    res.violation(rid, "lexer-type", "the recogniser-presence check is not under lexer_type == Default", f.loc())
                else:
                    res.ok(rid, "terminal-iteration", f.loc(), "grammar.terminals.iter().find(no recogniser), under LexerType::Default")
                break
            if found:
                break
    if not found:
        res.violation(rid, "check-missing", "generate_parser has no path that rejects a terminal without recogniser", f.loc())


def r6_no_match(F, res):
    rid = res.rule("C16-R6", "get_type_kind marks `no_match` for every choice that the Vec action templates cannot handle "
                   "(Plain, Struct with other than 1..2 fields) - it backs unreachable!() in production.rs", floor=2)
    f = F.one(r"^rustemo_compiler::grammar::types::SymbolTypes::get_type_kind$")
    paths = Sim(f, F, max_paths=200000).run()
    seen = {}
    for p in paths:
        kind = None
        nfields = None
        marked = False
        for e in p.events:
            if e[0] == "cond":
                t, v = e[1], e[2]
                if t[0] == "discr" and mir.has_field(t[1], "kind", "Choice") and mir.has_call(t[1], "Iterator>::next") \
                        and isinstance(v, frozenset) and kind is None:
                    kind = v
                if t[0] == "bin" and t[1] == "Eq" and t[3][0] == "const" and kind == frozenset(["Struct"]):
                    nfields = nfields or {}
                    nfields[t[3][1]] = v
            elif e[0] == "store" and isinstance(e[1], tuple) and e[1][0] == "field" and e[1][2] == "no_match":
                if e[2] == ("const", 1):
                    marked = True
            elif e[0] == "backedge":
                break
        if kind == frozenset(["Plain"]):
            seen.setdefault("Plain", []).append(marked)
        if kind == frozenset(["Struct"]) and nfields and all(v == 0 for v in nfields.values()) and set(nfields) >= {1, 2}:
            seen.setdefault("Struct[other]", []).append(marked)
    for k in ("Plain", "Struct[other]"):
        vs = seen.get(k)
        if not vs:
            res.anchor_lost(rid, "no path for choice kind %s in get_type_kind" % k, f.loc())
        elif all(vs):
            res.ok(rid, "no_match/" + k, f.loc(), "%d path(s), all set no_match" % len(vs))
        else:
            res.violation(rid, "no_match/" + k, "a %s choice does not set no_match: a @vec rule with such a choice gets the "
                          "Vec type and reaches unreachable!() in the actions generator" % k, f.loc())


def r7_delegate(F, res):
    rid = res.rule("C16-R7", "BasePartGenerator overrides every PartGenerator method (delegate() is unimplemented!())", floor=1)
    trait = None
    for c in F.crates:
        for tr in c.traits:
            if tr["path"] == "rustemo_compiler::generator::PartGenerator":
                trait = tr
    if trait is None:
        res.anchor_lost(rid, "trait PartGenerator not found")
        return
    impl = None
    for c in F.crates:
        for im in c.impls:
            if im.get("trait") == "rustemo_compiler::generator::PartGenerator" and "BasePartGenerator" in im["self_ty"]:
                impl = im
    if impl is None:
        res.anchor_lost(rid, "impl PartGenerator for BasePartGenerator not found")
        return
    have = {i["name"] for i in impl["items"]}
    others = []
    for c in F.crates:
        for im in c.impls:
            if im.get("trait") == "rustemo_compiler::generator::PartGenerator" and "BasePartGenerator" not in im["self_ty"]:
                others.append({i["name"] for i in im["items"]})
    # a method Base does not override must be overridden by every other implementation (they delegate the rest to Base)
    missing = [i["name"] for i in trait["items"] if i["has_default"] and i["name"] not in have
               and not (others and all(i["name"] in o for o in others))]
    if missing:
        res.violation(rid, "overrides", "BasePartGenerator does not override %s: the default calls delegate(), which is "
                      "unimplemented!()" % missing)
    else:
        res.ok(rid, "overrides", None, "%d methods overridden" % len(have))


def run(ctx, res):
    F = ctx.facts("core")
    rid = res.rule("C16-R1", "may-panic census of the compiler: every panic-capable construct reachable from the entry "
                   "points is class-discharged, mechanically discharged, a triaged invariant, or a listed finding", floor=100)
    triage = census.load_triage("panic_compiler.json")
    stats, stale, fns = census.run_census(F, res, rid, CRATES, roots(F), triage, CLASS_RULES, "C16")
    for k in stale:
        res.notes.append("triage row no longer matches any site: " + k)
    r2_diagnostics(F, res)
    r2c_resolution_complete(F, res)
    r3_symbol_tables(F, res)
    r3b_dense_indices(F, res)
    r4_identifiers(F, res)
    r4b_check_identifier(F, res)
    r5_recognizer_pairing(F, res)
    r6_no_match(F, res)
    r7_delegate(F, res)
    r8_types_iff_default(F, res)
    res.extra.update({"obligations": stats["sites"], "discharged": stats["sites"] - stats["new"] - stats["finding"],
                      "census": stats, "stale_triage_rows": len(stale)})
    res.explanation = (
        "May-panic census over the MIR of rustemo_compiler and rcomp from the entry points (process_grammar, process_dir, "
        "generate_parser, rcomp::main; class-hierarchy resolution of dyn/trait calls, std-trait impls as roots): Assert "
        "terminators, unwrap/expect, panic!/assert!/unreachable!/todo!, indexing and slicing, RefCell borrows, panicking "
        "Vec/str operations, format_ident!/parse_quote!. Sites are discharged by class (typed index newtypes, counters, "
        "trace, generated bootstrapped parser, quote templates), by a dominating guard, or by an exact row of the audited "
        "triage table; reproduced panics are listed findings. Backing rules: diagnostics still produced as Err values "
        "(R2), symbol-table inserts guarded (R3), identifier validation before format_ident (R4), recogniser check covers "
        "every terminal (R5), get_type_kind marks no_match (R6), BasePartGenerator overrides (R7). Not decided: "
        "termination of table construction, recursion depth of dfs/mark_reachable.")
    res.assumptions = ["invariant rows of rules/tables/panic_compiler.json are human judgements listed with reasons",
                       "panics inside third-party crates (syn, prettyplease, clap) are out of scope"]
