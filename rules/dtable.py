"""Finite decision tables (family F4) on top of the path simulator.

A table is extracted from the paths of a region: every branch condition met on
a path must be recognised by a classifier, either as a *context* condition
(with the value that selects the situation the table is about) or as an *atom*
of the decision. The result maps every valuation of the atoms to the outcome of
the (unique) consistent path and is compared with a spec function."""
import itertools

from . import mir


class Atom:
    def __init__(self, name, pred, domain, norm=None):
        """norm(term, value) -> value in `domain`: lets one atom be read off differently spelled conditions"""
        self.name = name
        self.pred = pred
        self.domain = list(domain)
        self.norm = norm


class Context:
    def __init__(self, name, pred, required=None, drop=None):
        """required: value (or set of values) the path must have to be part of
        the table; paths with another value are outside the situation."""
        self.name = name
        self.pred = pred
        self.required = required


def _vals(v):
    if isinstance(v, frozenset):
        return set(v)
    return {v}


class Table:
    def __init__(self, atoms, contexts, outcome):
        self.atoms = atoms
        self.contexts = contexts
        self.outcome = outcome
        self.rows = []        # (assign: {atom: set(values)}, outcome, path)
        self.unknown = []     # (term, path)

    def build(self, paths):
        for p in paths:
            assign = {}
            keep = True
            unknown = []
            for term, val in p.cond:
                hit = None
                for c in self.contexts:
                    if c.pred(term):
                        hit = c
                        break
                if hit is not None:
                    if hit.required is not None:
                        req = hit.required if isinstance(hit.required, (set, frozenset, list, tuple)) else {hit.required}
                        if not (_vals(val) & set(req)):
                            keep = False
                            break
                    continue
                a = None
                for at in self.atoms:
                    if at.pred(term):
                        a = at
                        break
                if a is None:
                    unknown.append(term)
                    continue
                vs = _vals(val)
                if a.norm is not None:
                    vs = {a.norm(term, x) for x in vs}
                if a.name in assign:
                    vs = assign[a.name] & vs
                    if not vs:
                        keep = False
                        break
                assign[a.name] = vs
            if not keep:
                continue
            for u in unknown:
                self.unknown.append((u, p))
            self.rows.append((assign, self.outcome(p), p))
        return self

    def lookup(self, valuation):
        """outcomes of all rows consistent with a full valuation."""
        outs = []
        for assign, out, p in self.rows:
            if all(valuation[k] in vs for k, vs in assign.items()):
                outs.append((out, p))
        return outs

    def valuations(self):
        names = [a.name for a in self.atoms]
        for combo in itertools.product(*[a.domain for a in self.atoms]):
            yield dict(zip(names, combo))

    def compare(self, spec, res, rid, key_prefix, where, describe=None):
        """spec(valuation) -> expected outcome or None (don't care)."""
        n = 0
        bad = 0
        examples = []
        for v in self.valuations():
            exp = spec(v)
            if exp is None:
                continue
            n += 1
            outs = self.lookup(v)
            distinct = {o for o, _ in outs}
            if isinstance(exp, (set, frozenset)):
                # several outcomes are as good as each other in this situation
                if distinct and distinct <= set(exp):
                    continue
                exp = " | ".join(sorted(exp))
            elif len(distinct) == 1 and next(iter(distinct)) == exp:
                continue
            bad += 1
            if len(examples) < 6:
                examples.append({"valuation": v, "expected": exp, "extracted": sorted(map(str, distinct)) or ["<no path>"],
                                 "line": (outs[0][1].events[-1][3] if outs and outs[0][1].events and len(outs[0][1].events[-1]) > 3 else None)})
        if bad:
            res.violation(rid, key_prefix + "/table",
                          "%d of %d rows of the decision table differ from the documented table" % (bad, n),
                          where, examples)
        else:
            res.ok(rid, key_prefix + "/table", where, "%d rows, all as documented" % n)
        return n, bad


def has_field(name, adt_suffix=None):
    def pred(t):
        return mir.contains(t, lambda x: isinstance(x, tuple) and x[0] == "field" and x[2] == name and (
            adt_suffix is None or str(x[3]).endswith(adt_suffix)))
    return pred


def top_field(t):
    """(name, adt) when the term is a plain field read (possibly under Not)."""
    while isinstance(t, tuple) and t[0] == "un" and t[1] == "Not":
        t = t[2]
    if isinstance(t, tuple) and t[0] == "field":
        return t[2], t[3]
    return None


def is_field(name, adt_suffix):
    def pred(t):
        tf = top_field(t)
        return tf is not None and tf[0] == name and str(tf[1]).endswith(adt_suffix)
    return pred


def is_discr_of_field(name, adt_suffix):
    def pred(t):
        return isinstance(t, tuple) and t[0] == "discr" and top_field(t[1]) is not None and \
            top_field(t[1])[0] == name and str(top_field(t[1])[1]).endswith(adt_suffix)
    return pred


def is_call(sub, arg_pred=None, argi=0):
    def pred(t):
        if isinstance(t, tuple) and t[0] == "discr":
            t = t[1]
        if not (isinstance(t, tuple) and t[0] == "call" and sub in t[1]):
            return False
        if arg_pred is None:
            return True
        return len(t[2]) > argi and arg_pred(t[2][argi])
    return pred


def is_bin(op, l_pred=None, r_pred=None):
    def pred(t):
        if not (isinstance(t, tuple) and t[0] == "bin" and t[1] == op):
            return False
        return (l_pred is None or l_pred(t[2])) and (r_pred is None or r_pred(t[3]))
    return pred
