"""C02 - every successful LR parse yields a valid derivation tree of the consumed input."""
import re
from . import mir, rt, c05, idiom
from .mir import Sim, TermBuilder, callee, fmt

LEVEL = "other"


def r1_reduce_cells(F, res):
    rid = res.rule("C02-R1", "every Reduce(prod, len) put in the table is (item.prod, item.position) of one reducing item; "
                   "is_reducing table: at end, or right-nulled at/after rn_len", floor=2)
    f = F.one(r"^rustemo_compiler::table::LRTable::<'g, 's>::calculate_reductions$")
    n = 0
    for p in Sim(f, F).run():
        for e in p.events:
            if e[0] == "set" and e[1] == "new_reduce":
                n += 1
                v = e[2]
                if v[0] == "agg" and v[1].endswith("Action::Reduce"):
                    d = dict(v[2])
                    a, b = d["0"], d["1"]
                    ok = a[0] == "field" and a[2] == "prod" and b[0] == "field" and b[2] == "position" and a[1] == b[1] \
                        and mir.has_call(a[1], "Iterator::filter") and mir.has_field(a[1], "items", "LRState")
                    if ok:
                        res.ok(rid, "reduce-aggregate", f.loc(), "Reduce(item.prod, item.position), item from state.items filtered by is_reducing")
                    else:
                        res.violation(rid, "reduce-aggregate", "the table's Reduce action is built from %s / %s, expected (item.prod, "
                                      "item.position) of the same reducing item" % (fmt(a)[:100], fmt(b)[:100]), f.loc())
                    # the filter closure is is_reducing
                    flt = [c for c in mir.calls_in(a[1]) if c[1].endswith("Iterator::filter")]
                    if flt and flt[0][2][1][0] == "closure":
                        g = F.fn(flt[0][2][1][1])
                        cs = {callee(t) for _, t in g.calls()} if g else set()
                        if any(c.endswith("LRItem::is_reducing") for c in cs) and len([c for c in cs if "rustemo_compiler" in c]) == 1 \
                                and idiom.predicate_is(F, g, "LRItem::is_reducing"):
                            res.ok(rid, "reducing-filter", f.loc(), "filter(|x| x.is_reducing())")
                        else:
                            res.violation(rid, "reducing-filter", "reducing items are selected by %s" % sorted(mir.short(c) for c in cs), f.loc())
                break
        if n:
            break
    if not n:
        res.anchor_lost(rid, "construction of the Reduce action not found", f.loc())
    # is_reducing decision table
    g = F.one(r"^rustemo_compiler::table::LRItem::is_reducing$")
    rows = set()
    for p in Sim(g, F).run():
        c = {}
        for t, v in p.cond:
            if t[0] == "bin" and t[1] == "Eq" and mir.has_field(t[2], "position") and mir.has_field(t[3], "prod_len"):
                c["at_end"] = v
            elif t[0] == "discr" and mir.has_field(t[1], "rn_len"):
                c["rn"] = rt.val(v)
            else:
                c["?"] = fmt(t)[:60]
        ret = [e[1] for e in p.events if e[0] == "return"][0]
        rows.add((c.get("at_end"), c.get("rn"), fmt(ret)))
    exp = {(1, None, "1"), (0, "None", "0"), (0, "Some", "Ge(param(self).position, (param(self).rn_len as Some).0)")}
    if rows == exp:
        res.ok(rid, "is_reducing-table", g.loc(), "true iff position == prod_len, or rn_len is Some and position >= rn_len")
    else:
        res.violation(rid, "is_reducing-table", "is_reducing decision table is %s, expected %s" % (sorted(rows, key=str), sorted(exp, key=str)), g.loc())


def r2_cell_mutators(F, res):
    rid = res.rule("C02-R2", "action cells are only mutated by push(new_reduce | Accept | Shift(target)), pop and retain "
                   "(resolution only removes or adds the candidate)", floor=8)
    allowed = {"push", "pop", "retain", "len", "is_empty", "clone", "iter", "into_iter", "first", "last"}
    for rx in (r"^rustemo_compiler::table::LRTable::<'g, 's>::calculate_reductions$", r"^rustemo_compiler::table::LRTable::<'g, 's>::calc_states$"):
        f = F.one(rx)
        tb = TermBuilder(f, F)
        for b, t in f.calls():
            c = callee(t)
            if not t["args"]:
                continue
            recv = tb.operand(t["args"][0])
            if not c05.actions_cell(recv):
                continue
            m = mir.strip_generics(c).rsplit("::", 1)[-1]
            where = "%s:%s" % (f.file, t["line"])
            key = "%s/%s" % (f.path.rsplit("::", 1)[-1], m)
            if "alloc::vec::Vec" not in c and "Clone" not in c and "Deref" not in c and "slice" not in c:
                continue
            # a call that gets the cell by shared reference cannot change it: reads are not this rule's business
            a0 = t["args"][0]
            pl = a0.get("p") if isinstance(a0, dict) else None
            if pl is not None and not pl.get("proj") and "locals" in f.d and pl.get("l") is not None:
                ty = f.d["locals"][pl["l"]]["ty"]
                if ty.startswith("&") and not re.match(r"^&('\w+ )?mut ", ty):
                    continue
            if m in allowed:
                if m == "push":
                    a = tb.operand(t["args"][1])
                    okv = (a[0] == "agg" and a[1].rsplit("::", 1)[-1] in ("Accept", "Shift")) or \
                        (a[0] == "var" and a[1] == "new_reduce") or mir.contains(a, lambda x: isinstance(x, tuple) and x[0] == "agg" and x[1].endswith("Action::Reduce"))
                    if not okv:
                        res.violation(rid, key + "/value", "an action cell receives %s (only the candidate reduction, Accept or the "
                                      "Shift to the successor state may be added)" % fmt(a)[:120], where)
                        continue
                res.ok(rid, key, where)
            else:
                res.violation(rid, key, "an action cell is mutated with Vec::%s (resolution may only push the candidate, pop the "
                              "shift, or retain)" % m, where)


def r4b_result(F, res, rid):
    g = F.one(r"^<rustemo::lr::builder::TreeBuilder<.*> as rustemo::builder::Builder>::get_result$")
    for p in Sim(g, F).run():
        r = [e[1] for e in p.events if e[0] == "return"]
        if not r:
            continue
        t = r[0]
        top = [c for c in mir.calls_in(t) if c[1].endswith("Vec::<T, A>::pop") or c[1].endswith("::last") or c[1].endswith("::last_mut")]
        other = [c for c in mir.calls_in(t) if any(c[1].endswith(x) for x in ("::drain", "::first", "::remove", "::swap_remove", "::into_iter", "::iter"))]
        if top and not other and mir.has_field(t, "res_stack"):
            res.ok(rid, "tree-builder/result", g.loc(), "the result is the top of the builder stack")
        else:
            res.violation(rid, "tree-builder/result", "TreeBuilder::get_result returns %s, not the most recently pushed node (a parser "
                          "object that rejected an input keeps stale nodes below the top)" % fmt(t)[:160], g.loc())
        return
    res.anchor_lost(rid, "TreeBuilder::get_result has no returning path", g.loc())


def r6_stop_recognizer(ctx, res):
    """the generated STOP recogniser matches only at the very end of the input (consumed input = whole input)"""
    from . import gen
    rid = res.rule("C02-R6", "generated recognisers: STOP is recognised iff the remaining input is empty", floor=20)
    for g in gen.load_set(ctx.dir("gen-functions")):
        if g.settings["lexer_type"] != "Default" or g.parse_error:
            continue
        im = g.impl("TokenRecognizerT<", "TokenRecognizer")
        name = (g.name or "").replace("target:", "")
        if im is None:
            res.violation(rid, name + "/missing", "%s: impl TokenRecognizerT for TokenRecognizer not found" % name)
            continue
        f = [x for x in im["items"] if x.get("ident") == "recognize"][0]
        scr, arms = gen.match_arms(f["body"])
        stop = [v for pat, v in (arms or []) if "Recognizer :: Stop" in gen.flat(pat)]
        if not stop:
            res.violation(rid, name + "/stop-arm", "%s: no arm for Recognizer::Stop in recognize()" % name)
            continue
        v = stop[0]
        cond = None
        for i, x in enumerate(v):
            if gen.is_i(x, "if"):
                j = i + 1
                c = []
                while j < len(v) and not gen.is_g(v[j], "{"):
                    c.append(v[j])
                    j += 1
                cond = gen.flat(c).replace(" ", "")
                break
        if cond in ("input.is_empty()", "input.len()==0", "input.len()==0usize"):
            res.ok(rid, name, g.entry.get("parser_file_rel"), "if %s" % cond)
        else:
            res.violation(rid, name + "/stop-condition", "%s: STOP is recognised under `%s`: input can be accepted although part of it "
                          "was not consumed" % (name, cond), g.entry.get("parser_file_rel"))


def r1b_rn_only_for_glr(F, res):
    """Right-nulled reductions pop fewer symbols than the production has. The GLR runtime and its builders know (nulled
    children are filled in), the LR runtime pops `len` stack items and builds a node of a k-symbol production with fewer
    children - not a derivation. The table offers them whenever the table type is LALR_RN; that type has to be tied to the
    GLR algorithm where the lengths are computed (or the combination refused)."""
    rid = res.rule("C02-R1b", "right-nulled reduction lengths are computed only when the parser algorithm is GLR (the LR runtime "
                   "cannot take them)", floor=1)
    try:
        f = F.one(r"^rustemo_compiler::table::LRTable::<'g, 's>::new$")
    except Exception:      # noqa
        res.anchor_lost(rid, "LRTable::new not found")
        return
    n = algo = 0
    for p in Sim(f, F, max_paths=100000).run():
        for i, e in enumerate(p.events):
            if e[0] == "call" and mir.strip_generics(e[1]).endswith("production_rn_lengths"):
                n += 1
                if any(mir.has_field(c[1], "parser_algo") for c in p.events[:i] if c[0] == "cond"):
                    algo += 1
    # a refusal of the combination anywhere in the compiler also does
    refused = False
    for path, h in F.fns.items():
        if h.crate != "rustemo_compiler" or not h.has_body() or not ("settings" in path or "generate_parser" in path):
            continue
        for q in (Sim(h, F, max_paths=20000).run() if len(h.blocks) < 400 else []):
            cs = [c for c in q.events if c[0] == "cond"]
            if any(mir.has_field(c[1], "parser_algo") for c in cs) and any(mir.has_field(c[1], "table_type") for c in cs) and \
                    any(e[0] == "return" and isinstance(e[1], tuple) and e[1][0] == "agg" and e[1][1].endswith("Err") for e in q.events):
                refused = True
    if not n:
        res.anchor_lost(rid, "call of production_rn_lengths not found in LRTable::new", f.loc())
    elif algo == n or refused:
        res.ok(rid, "rn-only-for-glr", f.loc(), "tied to the GLR algorithm" if algo == n else "the combination LR + LALR_RN is refused")
    else:
        res.violation(rid, "rn-only-for-glr", "right-nulled lengths are computed for table type LALR_RN whatever the parser algorithm: "
                      "`rcomp -t lalr-rn` with the LR parser offers Reduce(p, len < |rhs|) and the LR runtime builds `S: A BOpt` with "
                      "one child (and the EMPTY alternative's reduction is silently dropped by `non-empty over empty`)", f.loc())


def run(ctx, res):
    F = ctx.facts("core")
    r1_reduce_cells(F, res)
    r1b_rn_only_for_glr(F, res)
    r2_cell_mutators(F, res)
    rid3 = res.rule("C02-R3", "the LR loop does what the table cell says: pop len -> goto(uncovered state, prod) -> push -> "
                    "reduce_action(prod, len) -> re-lex; shift pushes the action's state and hands the token that selected it "
                    "to the builder; Accept returns the builder result", floor=9)
    rt.lr_driver(F, res, rid3)
    rid4 = res.rule("C02-R4", "parse stack and tree builder pop exactly the given length and keep children in order", floor=5)
    rt.lr_stacks(F, res, rid4)
    rid5 = res.rule("C02-R5", "next_token decision table: a lexer token is always preferred; STOP is synthesised only when "
                    "nothing matched, partial_parse is on and STOP is expected in the current state", floor=1)
    f, rows = rt.lr_next_token_table(F, res, rid5)
    # the expected set used for the STOP decision is that of the current state
    for a, out, p in rows:
        if "_contains" in a:
            t = a["_contains"]
            exp = t[2][0]
            ok = mir.has_call(exp, "ParserDefinition::expected_token_kinds") and mir.has_call(exp, "Context::state")
            stop = t[2][1]
            ok2 = mir.has_call(stop, "Default::default") or (isinstance(stop, tuple) and stop[0] == "call" and "default" in stop[1])
            if ok and ok2:
                res.ok(rid5, "next-token/stop-membership", f.loc(), "expected_token_kinds(context.state()).contains(TK::default())")
            else:
                res.violation(rid5, "next-token/stop-membership", "the STOP decision tests %s" % fmt(t)[:160], f.loc())
            break
    r4b_result(F, res, rid4)
    r6_stop_recognizer(ctx, res)
    # the leaves are the text AT their span: a recogniser that can match further on in the input yields leaves that are not
    # (decided on the generated recognisers by C13-R8, shared; its template finding D11 is a C02 finding as well)
    from . import c13 as _c13, report as _report
    rid8 = res.rule("C02-R8", "generated regex recognisers match at the current position only (anchored as a whole; shared with C13-R8)", floor=20)
    sub8 = _report.Result("C02", ctx.tier)
    _c13.r_generated(ctx, sub8)
    for inst in sub8.instances:
        if inst["rule"] == "C13-R8" and inst["ok"]:
            res.ok(rid8, inst["instance"], inst.get("where"), inst.get("detail"))
    for v in sub8.violations:
        if v["rule"] == "C13-R8":
            res.violation(rid8, v["key"].split("/", 1)[1], v["what"], v.get("where"))
    # "a successful parse": the LR loop may answer Ok only through Accept (decided by C12-R5 on the same paths, shared)
    from . import c12, c07, report
    rid7 = res.rule("C02-R7", "the LR loop leaves with Ok only through Action::Accept; every other exit is an Err (shared with C12-R5)", floor=1)
    sub = report.Result("C02", ctx.tier)
    try:
        c12.run(ctx, sub)
        c07.adopt(res, rid7, sub, only=["C12-R5"])
        for u in sub.undecided_list:
            if u["rule"].startswith("C12-R5"):
                res.undecided(rid7, u["what"], u.get("where"))
    except mir.AnchorLost as e:
        res.undecided(rid7, str(e))
    res.explanation = (
        "Decides structural clauses that are necessary for a tree to be a derivation: (R1) every Reduce cell is "
        "(item.prod, item.position) of a reducing item and is_reducing has the documented table; (R2) action cells are "
        "only mutated by the allowed operations; (R3) the LR driver pops the table's length, takes goto from the uncovered "
        "state for the table's production, pushes it and calls the builder with the same (prod, len), shifts the token "
        "that selected the action; (R4) stacks split exactly the given length without reordering; (R5) complete decision "
        "table of next_token (lexer token preferred, synthetic STOP only under partial_parse and STOP expected). Not "
        "decided: that gotos/shifts of the table are those of the grammar (C01/C04); acceptance of any concrete input.")
    res.assumptions = ["generic runtime code analysed pre-monomorphisation; user builders follow the LRBuilder protocol"]
