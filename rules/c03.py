"""C03 - the GLR forest contains exactly the derivation trees of the input (thin: keying, right-nulled lengths, collection,
index past the end; the reducer's re-queue discipline and the enumeration arithmetic are declined)."""
from . import mir, rt, report
from .mir import Sim, TermBuilder, callee, fmt, has_call, has_field
from .rt import is_call, calls, idx

LEVEL = "other"


def _names(t, name):
    """the term mentions a field / captured variable / variable called `name` (`path.parents`, `.children`, ..)"""
    def p(x):
        if not isinstance(x, tuple) or not x:
            return False
        if x[0] == "field":
            return x[2] == name
        if x[0] == "vfield":
            return str(x[3]) == name
        if x[0] in ("upvar", "var", "param"):
            return str(x[1]) == name or str(x[1]).endswith("." + name)
        return False
    return mir.contains(t, p)


IDENTITY_CALLS = ("Rc::ptr_eq", "Rc::<T, A>::ptr_eq", "PartialEq::eq", "PartialEq::ne", "Arc::ptr_eq")


def _elementwise_identity(F, clo):
    """+1: the closure answers `a is b` for the pair it is given (Rc::ptr_eq / ==), -1: the negation, None: something else"""
    fn = F.fns.get(clo[1]) if isinstance(clo, tuple) and clo[0] == "closure" else None
    if fn is None or not fn.has_body():
        return None
    rets = [e[1] for q in Sim(fn, F).run() for e in q.events if e[0] == "return"]
    if len(rets) != 1:
        return None
    t, sign = rets[0], 1
    while isinstance(t, tuple) and t[0] == "un" and t[1] == "Not":
        t, sign = t[2], -sign
    if not (isinstance(t, tuple) and t[0] == "call" and len(t[2]) == 2):
        return None
    nm = mir.strip_generics(t[1])
    if nm.endswith("ptr_eq") or nm.endswith("PartialEq::eq") or nm.endswith(">::eq"):
        pass
    elif nm.endswith("PartialEq::ne") or nm.endswith(">::ne"):
        sign = -sign
    else:
        return None
    # both sides come from the closure's own argument (the pair), and they are different components of it
    a, b = t[2]
    if a == b or not all(mir.contains(x, lambda y: isinstance(y, tuple) and y[0] == "param") for x in (a, b)):
        return None
    return sign


def prefix_identity(F, t, v):
    """True when the path condition `t == v` says: the children of the reduction path and the children of the stored
    solution are THE SAME edges as far as both go (element-wise Rc identity over the zipped sequences, or an equality of
    the two sequences cut to the same length). False when it says they differ. None: not such a condition."""
    if not (isinstance(t, tuple) and t[0] == "call") or v not in (0, 1):
        return None
    nm = mir.strip_generics(t[1]).rsplit("::", 1)[-1]
    if nm in ("all", "any") and len(t[2]) == 2:
        recv, clo = t[2]
        if not (_names(recv, "parents") and _names(recv, "children") and mir.has_call(recv, "zip")):
            return None
        sg = _elementwise_identity(F, clo)
        if sg is None:
            return None
        if nm == "all":
            # all(same): true = identical, false = they differ; all(differs) taken: no pair is shared
            return (v == 1) if sg == 1 else (False if v == 1 else None)
        # any(differs): false = identical, true = they differ; any(same) not taken: no pair is shared
        return (v == 0) if sg == -1 else (False if v == 0 else None)
    if nm in ("eq", "ne") and len(t[2]) == 2:
        a, b = t[2]
        if (_names(a, "parents") and _names(b, "children")) or (_names(b, "parents") and _names(a, "children")):
            # whole-sequence comparison: a prefix comparison only if one side was cut (take / range / truncate)
            if any(mir.has_call(x, k) for x in (a, b) for k in ("take", "Index::index", "range", "get")):
                return (v == 1) == (nm == "eq")
        return None
    return None


def _unread_conditions(prior, about_prod):
    """conditions between the possibilities scan and the replacement that this rule cannot read (a helper's answer, an index
    loop): with one of them on the path the absence of a readable identity test proves nothing"""
    # from the last `next()` of the scan on
    start = 0
    for i, c in enumerate(prior):
        if isinstance(c[1], tuple) and c[1][0] == "discr" and mir.has_call(c[1], "Iterator::next") and mir.has_call(c[1], "iter_mut"):
            start = i
    unread = []
    for c in prior[start:]:
        t = c[1]
        if not isinstance(t, tuple):
            continue
        if t[0] == "discr" or about_prod(c):
            continue
        if t[0] == "bin" and all(mir.has_call(x, "len") or (isinstance(x, tuple) and x[0] == "const") for x in (t[2], t[3])):
            continue
        if mir.is_log(t) if hasattr(mir, "is_log") and isinstance(t, dict) else False:
            continue
        unread.append(t)
    return unread


def identity_anywhere(F, fns):
    """some comparison of edge identity is made at all in these functions (used to tell 'missing' from 'not recognised')"""
    for f in fns:
        for _, tm in f.calls():
            nm = mir.strip_generics(callee(tm) or "")
            if nm.endswith("ptr_eq"):
                return True
    return False


def run(ctx, res):
    F = ctx.facts("core")
    # R2 shifted heads merge on (state, position)
    rid2 = res.rule("C03-R2", "shifted heads merge on (state, position after the token): the lookup key and the insert key of the "
                    "shifter's map are the same pair, a found head gets an additional edge, a missing one is created with that "
                    "state and position", floor=3)
    f, paths = rt.cache(F).paths(rt.GLR + "shifter$")
    done = False
    for p in paths:
        get = [e for e in p.events if e[0] == "call" and "BTreeMap" in e[1] and e[1].endswith("::get")]
        ins = [e for e in p.events if e[0] == "call" and "BTreeMap" in e[1] and e[1].endswith("::insert")]
        if get and ins:
            k1, k2 = get[0][2][1], ins[0][2][1]
            def parts(k):
                return dict(k[2]) if k[0] == "agg" and k[1] == "tuple" else None
            d1, d2 = parts(k1), parts(k2)
            ok = d1 is not None and d2 is not None and len(d1) == 2 and d1 == d2 and has_call(d1["1"], "::position_after")
            if ok:
                res.ok(rid2, "shifter/key", f.loc(), "frontier_base keyed by (state, position_after(token.value, head.position))")
            else:
                res.violation(rid2, "shifter/key", "the shifter looks up shifted heads by %s and registers them under %s: heads of one "
                              "shift level that end at different positions (lexical ambiguity) must stay separate, key must be "
                              "(state, position)" % (fmt(k1)[:120], fmt(k2)[:120]), f.loc())
            nh = calls(p, "GssHead::<'i, I, S, TK>::new")
            if nh and d2 is not None and len(d2) == 2:
                a = nh[0][2]
                if a[0] == d2["0"] and a[2] == d2["1"]:
                    res.ok(rid2, "shifter/new-head", f.loc())
                else:
                    res.violation(rid2, "shifter/new-head", "a new shifted head is created with state %s / position %s, not with the key "
                                  "it is registered under" % (fmt(a[0])[:60], fmt(a[2])[:60]), f.loc())
            done = True
            break
    if not done:
        res.anchor_lost(rid2, "get/insert on the shifter's frontier map not found", f.loc())
    for p in paths:
        if calls(p, "GssGraph::<'i, I, S, P, TK>::add_solution"):
            res.ok(rid2, "shifter/add-solution", f.loc())
            break
    else:
        res.violation(rid2, "shifter/add-solution", "the shifter does not add the shifted token as a solution between the two heads", f.loc())
    # R1 sub-frontier keying
    rid1 = res.rule("C03-R1", "per-lookahead sub-frontiers are keyed consistently: initial reductions are filed under the key of the "
                    "sub-frontier being iterated; the reducer gets the pending reductions of the same (position, token kind); new "
                    "heads get the start head's lookahead and are registered in that sub-frontier by their state", floor=4)
    g, ipaths = rt.cache(F).paths(rt.GLR + "initial_process_frontier$")
    keys = set()
    for p in ipaths:
        for e in p.events:
            if e[0] == "call" and "BTreeMap" in e[1] and e[1].endswith("::entry") and has_field(e[2][0], "pending_reductions") is not None:
                k = e[2][1]
                if k[0] == "agg" and k[1] == "tuple":
                    d = dict(k[2])
                    src = {fmt(x)[:200] for x in d.values()}
                    ok = all(isinstance(x, tuple) and (x[0] == "field" and x[2] in ("0", "1") and has_call(x, "Iterator>::next")) for x in d.values()) \
                        and len({x[1][1] if x[0] == "field" and x[1][0] == "field" else None for x in d.values()}) == 1
                    keys.add(ok)
    if keys == {True}:
        res.ok(rid1, "initial/key", g.loc(), "entry((*position, *token_kind)) of the iterated sub-frontier")
    elif keys:
        res.violation(rid1, "initial/key", "initial reductions are not filed under the (position, token kind) of the sub-frontier that "
                      "is being processed", g.loc())
    else:
        res.anchor_lost(rid1, "pending_reductions.entry(..) in initial_process_frontier not found", g.loc())
    pw, ppaths = rt.cache(F).paths(rt.GLR_PWC)
    okk = None
    for p in ppaths:
        rc = calls(p, "::reducer")
        if rc:
            a = rc[0][2]
            pend, sub = a[2], a[5]
            ent = [c for c in mir.calls_in(pend) if c[1].endswith("::entry")]
            if ent:
                k = ent[0][2][1]
                d = dict(k[2]) if k[0] == "agg" and k[1] == "tuple" else {}
                same = all(isinstance(x, tuple) and has_call(x, "Iterator>::next") for x in d.values()) and \
                    has_call(sub, "Iterator>::next") and all(_root_next(x) == _root_next(sub) for x in d.values())
                okk = same
            break
    if okk:
        res.ok(rid1, "main-loop/key", pw.loc(), "reducer(pending_reductions[(position, kind)], sub-frontier of the same key)")
    elif okk is False:
        res.violation(rid1, "main-loop/key", "the reducer is given pending reductions of another key than the sub-frontier it reduces in", pw.loc())
    else:
        res.anchor_lost(rid1, "call of the reducer in the GLR main loop not found", pw.loc())
    r, rpaths = rt.cache(F).paths(rt.GLR + "reducer$")
    seen = set()
    for p in rpaths:
        sh = [e[2] for e in p.events if e[0] == "set" and e[1] == "start_head"]
        sh = sh[-1] if sh else ("var", "start_head")
        from_start = lambda tk: mir.contains(tk, lambda x: x == sh or x == ("var", "start_head"))
        for e in p.events:
            if e[0] == "call" and e[1].endswith("GssHead::<'i, I, S, TK>::with_tok_state") and "with" not in seen:
                seen.add("with")
                tok, st = e[2][1], e[2][2]
                ok = has_call(tok, "::token_ahead") and from_start(tok) and is_call(st, "ParserDefinition::goto")
                if ok:
                    res.ok(rid1, "reducer/new-head", r.loc(), "with_tok_state(token_ahead(start_head), goto(root state, production))")
                else:
                    res.violation(rid1, "reducer/new-head", "a reduced head is created with lookahead %s and state %s" % (fmt(tok)[:80], fmt(st)[:80]), r.loc())
            if e[0] == "call" and "BTreeMap" in e[1] and e[1].endswith("::insert") and mir.contains(e[2][0], lambda x: x == ("param", "subfrontier")) \
                    and "ins" not in seen:
                seen.add("ins")
                if is_call(e[2][1], "ParserDefinition::goto"):
                    res.ok(rid1, "reducer/register", r.loc(), "subfrontier.insert(next_state, new head)")
                else:
                    res.violation(rid1, "reducer/register", "the new head is registered under %s" % fmt(e[2][1])[:80], r.loc())
            if e[0] == "call" and e[1].endswith("ParserDefinition::actions") and "act" not in seen:
                seen.add("act")
                st, tk = e[2][1], e[2][2]
                ok = is_call(st, "ParserDefinition::goto") and has_call(tk, "::token_ahead") and from_start(tk)
                if ok:
                    res.ok(rid1, "reducer/actions", r.loc(), "actions(goto(root state, prod), kind of the start head's lookahead)")
                else:
                    res.violation(rid1, "reducer/actions", "after a reduction actions are looked up for (%s, %s)" % (fmt(st)[:60], fmt(tk)[:60]), r.loc())
    # R3 right-nulled lengths
    rid3 = res.rule("C03-R3", "right-nulled lengths: Reduce(p, len) offered exactly at positions >= rn_len; the reducer walks exactly "
                    "`length` edges; a reduction starts at a Node iff its length is 0 (all construction sites)", floor=4)
    # ... and rn_len itself: the right-to-left scan over the symbols that derive EMPTY (decided by T-R10, shared with C04) -
    # a production whose right-nulled length is too long loses its right-nulled reductions, and with them sentences and trees
    from . import tbl
    rid3b = res.rule("C03-R3b", "right-nulled lengths (shares T-R10): computed only for LALR_RN, right to left, one step for every "
                     "trailing symbol whose FIRST set contains EMPTY and for nothing else; each item carries the length of its own "
                     "production", floor=3)
    tbl.r10_rn(F, res, rid3b)
    from . import c02
    sub = report.Result("C03", ctx.tier)
    c02.r1_reduce_cells(F, sub)
    for inst in sub.instances:
        if inst["ok"]:
            res.ok(rid3, "table/" + str(inst["instance"]), inst.get("where"), inst.get("detail"))
    for v in sub.violations:
        res.violation(rid3, "table/" + v["key"].split("/", 1)[1], v["what"], v.get("where"))
    # construction sites of Reduction{start, length}
    sites = 0
    for fn in (g, r):
        for p in (ipaths if fn is g else rpaths):
            for e in p.events:
                val = None
                if e[0] == "call" and e[1].endswith("::push_back") and len(e[2]) > 1:
                    val = e[2][1]
                if val is not None and val[0] == "agg" and val[1].endswith("Reduction::Reduction"):
                    d = dict(val[2])
                    st = d["start"]
                    kind = st[1].rsplit("::", 1)[-1] if st[0] == "agg" else "?"
                    # the condition on the length on this path
                    conds = [(t, v) for t, v in p.cond if (t[0] == "bin" and t[1] in ("Eq", "Gt", "Ne") and t[3] == ("const", 0)
                                                          and isinstance(t[2], tuple) and (t[2] == d["length"]))]
                    # every decision about the length on this path, whether written as a comparison or as `match length { 0 => .. }`;
                    # contradictory decisions (the simulator has no arithmetic) mark an infeasible path
                    zs = set()
                    for t, v in conds:
                        zs.add((t[1] == "Eq" and v == 1) or (t[1] in ("Gt", "Ne") and v == 0))
                    for t, v in p.cond:
                        if t == d["length"] and v in (0, "other"):
                            zs.add(v == 0)
                    if len(zs) != 1:
                        continue
                    zero = zs.pop()
                    key = "construct/%s/%s" % (fn.path.rsplit("::", 1)[-1], kind)
                    if key in seen:
                        continue
                    seen.add(key)
                    sites += 1
                    if (kind == "Node") == zero:
                        res.ok(rid3, key, fn.loc(), "%s start iff length %s 0" % (kind, "==" if zero else ">"))
                    else:
                        res.violation(rid3, key, "a reduction of length %s 0 starts at %s" % ("==" if zero else ">", kind), fn.loc())
    if sites < 3:
        res.anchor_lost(rid3, "%d Reduction construction sites classified, 3+ expected" % sites, r.loc())
    fr, frpaths = rt.cache(F).paths(rt.GLR + "find_reduction_paths$")
    okw = False
    for p in frpaths:
        for e in p.events:
            if e[0] == "call" and e[1].endswith("::push_back") and len(e[2]) > 1 and e[2][1][0] == "agg" and e[2][1][1].endswith("PendingPath"):
                d = dict(e[2][1][2])
                l = d["left_to_go"]
                if l[0] == "bin" and l[1] == "Sub" and has_field(l[2], "length", "Reduction") and l[3] == ("const", 1):
                    okw = True
                elif has_field(l, "length", "Reduction"):
                    res.violation(rid3, "walk/initial", "the path search starts with left_to_go = %s, expected length - 1 (the start edge is "
                                  "the first step)" % fmt(l)[:60], fr.loc())
    if okw:
        res.ok(rid3, "walk/initial", fr.loc(), "left_to_go = length - 1 from the start edge")
    # R6 SPPF node label: children of an existing solution are replaced only when it carries the reduction's production
    rid6 = res.rule("C03-R6", "a reduction path is merged into an existing SPPF solution (dropped as known, or its longer children "
                    "replacing the right-nulled ones) only if that solution is labelled with the production being reduced AND the "
                    "two share their children (edge identity over the common prefix), and only a longer path replaces", floor=2)
    nst = 0
    # the loop that scans the possibilities of the edge: the innermost loop around the statement that stores the new children
    from . import tbl
    poss_header = None
    tbr = TermBuilder(r, F)
    for h, body in sorted(tbl.loops_of(r).items(), key=lambda kv: len(kv[1])):
        for b in body | {h}:
            tm = r.blocks[b]["term"]
            if tm["k"] == "call" and mir.call_matches(callee(tm), "Iterator::next") and tm["args"] and \
                    has_field(tbr.operand(tm["args"][0]), "possibilities") and has_call(tbr.operand(tm["args"][0]), "iter_mut"):
                poss_header = h
                break
        if poss_header is not None:
            break
    for p in rpaths:
        for i, e in enumerate(p.events):
            if e[0] == "store" and isinstance(e[1], tuple) and has_field(e[1], "children") is not None and "children" in fmt(e[1])[-40:] \
                    and has_field(e[2], "parents"):
                nst += 1
                prior = [c for c in p.events[:i] if c[0] == "cond"]
                def about_prod(c):
                    return (is_call(c[1], "PartialEq::eq") or is_call(c[1], "PartialEq::ne")) and \
                        any(mir.contains(a, lambda x: isinstance(x, tuple) and x[0] == "vfield" and x[3] == "prod") for a in c[1][2]) and \
                        any(has_field(a, "production", "Reduction") for a in c[1][2])
                # `prod == production` holds: eq answered true or ne answered false
                eqs = [(c[0], c[1], 1 if (c[2] == 1) == is_call(c[1], "PartialEq::eq") else 0) for c in prior if about_prod(c) and c[2] in (0, 1)]
                # `parents.len() > children.len()` holds, in any spelling of the comparison
                def longer_of(c):
                    tm, v = c[1], c[2]
                    if not (tm[0] == "bin" and tm[1] in ("Gt", "Lt", "Ge", "Le") and v in (0, 1)):
                        return None
                    a_par, b_par = has_field(tm[2], "parents"), has_field(tm[3], "parents")
                    a_chi, b_chi = "children" in fmt(tm[2]), "children" in fmt(tm[3])
                    if a_par and b_chi and not a_chi:
                        op = tm[1]
                    elif b_par and a_chi and not b_chi:
                        op = {"Gt": "Lt", "Lt": "Gt", "Ge": "Le", "Le": "Ge"}[tm[1]]
                    else:
                        return None
                    # op is now `parents op children`
                    return {("Gt", 1): 1, ("Le", 0): 1, ("Gt", 0): 0, ("Le", 1): 0, ("Lt", 1): 0, ("Ge", 0): 0}.get((op, v))
                longer = [(c[0], c[1], longer_of(c)) for c in prior if longer_of(c) is not None]
                # ... and it is THAT derivation: the stored children and the path are the same edges as far as both go. Same
                # production and a different length alone also holds for a different derivation over the same edge
                # (`S: a S B C` with B, C nullable: [a, S(1..4)] against [a, S(1..3), B(3..4)]) - the path would be taken
                # for known and dropped, or overwrite the wrong solution.
                ident = [prefix_identity(F, c[1], c[2]) for c in prior]
                ident = [x for x in ident if x is not None]
                if not (eqs and eqs[-1][2] == 1 and longer and longer[-1][2] == 1):
                    res.violation(rid6, "replace-children", "the children of an existing solution are overwritten without checking that the "
                                  "solution is labelled with the production being reduced (same production: %s, longer: %s): a node "
                                  "`X: B` can end up with the children of `X: B C`" % (bool(eqs and eqs[-1][2] == 1), bool(longer and longer[-1][2] == 1)), r.loc())
                elif ident and ident[-1]:
                    res.ok(rid6, "replace-children", r.loc(), "prod == production && path longer && shared children identical")
                elif ident or not identity_anywhere(F, [r] + F.all_nested_closures(r)) or not _unread_conditions(prior, about_prod):
                    res.violation(rid6, "replace-children", "the children of an existing solution are overwritten by a longer path of the same "
                                  "production without checking that the two share their children (edge identity over the common "
                                  "prefix): a different derivation over the same edge is overwritten - lost and duplicated trees", r.loc())
                else:
                    res.undecided(rid6, "the reducer compares edge identities, but not in a form this rule reads on the path to the "
                                  "replacement of a solution's children (zip + all(Rc::ptr_eq) and its variants are read)", r.loc())
                break
        if nst:
            break
    if not nst:
        res.anchor_lost(rid6, "replacement of a solution's children not found in the reducer", r.loc())
    # ... the same for the decision that a path is NOT a new solution (it is dropped or merged): only for the same production
    # AND shared children. The decision is the closure given to all()/any() over the edge's possibilities.
    scans = []
    for b, tm in r.calls():
        nm = mir.strip_generics(callee(tm) or "").rsplit("::", 1)[-1]
        if nm in ("all", "any") and len(tm["args"]) == 2:
            recv, clo = tbr.operand(tm["args"][0]), tbr.operand(tm["args"][1])
            src = recv
            while isinstance(src, tuple) and src[0] == "call" and src[2]:
                src = src[2][0]            # iter(deref(borrow(x.possibilities))) -> x.possibilities
            if isinstance(src, tuple) and src[0] == "field" and src[2] == "possibilities" and isinstance(clo, tuple) \
                    and clo[0] == "closure" and clo[1] in F.fns:
                scans.append((nm, F.fns[clo[1]]))
    if len(scans) != 1:
        res.undecided(rid6, "the scan over the possibilities of the edge that decides `is this path a new solution` was not found "
                      "as one all()/any() with a closure (%d found)" % len(scans), r.loc())
    else:
        nm, clo = scans[0]
        known_when = 0 if nm == "all" else 1        # all(|t| differs): false = a known one was met; any(|t| same): true
        verdicts = []
        for q in Sim(clo, F).run():
            rets = [e[1] for e in q.events if e[0] == "return"]
            if len(rets) != 1:
                continue
            conds = [(c[1], c[2]) for c in q.events if c[0] == "cond"]
            if not any(t[0] == "discr" and v == frozenset(["NonTerm"]) for t, v in conds if isinstance(t, tuple)):
                continue            # Term / Empty possibilities: not this rule's business
            t, want = rets[0], known_when
            while isinstance(t, tuple) and t[0] == "un" and t[1] == "Not":
                t, want = t[2], 1 - want
            if isinstance(t, tuple) and t[0] == "const":
                if t[1] != want:
                    continue        # this path answers `not the known one`
            else:
                conds.append((t, want))
            def about_prod2(t, v):
                return isinstance(t, tuple) and t[0] == "call" and (mir.call_matches(t[1], "PartialEq::eq") or mir.call_matches(t[1], "PartialEq::ne")) \
                    and any(_names(a, "prod") for a in t[2]) and any(_names(a, "production") for a in t[2]) and v in (0, 1)
            same_prod = [(v == 1) == mir.call_matches(t[1], "PartialEq::eq") for t, v in conds if about_prod2(t, v)]
            ident = [x for x in (prefix_identity(F, t, v) for t, v in conds) if x is not None]
            verdicts.append((bool(same_prod and same_prod[-1]), (ident[-1] if ident else None)))
        if not verdicts:
            res.undecided(rid6, "no path of the possibilities scan answers `known solution` for a NonTerm possibility", clo.loc())
        elif all(sp and idn for sp, idn in verdicts):
            res.ok(rid6, "known-solution", clo.loc(), "%d path(s): same production and shared children identical" % len(verdicts))
        elif any(idn is None for sp, idn in verdicts) and identity_anywhere(F, [r] + F.all_nested_closures(r)) and \
                all(sp for sp, idn in verdicts) and not any(idn is False for sp, idn in verdicts):
            res.undecided(rid6, "the possibilities scan compares edge identities in a form this rule does not read", clo.loc())
        else:
            res.violation(rid6, "known-solution", "a reduction path is taken for an already known solution (and dropped, or merged into "
                          "it) because the edge has a solution of the same production with another number of children, without "
                          "comparing the children they share: distinct derivations over one edge are lost "
                          "(S: a S B C | EMPTY; B: b B | EMPTY; C: c | EMPTY on `aabb` gives 2 of 3 trees)", clo.loc())
    # R4 collection
    rid4 = res.rule("C03-R4", "heads are accepted only on Action::Accept; the forest takes every possibility of every back edge of every "
                    "accepted head; Ok(forest) iff a head was accepted", floor=3)
    acc = 0
    for fn, pths in ((g, ipaths), (r, rpaths)):
        for p in pths:
            for i, e in enumerate(p.events):
                if e[0] == "call" and e[1].endswith("Vec::<T, A>::push") and mir.contains(e[2][0], lambda x: x == ("param", "accepted_heads")):
                    kinds = [v for t, v in p.cond if t[0] == "discr" and len(t) > 2 and t[2] == "rustemo::lr::parser::Action"]
                    key = "accept/%s" % fn.path.rsplit("::", 1)[-1]
                    if key in seen:
                        continue
                    seen.add(key)
                    acc += 1
                    if kinds and kinds[-1] == frozenset(["Accept"]):
                        res.ok(rid4, key, fn.loc())
                    else:
                        res.violation(rid4, key, "a head is accepted under action %s" % (rt.val(kinds[-1]) if kinds else None), fn.loc())
    if acc < 2:
        res.anchor_lost(rid4, "%d accept sites found, 2 expected" % acc, r.loc())
    cf = F.one(rt.GLR + "create_forest$")
    names = set()
    for h in [cf] + F.all_nested_closures(cf):
        for b, t in h.calls():
            names.add(callee(t))
    drop = [mir.short(n) for n in names if any(k in n for k in ("Iterator::filter", "Iterator::take", "Iterator::skip", "Iterator::step_by", "::dedup", "Iterator::find"))]
    if drop:
        res.violation(rid4, "forest/collect", "create_forest drops solutions (%s)" % drop, cf.loc())
    elif any(n.endswith("GssGraph::<'i, I, S, P, TK>::backedges") for n in names):
        res.ok(rid4, "forest/collect", cf.loc(), "flat_map over accepted heads, their back edges and all possibilities")
    else:
        res.anchor_lost(rid4, "create_forest no longer walks backedges", cf.loc())
    # R5 index past the end
    rid5 = res.rule("C03-R5", "find_tree_root returns None for empty roots and for an index that is not covered, before any "
                    "subtraction; the forest iterators all go through get_tree and advance only on Some", floor=4)
    ft = F.one(r"^rustemo::glr::gss::Tree::<[^>]*>::find_tree_root$")
    ftp = Sim(ft, F).run()
    # Semantic form (any loop shape): a root is returned only when the running index is below its number of solutions, the
    # index is reduced only by a count it is not below, and None is never returned right after finding the root.
    def mentions_idx(x):
        return mir.contains(x, lambda y: y in (("param", "tree_idx"), ("var", "tree_idx")))
    def decisive(tm, v):
        """'lt' (index < count) / 'ge' (index >= count) / None for a comparison atom between the index and something else"""
        if not (isinstance(tm, tuple) and tm[0] == "bin" and tm[1] in ("Lt", "Le", "Gt", "Ge") and v in (0, 1)):
            return None
        a_idx, b_idx = mentions_idx(tm[2]), mentions_idx(tm[3])
        if a_idx == b_idx:
            return None
        op = tm[1]
        if b_idx:
            op = {"Lt": "Gt", "Gt": "Lt", "Le": "Ge", "Ge": "Le"}[op]      # rewrite as `index op count`
        return {("Lt", 1): "lt", ("Lt", 0): "ge", ("Ge", 1): "ge", ("Ge", 0): "lt", ("Gt", 1): "ge"}.get((op, v))
    n_some = n_none = 0
    bad = {}
    for p in ftp:
        last = None
        for e in p.events:
            if e[0] == "cond":
                d = decisive(e[1], e[2])
                if d:
                    last = d
            elif e[0] == "set" and isinstance(e[2], tuple) and e[2][0] == "bin" and e[2][1].startswith("Sub") and mentions_idx(e[2][2]) \
                    and e[1] == "tree_idx":
                if last != "ge":
                    bad["find-root/subtraction"] = "the tree index is reduced by a count that it was not shown to reach (index >= count)"
                else:
                    bad.setdefault("find-root/subtraction", None)
            elif e[0] == "return" and isinstance(e[1], tuple) and e[1][0] == "agg":
                if e[1][1].endswith("Some"):
                    n_some += 1
                    if last != "lt":
                        bad["find-root/found"] = "a root is returned although the index was not shown to be below its number of solutions"
                    else:
                        bad.setdefault("find-root/found", None)
                elif e[1][1].endswith("None"):
                    n_none += 1
                    if last == "lt":
                        bad["find-root/not-covered"] = "None is returned right after the covering root was found"
                    else:
                        bad.setdefault("find-root/not-covered", None)
    if not n_some or not n_none:
        res.anchor_lost(rid5, "find_tree_root: %d Some and %d None return path(s) recognised" % (n_some, n_none), ft.loc())
    for key in ("find-root/found", "find-root/not-covered", "find-root/subtraction"):
        if key not in bad:
            continue
        if bad[key]:
            res.violation(rid5, key, "find_tree_root: " + bad[key], ft.loc())
        else:
            res.ok(rid5, key, ft.loc())
    its = F.find(r"^<rustemo::glr::gss::Forest(IntoIter|Iterator)<.*> as core::iter::traits::iterator::Iterator>::next$")
    for it in its:
        okit = False
        for p in Sim(it, F).run():
            gt = calls(p, "Forest::<'i, I, P, TK>::get_tree")
            if not gt:
                res.violation(rid5, "iter/%s" % it.path.split("Forest")[1][:12], "a forest iterator does not go through get_tree(tree_idx)", it.loc())
                break
            some = [v for t, v in p.cond if is_call(t, "::is_some")]
            adv = [e for e in p.events if e[0] == "store" and isinstance(e[1], tuple) and e[1][0] == "field" and e[1][2] == "tree_idx"]
            if some and ((some[0] == 1) != bool(adv)):
                res.violation(rid5, "iter/advance", "a forest iterator advances its index although no tree was returned (or does not "
                              "advance after returning one)", it.loc())
                break
            okit = True
        if okit:
            res.ok(rid5, "iter/%s" % ("into" if "IntoIter" in it.path else "ref"), it.loc(), "get_tree(tree_idx); advance only on Some")
    r7_registration(F, res)
    r9_all_paths(F, res)
    rid8 = res.rule("C03-R8", "every lookahead the lexer and the documented strategies leave is followed: nothing else takes tokens out of "
                    "the candidate list (shared with C06-R4: a dropped lookahead is a lost derivation)", floor=2)
    rt.token_mutators(F, res, rid8)
    res.explanation = (
        "THIN claim. Decides the structural clauses the property's why-text names and for which the definition of a GSS / RN "
        "table is an oracle: shifted heads keyed by (state, position); per-lookahead sub-frontiers keyed consistently through "
        "initial processing, main loop and reducer; right-nulled lengths (table offers every position >= rn_len, the reducer "
        "walks length-1 further edges, Node start iff length 0); collection (accept only on Accept, forest takes every "
        "possibility, Ok iff accepted); index past the end. DECLINED (no independent oracle / the only checkable form is the "
        "code restated): the reducer's re-queue discipline (completeness, no duplicates, the count) and the mixed-radix index "
        "decoding of solutions()/get_tree().")
    res.assumptions = ["the declined clause groups are not decided at all; a wrong re-queue condition is invisible to this check"]


def r9_all_paths(F, res):
    """The forest holds every derivation only if a reduction is carried out over EVERY path of its length through the GSS:
    two partial paths that meet in a node with the same number of steps left are different derivations (different children),
    not one. find_reduction_paths is a worklist: every pending path that is taken off is either extended over every back
    edge of its root or delivered as a result - none is dropped, no back edge is skipped."""
    from . import tbl
    rid = res.rule("C03-R9", "find_reduction_paths enumerates paths, not nodes: every pending path taken off the worklist is extended "
                   "over every back edge of its current root or pushed as a result; nothing is skipped as already seen", floor=2)
    try:
        g = F.one(rt.GLR + "find_reduction_paths$")
    except Exception:      # noqa
        res.anchor_lost(rid, "GlrParser::find_reduction_paths not found")
        return
    loops = tbl.loops_of(g)
    outer = [h for h, body in loops.items() if any(callee(tm).endswith("::pop_front") for b, tm in g.calls() if b in body)]
    if not outer:
        res.anchor_lost(rid, "the worklist loop (pop_front) of find_reduction_paths not found", g.loc())
        return
    h = sorted(outer, key=lambda x: -len(loops[x]))[0]
    inner = [x for x in loops if x != h and x in loops[h]]
    n_out = n_in = 0
    bad_out = bad_in = None
    for p in Sim(g, F).run(entry=h):
        if not (p.events and p.events[-1] == ("backedge", h)):
            continue
        if not any(e[0] == "call" and e[1].endswith("::pop_front") for e in p.events):
            continue
        n_out += 1
        expands = any(e[0] == "call" and e[1].endswith("::backedges") for e in p.events)
        delivers = any(e[0] == "call" and (e[1].endswith("::push") or e[1].endswith("::push_back")) and len(e[2]) > 1 and
                       mir.contains(e[2][1], lambda x: isinstance(x, tuple) and x[0] == "agg" and str(x[1]).endswith("ReductionPath")) for e in p.events)
        if not (expands or delivers):
            bad_out = [fmt(c)[:70] + "=" + str(v) for c, v in p.cond][-3:]
    for hi in inner:
        for p in Sim(g, F).run(entry=hi):
            if not (p.events and p.events[-1] == ("backedge", hi)):
                continue
            took = any(c[0] == "discr" and is_call(c[1], "Iterator>::next") and v == frozenset(["Some"]) for c, v in p.cond)
            if not took:
                continue
            n_in += 1
            if not any(e[0] == "call" and (e[1].endswith("::push_back") or e[1].endswith("::push")) for e in p.events):
                bad_in = [fmt(c)[:70] + "=" + str(v) for c, v in p.cond][-3:]
    if n_out == 0:
        res.anchor_lost(rid, "no complete iteration of the worklist loop found", g.loc())
        return
    if bad_out:
        res.violation(rid, "find_reduction_paths/worklist", "a pending path is taken off the worklist and neither extended nor delivered "
                      "(when %s): the derivations that run through it are never reduced" % "; ".join(bad_out), g.loc())
    else:
        res.ok(rid, "find_reduction_paths/worklist", g.loc(), "%d iteration paths, each extends over the back edges or delivers" % n_out)
    if inner:
        if bad_in:
            res.violation(rid, "find_reduction_paths/edges", "a back edge of the current root is passed over without a new pending path "
                          "(when %s)" % "; ".join(bad_in), g.loc())
        elif n_in:
            res.ok(rid, "find_reduction_paths/edges", g.loc(), "%d iteration paths of the edge loop, each queues a pending path" % n_in)


def r7_registration(F, res):
    """RNGLR (Scott & Johnstone) says what is registered after a reduction reached node w over edge (v, w):
    w is NEW      -> every shift of w, every reduction of w (length 0 from the node, length > 0 over the new edge), accept;
    w existed, the edge is NEW -> only the reductions of length > 0, over the new edge;
    neither      -> nothing.  Read off the reducer as a finite table over (action kind, node new, edge new, length > 0)."""
    from . import tbl
    rid = res.rule("C03-R7", "registration after a reduction (RNGLR): reduce iff node new or (edge new and length > 0), over the edge iff "
                   "length > 0; shift and accept iff the node is new (so no head is shifted or accepted twice, no reduction is lost)", floor=3)
    g, _paths = rt.cache(F).paths(rt.GLR + "reducer$")
    tb = TermBuilder(g, F)
    acc = [b for b, tm in g.calls() if callee(tm).endswith("::push") and tm["args"] and
           mir.contains(tb.operand(tm["args"][0]), lambda x: x == ("param", "accepted_heads"))]
    loops = tbl.loops_of(g)
    cands = sorted([(h, body) for h, body in loops.items() if acc and acc[0] in body], key=lambda kv: len(kv[1]))
    if not cands:
        res.anchor_lost(rid, "the loop over the actions of the reduced-to head not found in the reducer", g.loc())
        return
    h = cands[0][0]
    rows = []
    for p in Sim(g, F).run(entry=h):
        if not (p.events and p.events[-1] == ("backedge", h)):
            continue
        kind = None
        atoms = {}
        for tm, v in p.cond:
            if tm[0] == "discr" and len(tm) > 2 and str(tm[2]).endswith("Action") and isinstance(v, frozenset) and len(v) == 1:
                kind = next(iter(v))
            elif tm in (("var", "head_created"), ("var", "edge_created")) and v in (0, 1):
                atoms[tm[1]] = v
            elif tm[0] == "bin" and tm[1] in ("Gt", "Ge", "Lt", "Le", "Eq", "Ne") and tm[3][0] == "const" and isinstance(tm[3][1], int) \
                    and v in (0, 1) and mir.contains(tm[2], lambda x: isinstance(x, tuple) and x[0] == "vfield" and str(x[3]) in ("1", "length")):
                # a comparison of the reduction length with a constant, kept as it is and evaluated for lengths 0, 1, 2
                atoms.setdefault("len", []).append((tm[1], tm[3][1], v))
            elif tm[0] == "discr" and is_call(tm[1], "Iterator>::next"):
                pass
            elif v in (0, 1) or isinstance(v, frozenset):
                atoms.setdefault("?", []).append(fmt(tm)[:50])
        if kind is None:
            continue
        reg = [e for e in p.events if e[0] == "call" and (e[1].endswith("::push_back") or e[1].endswith("::push")) and len(e[2]) > 1]
        what = None
        start = None
        for e in reg:
            recv = e[2][0]
            if mir.contains(recv, lambda x: x == ("param", "pending_reductions")) or mir.contains(recv, lambda x: x == ("var", "pending_reductions")):
                what = "reduce"
                item = e[2][1]
                if isinstance(item, tuple) and item[0] == "agg":
                    st = dict(item[2]).get("start")
                    start = st[1].rsplit("::", 1)[-1] if isinstance(st, tuple) and st[0] == "agg" else None
            elif mir.contains(recv, lambda x: x == ("param", "pending_shifts")):
                what = "shift"
            elif mir.contains(recv, lambda x: x == ("param", "accepted_heads")):
                what = "accept"
        rows.append((kind, atoms, what, start))
    kinds = {r[0] for r in rows}
    if not {"Reduce", "Shift", "Accept"} <= kinds or any("?" in r[1] for r in rows):
        res.anchor_lost(rid, "registration table of the reducer not recognised (kinds %s, unknown atoms %s)" % (
            sorted(kinds), [r[1]["?"][:1] for r in rows if "?" in r[1]][:2]), g.loc())
        return
    import itertools
    bad = {}
    for kind in ("Reduce", "Shift", "Accept"):
        for hc, ec, ln in itertools.product((0, 1), (0, 1), (0, 1, 2)):
            if hc and not ec:
                continue      # a new node always comes with a new edge
            lg = 1 if ln > 0 else 0
            val = {"head_created": hc, "edge_created": ec}
            def holds(r):
                for a, v in r[1].items():
                    if a == "len":
                        for op, k, vv in v:
                            truth = {"Gt": ln > k, "Ge": ln >= k, "Lt": ln < k, "Le": ln <= k, "Eq": ln == k, "Ne": ln != k}[op]
                            if truth != bool(vv):
                                return False
                    elif val[a] != v:
                        return False
                return True
            got = {(r[2], r[3]) for r in rows if r[0] == kind and holds(r)}
            if kind == "Reduce":
                want_reg = bool(hc or (ec and lg))
                want = {("reduce", "Edge" if lg else "Node")} if want_reg else {(None, None)}
            else:
                want = {(kind.lower(), None)} if hc else {(None, None)}
            if got != want:
                bad.setdefault(kind, "for (node new, edge new, length) = (%d, %d, %d) the reducer registers %s, RNGLR registers %s" % (
                    hc, ec, ln, sorted(got, key=str), sorted(want, key=str)))
    for kind in ("Reduce", "Shift", "Accept"):
        if kind in bad:
            res.violation(rid, "registration/" + kind.lower(), "GLR reducer, %s actions of the reduced-to head: %s" % (kind, bad[kind]), g.loc())
        else:
            res.ok(rid, "registration/" + kind.lower(), g.loc())


def _root_next(t):
    """the `next()` call a frontier-iteration value derives from"""
    for c in mir.calls_in(t):
        if c[1].endswith("Iterator>::next"):
            return c
    return None
