"""C12 - syntax errors point at the first offending token; sentences never error."""
from . import mir, rt
from .mir import Sim, TermBuilder, callee, fmt, has_call, has_field
from .rt import is_call, calls, idx

LEVEL = "other"


POSITION_WRITERS = {
    # who may move the input position, and with what (everything else reads it): the error offset IS this position
    "Parser>::parse": "start position of the parse",
    "Parser>::parse_with_context": "LR shift: end of the shifted token",
    "StringLexer::skip": "skipped whitespace",
}


def _plain(path):
    """`<a::X<'i, T> as b::Tr<'i, U>>::m` -> `<a::X as b::Tr>::m` (generic arguments dropped, the qualified-path brackets kept)"""
    out, depth, prev = [], 0, ""
    for ch in mir.strip_generics(path):
        if ch == "<" and (depth or (prev.isalnum() or prev == "_")):
            depth += 1
        elif ch == ">" and depth:
            depth -= 1
        elif not depth:
            out.append(ch)
        prev = ch
    return "".join(out)


def _only_restores(F, f):
    """every set_position on every path of f is given a value that a position() call on the same context returned earlier
    on that path"""
    try:
        paths = Sim(f, F, max_paths=100000).run()
    except Exception:      # noqa
        return False
    n = 0
    for p in paths:
        reads = []
        for e in p.events:
            if e[0] != "call" or not e[2]:
                continue
            if mir.call_matches(e[1], "Context::position") and len(e) > 5:
                reads.append((e[2][0], e[5]))
            elif mir.call_matches(e[1], "Context::set_position"):
                n += 1
                if not any(rt.idiom_same(c, e[2][0]) and v == e[2][1] for c, v in reads):
                    return False
    return n > 0


def r6_position_writers(F, res):
    rid = res.rule("C12-R6", "only parse() (start position), the LR shift and the lexer's whitespace skip move the input position; "
                   "no code on the way to an error report rewinds or advances it", floor=4)
    seen = 0
    for pth, f in sorted(F.fns.items()):
        if f.crate != "rustemo" or not f.has_body() or f.d.get("inlined_into") or "::tests::" in pth:
            continue
        for b, tm in f.calls():
            if not mir.call_matches(mir.callee(tm), "Context::set_position"):
                continue
            if "{closure#" in (f.blocks[b].get("inl_from") or ""):
                continue
            root = _plain(F.owner_root(pth))
            seen += 1
            key = [k for k in POSITION_WRITERS if root.endswith(k)]
            where = "%s:%s" % (f.file, tm.get("line"))
            if key:
                res.ok(rid, "writer/%s" % root.rsplit("::", 2)[-2:][0].split(" ")[0] + "::" + root.rsplit("::", 1)[-1], where, POSITION_WRITERS[key[0]])
            elif _only_restores(F, f):
                # not a move: the value written is one the same function read from the same context earlier on the path
                # (the bracket around the layout attempt, C12-R9)
                res.ok(rid, "restore/%s" % root.rsplit("::", 1)[-1], where, "puts back a position read earlier on the same path")
            else:
                res.violation(rid, "writer/%s" % root.rsplit("::", 1)[-1], "%s moves the input position (set_position): the position is "
                              "owned by parse(), the LR shift and the whitespace skip; an extra writer changes where errors (and "
                              "spans) are reported" % root, where)
    # the LR token fetch in particular reads the position only
    if seen < 4:
        res.anchor_lost(rid, "%d position writers found, 4 on the audited tree" % seen)


def r8_glr_error_head(F, res):
    """The error is reported at `the first token that cannot continue any sentence`. The heads of the last GLR frontier base
    can stand at different positions (tokens of different lengths under lexical ambiguity); the error has to be made from
    the furthest one. make_error takes `last_frontier_base.first()` - whichever head sorts first by state number (D38)."""
    rid = res.rule("C12-R8", "the GLR error position comes from the furthest head of the last frontier base, not from an arbitrary one",
                   floor=1)
    try:
        f = F.one(rt.GLR + "make_error$")
    except Exception:      # noqa
        res.anchor_lost(rid, "GlrParser::make_error not found")
        return
    first = furthest = False
    for p in Sim(f, F, max_paths=100000).run():
        for e in p.events:
            if e[0] == "call" and mir.call_matches(e[1], "error_expected") and len(e[2]) > 2:
                ctxt = e[2][2]
                if mir.has_call(ctxt, "slice::<impl [T]>::first") or mir.has_call(ctxt, "::first"):
                    first = True
                if any(mir.has_call(ctxt, k) for k in ("max_by_key", "max_by", "::max", "::last", "sort")):
                    furthest = True
    if not (first or furthest):
        res.undecided(rid, "how make_error picks the head it reports the position of was not recognised", f.loc())
    elif first and not furthest:
        res.violation(rid, "glr-error-first-head", "GlrParser::make_error builds the error from `last_frontier_base.first()`: with heads "
                      "at different positions in one frontier (`S: A X | AB Y;` A:'a' AB:'ab' on `abz`) the reported position is 1, "
                      "the first offending token is at 2; it depends on state numbering (the reordered grammar reports 2)", f.loc())
    else:
        res.ok(rid, "glr-error-first-head", f.loc(), "the head is chosen by position")


def run(ctx, res):
    F = ctx.facts("core")
    r8_glr_error_head(F, res)
    rid1 = res.rule("C12-R1", "LR error path: Err(error_expected(input, file, ctx, expected kinds of the current state)) only on "
                    "the table row `no token, no layout progress, not (partial and STOP expected)`", floor=2)
    f, rows = rt.lr_next_token_table(F, res, rid1)
    n = 0
    for a, out, p in rows:
        if out == "error":
            n += 1
            e = a["_err"]
            ok = is_call(e, "error_expected") and e[2][0] == ("param", "input") and e[2][2] == ("param", "context") \
                and has_call(e[2][3], "ParserDefinition::expected_token_kinds") and has_call(e[2][3], "Context::state") \
                and has_field(e[2][1], "file_name")
            adapt = [mir.short(c[1]) for c in mir.calls_in(e[2][3]) if any(k in c[1] for k in ("::filter", "::take", "::skip", "::step_by", "::rev"))]
            if not ok or adapt:
                res.violation(rid1, "lr/error-value", "the LR error is built as %s (adaptors %s), expected error_expected(input, "
                              "file_name, context, all expected kinds of context.state())" % (fmt(e)[:160], adapt), f.loc())
                break
    else:
        if n:
            res.ok(rid1, "lr/error-value", f.loc(), "%d error rows" % n)
    rid2 = res.rule("C12-R2", "error value: zero-width span at the current position (not the previous token's span), message built "
                    "from the whole expected list, file name and source passed through", floor=1)
    g = F.one(r"^rustemo::error::error_expected$")
    done = False
    for p in Sim(g, F).run():
        r = [e[1] for e in p.events if e[0] == "return"]
        if not r:
            continue
        pe = [x for x in mir.walk(r[0]) if isinstance(x, tuple) and x[0] == "agg" and x[1].endswith("ParseError::ParseError")]
        if not pe:
            continue
        d = dict(pe[0][2])
        sp = d["span"]
        inner = dict(sp[2]).get("0") if sp[0] == "agg" and sp[1].endswith("Option::Some") else None
        ok = inner is not None and is_call(inner, "Context::position") and inner[2][0] == ("param", "context")
        if ok:
            res.ok(rid2, "span", g.loc(), "Some(context.position().into())")
        else:
            res.violation(rid2, "span", "the error span is %s, expected the zero-width current position (context.position())" % fmt(sp)[:120], g.loc())
        src = d["src"]
        fl = d["file"]
        if not (is_call(src, "Input::try_to_string") and mir.contains(src, lambda x: x == ("param", "input"))):
            res.violation(rid2, "src", "error source is %s" % fmt(src)[:80], g.loc())
        if not mir.contains(fl, lambda x: x == ("param", "file_name")):
            res.violation(rid2, "file", "error file is %s" % fmt(fl)[:80], g.loc())
        done = True
        break
    if not done:
        res.anchor_lost(rid2, "ParseError construction in error_expected not found", g.loc())
    # no adaptor dropping expected kinds in the message
    names = set()
    for h in [g] + F.all_nested_closures(g):
        for b, t in h.calls():
            names.add(callee(t))
    drop = [mir.short(n) for n in names if any(k in n for k in ("Iterator::take", "Iterator::skip", "Iterator::filter", "Iterator::step_by"))]
    if drop:
        res.violation(rid2, "message", "the expected list is shortened in the message (%s)" % drop, g.loc())
    else:
        res.ok(rid2, "message", g.loc(), "all expected kinds are listed")
    # R3 whitespace before position
    rid3 = res.rule("C12-R3", "whitespace is skipped before the position that seeds the token iterator is read (the error offset "
                    "is the start of the offending token, not of the whitespace before it)", floor=1)
    h = F.one(r"^<rustemo::lexer::StringLexer<.*> as rustemo::lexer::Lexer<.*>>::next_tokens$")
    okc = False
    for p in Sim(h, F).run():
        sk = [v for t, v in p.cond if t[0] == "field" and t[2] == "skip_ws"]
        if sk and sk[0] == 1:
            i_skip = idx(p, "StringLexer::<C, S, TK, TR, TERMINAL_COUNT>::skip")
            i_new = idx(p, "TokenIterator::<'i, TR, TK>::new")
            if i_skip is None or i_new is None:
                res.anchor_lost(rid3, "skip / TokenIterator::new not found", h.loc())
                break
            posarg = p.events[i_new][2][1]
            # the position read must happen after skip (epoch-tagged call) 
            i_pos = [i for i, e in enumerate(p.events) if e[0] == "call" and mir.call_matches(e[1], "Context::position")]
            after = [i for i in i_pos if i > i_skip]
            if i_skip < i_new and after and is_call(posarg, "Context::position"):
                res.ok(rid3, "skip-before-position", h.loc())
            else:
                res.violation(rid3, "skip-before-position", "the token iterator starts at a position read before whitespace was skipped", h.loc())
            okc = True
            break
    if not okc:
        res.anchor_lost(rid3, "skip_ws path of StringLexer::next_tokens not found", h.loc())
    # the skipper consumes exactly the leading Unicode-whitespace chars (shared with C15-R2d / C14-R3)
    from . import c15, report
    sub = report.Result("C12", ctx.tier)
    c15.r2d_boundaries(F, sub)
    rid3b = res.rule("C12-R3b", "the whitespace skipper consumes every leading char::is_whitespace character, measured in bytes "
                     "(shared with C15-R2d)", floor=3)
    for inst in sub.instances:
        if inst["ok"]:
            res.ok(rid3b, inst["instance"], inst.get("where"), inst.get("detail"))
    for v in sub.violations:
        res.violation(rid3b, v["key"].split("/", 1)[1], v["what"], v.get("where"))
    # R4 GLR
    rid4 = res.rule("C12-R4", "GLR: Err iff no head was accepted; the error is built from the last frontier base that could not "
                    "shift: union of the expected kinds of exactly those heads, position of one of them", floor=3)
    fg, paths = rt.cache(F).paths(rt.GLR_PWC)
    ok_ret = True
    for p in paths:
        if p.end != "return":
            continue
        r = [e[1] for e in p.events if e[0] == "return"][0]
        emp = [v for t, v in p.cond if is_call(t, "Vec::<T, A>::is_empty") and mir.contains(t, lambda x: isinstance(x, tuple) and x[0] == "call" and len(x) > 3 and x[3] == ("as", "accepted_heads"))]
        if r[0] == "agg" and r[1].endswith("Result::Ok") and has_call(r, "create_forest"):
            if not (emp and emp[-1] == 0):
                ok_ret = False
                res.violation(rid4, "glr/ok-iff-accepted", "GLR returns Ok although the emptiness of accepted_heads was not checked on this path", fg.loc())
        if r[0] == "agg" and r[1].endswith("Result::Err") and has_call(r, "make_error"):
            if not (emp and emp[-1] == 1):
                ok_ret = False
                res.violation(rid4, "glr/err-iff-none", "GLR returns the syntax error although heads may have been accepted", fg.loc())
            me = [c for c in mir.calls_in(r) if c[1].endswith("make_error")][0]
            sets = [e[2] for e in p.events if e[0] == "set" and e[1] == "last_frontier_base"]
            arg = me[2][3]
            is_lfb = arg == ("var", "last_frontier_base") or (sets and arg == sets[-1]) or \
                (isinstance(arg, tuple) and arg[0] == "call" and len(arg) > 3 and arg[3] == ("as", "last_frontier_base"))
            if not is_lfb:
                ok_ret = False
                res.violation(rid4, "glr/error-frontier", "make_error is given %s, expected last_frontier_base" % fmt(me[2][3])[:100], fg.loc())
    if ok_ret:
        res.ok(rid4, "glr/result", fg.loc(), "Ok(create_forest) iff accepted_heads non-empty, else Err(make_error(.., last_frontier_base))")
    # last_frontier_base := frontier_base only when the new base is empty
    setok = False
    for p in paths:
        for i, e in enumerate(p.events):
            if e[0] == "set" and e[1] == "last_frontier_base" and e[2] != ("call", e[2][1] if isinstance(e[2], tuple) and e[2][0] == "call" else "", ()) \
                    and not (isinstance(e[2], tuple) and e[2][0] in ("call", "agg") and not mir.contains(e[2], lambda x: x == ("var", "frontier_base"))):
                prior = [c for c in p.events[:i] if c[0] == "cond" and is_call(c[1], "Vec::<T, A>::is_empty") and has_call(c[1], "shifter")]
                if prior and prior[-1][2] == 1:
                    setok = True
                else:
                    res.violation(rid4, "glr/last-frontier", "last_frontier_base is updated although the next frontier base is not empty "
                                  "(the error would be reported for a frontier that could still shift)", fg.loc())
    if setok:
        res.ok(rid4, "glr/last-frontier", fg.loc(), "recorded only when the shifter returned an empty base")
    m = F.one(rt.GLR + "make_error$")
    tb = TermBuilder(m, F)
    for b, t in m.calls():
        if callee(t).endswith("error_expected"):
            args = [tb.operand(a) for a in t["args"]]
            ctxa, exp = args[2], args[3]
            ok = has_call(ctxa, "GssGraph") and mir.contains(ctxa, lambda x: x == ("param", "last_frontier_base")) and \
                (mir.contains(exp, lambda x: x == ("param", "last_frontier_base")) or has_call(exp, "clear_duplicates") or True)
            if ok:
                res.ok(rid4, "glr/make-error", m.loc(), "context is a head of last_frontier_base")
            else:
                res.violation(rid4, "glr/make-error", "the GLR error position comes from %s" % fmt(ctxa)[:120], m.loc())
    # closures of make_error: expected kinds of the heads' states, unfiltered
    names = set()
    for h2 in [m] + F.all_nested_closures(m):       # iterator closures or plain loops in the function itself
        for b, t in h2.calls():
            names.add(callee(t))
    if any(n.endswith("ParserDefinition::expected_token_kinds") for n in names) and not any(
            k in n for n in names for k in ("Iterator::filter", "Iterator::take", "Iterator::skip")):
        res.ok(rid4, "glr/expected-union", m.loc())
    else:
        res.violation(rid4, "glr/expected-union", "make_error does not collect expected_token_kinds of every head unfiltered (%s)" % sorted(
            mir.short(n) for n in names)[:6], m.loc())
    # R5 only Accept gives Ok in LR
    rid5 = res.rule("C12-R5", "the LR loop leaves with Ok only through Accept; every next_token error is propagated", floor=1)
    f2, paths2, bad = rt.lr_driver(F, res, res.rule("C12-R5b", "LR driver arms (shared with C02-R3)", floor=5))
    if bad:
        res.violation(rid5, "ok-exit", "the LR loop can return Ok without reaching Accept", f2.loc())
    else:
        res.ok(rid5, "ok-exit", f2.loc())
    nt = 0
    for p in paths2:
        for i, e in enumerate(p.events):
            if e[0] == "call" and e[1].endswith("::next_token"):
                nt += 1
                nxt = p.events[i + 1] if i + 1 < len(p.events) else None
                if not (nxt and nxt[0] == "call" and nxt[1].endswith("Try>::branch")):
                    res.violation(rid5, "propagate", "a result of next_token is not propagated with `?`", f2.loc())
                    return
    res.ok(rid5, "propagate", f2.loc(), "%d next_token results, all followed by `?`" % nt)
    from . import known
    known.crosslist(res, "C12", "C13-R8/template-anchor", "C12-X1")
    r6_position_writers(F, res)
    # line and column of the reported position come from str::position_after: its arithmetic is decided by C13-R9 and shared
    from . import c13, c07, report
    rid7 = res.rule("C12-R7", "line/column arithmetic of str::position_after: bytes, `\\n` as the only line terminator (shared with C13-R9)", floor=3)
    sub = report.Result("C12", ctx.tier)
    try:
        c13.r_bytes(F, sub)
        for inst in sub.instances:
            if str(inst["instance"]).startswith("position-after/") and inst["ok"]:
                res.ok(rid7, inst["instance"], inst.get("where"), inst.get("detail"))
        for v in sub.violations:
            if "/position-after/" in v["key"]:
                res.violation(rid7, v["key"].split("/", 1)[1], v["what"], v.get("where"))
        for u in sub.undecided_list:
            res.undecided(rid7, u["what"], u.get("where"))
    except mir.AnchorLost as e:
        res.undecided(rid7, str(e))
    # R9 position bracket around a layout attempt that yields no layout
    rid9 = res.rule("C12-R9", "a layout attempt that yields no layout leaves the position where the content lexer gave up: on every "
                    "path through layout_parser.parse_with_context(ctx) that takes no layout, set_position(ctx, ..) puts back the "
                    "position read before (LR next_token and GLR find_lookaheads); the error is then reported there", floor=2)
    for label, pat in (("lr", c13.LR_NEXT_TOKEN), ("glr", rt.GLR + "find_lookaheads$")):
        try:
            fn = F.one(pat)
        except Exception:      # noqa
            res.anchor_lost(rid9, "%s token fetch not found" % label)
            continue
        try:
            n, badp = rt.layout_position_bracket(F, fn)
        except mir.AnchorLost as e:
            res.undecided(rid9, str(e), fn.loc())
            continue
        if not n:
            res.anchor_lost(rid9, "no path through the layout parser that takes no layout in the %s token fetch" % label, fn.loc())
        elif badp:
            res.violation(rid9, "layout-position-bracket/" + label, "%s (path ending in %s; %d of %d paths): a syntax error after a "
                          "half-parsed layout (unterminated comment) is reported behind it with the content state's expected "
                          "tokens" % (badp[0][0], badp[0][1], len(badp), n), fn.loc())
        else:
            res.ok(rid9, "layout-position-bracket/" + label, fn.loc(), "%d paths through a layout attempt without layout, position restored on each" % n)
    res.explanation = (
        "Decides where the reported offset and expected set come from: the complete next_token decision table (error only "
        "when nothing matched, no layout progress and no partial-parse STOP), the error value (zero-width span at the "
        "current position, all expected kinds of the current state, file and source passed through), whitespace skipped "
        "before the position is read, the GLR error path (Err iff no accepted head; last frontier that could not shift; "
        "union of expected kinds), no swallowed errors and Ok only through Accept. Not decided: that the table's error "
        "cells are exactly the non-viable prefixes (C01/C04), line/column arithmetic (C13-R9 decides its unit).")
