"""Semantic recognisers over terms: the same fact written in the idioms a maintainer may choose.

Rules ask `first_of(t)`, `last_of(t)`, `emptiness(cond, value)`, ... instead of matching one spelling, so that
`v[0]` / `v.first().unwrap()` / `match v.front() { Some(x) => x, .. }` are the same thing to them. Each recogniser lists the
spellings it accepts; anything else is `None` (the rule then reports what it saw)."""
from . import mir
from .mir import call_matches


def _is(t, kind):
    return isinstance(t, tuple) and t and t[0] == kind


def _callname(t):
    return t[1] if _is(t, "call") else ""


def _method(t):
    """last path segment of a call term's callee without generics"""
    n = mir.strip_generics(_callname(t))
    return n.rsplit("::", 1)[-1] if n else ""


UNWRAPS = ("unwrap", "expect", "unwrap_unchecked", "copied", "cloned", "as_ref", "as_mut", "as_deref")


def peel(t):
    """strips Option plumbing: unwrap/expect/copied/cloned and the `Some` payload projection"""
    while True:
        if _is(t, "call") and _method(t) in UNWRAPS and t[2] and ("Option" in t[1] or "option" in t[1]):
            t = t[2][0]
        elif _is(t, "vfield") and t[2] in ("Some", 1) and str(t[3]) == "0":
            t = t[1]
        else:
            return t


def len_of(t):
    """c if t is `c.len()`"""
    if _is(t, "call") and _method(t) == "len" and t[2]:
        return t[2][0]
    return None


def _index_parts(t):
    """(collection, index term) for projection indexing and Index::index calls"""
    if _is(t, "index"):
        return t[1], t[2]
    if _is(t, "call") and _method(t) in ("index", "index_mut", "get", "get_mut", "get_unchecked") and len(t[2]) >= 2:
        return t[2][0], t[2][1]
    return None, None


FIRST_METHODS = ("first", "front", "first_mut", "front_mut")
LAST_METHODS = ("last", "back", "last_mut", "back_mut")


def first_of(t):
    """collection c if t is the first element of c: c[0], c.get(0), c.first()/front() (+ Option plumbing)"""
    t = peel(t)
    c, i = _index_parts(t)
    if c is not None and i == ("const", 0):
        return c
    if _is(t, "call") and _method(t) in FIRST_METHODS and t[2]:
        return t[2][0]
    return None


def last_of(t):
    """collection c if t is the last element of c: c[c.len() - 1], c.last()/back() (+ Option plumbing)"""
    t = peel(t)
    c, i = _index_parts(t)
    if c is not None:
        if _is(i, "bin") and i[1] in ("Sub", "SubUnchecked") and i[3] == ("const", 1) and len_of(i[2]) is not None \
                and same(len_of(i[2]), c):
            return c
        if i == ("const", "end-1"):
            return c
    if _is(t, "call") and _method(t) in LAST_METHODS and t[2]:
        return t[2][0]
    return None


def same(a, b):
    """term equality modulo call epochs and constructor tags"""
    def norm(t):
        if isinstance(t, tuple):
            if t and t[0] == "call":
                return ("call", t[1], tuple(norm(x) for x in t[2]))
            return tuple(norm(x) for x in t)
        if isinstance(t, frozenset):
            return frozenset(norm(x) for x in t)
        return t
    return norm(a) == norm(b)


def find(t, pred):
    """first sub-term x (pre-order) with pred(x) truthy -> pred(x)"""
    for x in mir.walk(t):
        r = pred(x)
        if r is not None and r is not False:
            return r
    return None


def find_first_of(t, coll_pred):
    """collection c (coll_pred(c)) such that some sub-term of t is its first element"""
    def p(x):
        c = first_of(x) if isinstance(x, tuple) else None
        return c if c is not None and coll_pred(c) else None
    return find(t, p)


def find_last_of(t, coll_pred):
    def p(x):
        c = last_of(x) if isinstance(x, tuple) else None
        return c if c is not None and coll_pred(c) else None
    return find(t, p)


def emptiness(t, v):
    """(collection, is_empty) if the path condition `t == v` decides whether a collection is empty:
    is_empty(), len() compared with 0/1, Some/None of first()/last()/front()/back()/get(0), is_some()/is_none() of those"""
    if _is(t, "call") and _method(t) == "is_empty" and t[2] and v in (0, 1):
        return t[2][0], v == 1
    if _is(t, "bin") and v in (0, 1):
        op, a, b = t[1], t[2], t[3]
        flip = {"Lt": "Gt", "Gt": "Lt", "Le": "Ge", "Ge": "Le", "Eq": "Eq", "Ne": "Ne"}
        if len_of(b) is not None and _is(a, "const"):
            op, a, b = flip.get(op), b, a
        c = len_of(a)
        if c is not None and _is(b, "const") and op:
            k = b[1]
            res = {("Eq", 0): True, ("Ne", 0): False, ("Gt", 0): False, ("Le", 0): True, ("Ge", 1): False, ("Lt", 1): True}.get((op, k))
            if res is not None:
                return c, (res if v == 1 else not res)
    if _is(t, "discr") and isinstance(v, frozenset):
        inner = t[1]
        while _is(inner, "call") and _method(inner) in ("copied", "cloned", "as_ref", "as_mut") and inner[2]:
            inner = inner[2][0]
        c = None
        if _is(inner, "call") and _method(inner) in FIRST_METHODS + LAST_METHODS and inner[2]:
            c = inner[2][0]
        else:
            cc, i = _index_parts(inner)
            if cc is not None and _method(inner) in ("get", "get_mut") and i == ("const", 0):
                c = cc
        if c is not None:
            if v == frozenset(["Some"]):
                return c, False
            if v == frozenset(["None"]):
                return c, True
    if _is(t, "call") and _method(t) in ("is_some", "is_none") and t[2] and v in (0, 1):
        r = emptiness(("discr", t[2][0], "core::option::Option"), frozenset(["Some"]))
        if r:
            some = (v == 1) == (_method(t) == "is_some")
            return r[0], not some
    return None


def path_emptiness(p, coll_pred, extra=None):
    """True (empty) / False (non-empty) / None (undecided) / 'contradiction' for the collections selected by coll_pred on
    path p. `extra(t, v)` may map further atoms (e.g. `states == 0`) to True/False."""
    seen = set()
    for t, v in p.cond:
        r = emptiness(t, v)
        e = None
        if r and coll_pred(r[0]):
            e = r[1]
        elif extra is not None:
            e = extra(t, v)
        if e is not None:
            seen.add(bool(e))
    if len(seen) == 2:
        return "contradiction"
    return seen.pop() if seen else None


def field_chain(t):
    """(root, [f1, f2, ..]) for field(field(root, f1), f2)"""
    fs = []
    while _is(t, "field"):
        fs.append(t[2])
        t = t[1]
    return t, fs[::-1]


def epoch(t):
    return t[3] if _is(t, "call") and len(t) > 3 and isinstance(t[3], int) else 0


def predicate_is(F, fn, method):
    """the closure/function `fn` answers exactly `<its argument>.method()` on every path (not the negation, not a
    conjunction with something else). None when `fn` has no recognisable return."""
    from .mir import Sim
    if fn is None or not fn.has_body():
        return None
    rets = [e[1] for q in Sim(fn, F).run() for e in q.events if e[0] == "return"]
    if not rets:
        return None
    def ok(r):
        return _is(r, "call") and call_matches(r[1], method) and r[2] and isinstance(r[2][0], tuple) and r[2][0][0] in ("param", "field", "vfield")
    return all(ok(r) for r in rets)
