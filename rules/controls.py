"""Positive / negative controls: fixed tiny examples (fixtures/controls) on
which a rule must fire / must stay silent. A control that misbehaves means the
checker is broken (exit 2), never a verdict about /repo."""
from . import facts, mir, report


class ControlFailure(facts.ToolError):
    pass


_cache = {}


def control_facts():
    if "F" not in _cache:
        _cache["F"] = mir.Facts(facts.ensure_controls())
    return _cache["F"]


def expect(res, prop, name, fired, should_fire):
    res.rules.setdefault(prop + "-controls", {"desc": "positive/negative controls of the rules (fixtures/controls)",
                                              "floor": 0, "instances": 0, "violations": 0})
    if fired != should_fire:
        raise ControlFailure("control %s: rule %s" % (name, "did not fire" if should_fire else "fired on a clean example"))
    res.rules[prop + "-controls"]["instances"] += 1
    res.instances.append({"rule": prop + "-controls", "instance": name, "ok": True,
                          "detail": "fired as required" if should_fire else "silent as required"})


def scratch():
    return report.Result("CTRL", "quick")


def run(ctx, res, prop):
    F = control_facts()
    fn = globals().get("controls_" + prop.lower())
    if fn:
        fn(F, res, prop)


def fired_on(r, sub):
    return any(sub in v["key"] or sub in (v.get("what") or "") for v in r.violations)


def controls_c17(F, res, prop):
    from . import c17
    fns = [f for f in F.fns.values() if f.path.startswith("verif_controls::c17::") and f.has_body()]
    r = scratch()
    c17.r1_hash_order(F, r, fns)
    for name, should in (("hash_iter_leak", True), ("hash_for_each", True), ("hash_set_collect_vec", True),
                         ("hash_count", False), ("hash_to_btree", False), ("hash_lookup", False)):
        expect(res, prop, "R1/" + name, fired_on(r, "c17::" + name), should)
    r = scratch()
    c17.r2_ambient(F, r, fns)
    expect(res, prop, "R2/reads_clock", fired_on(r, "reads_clock"), True)
    expect(res, prop, "R2/reads_env", fired_on(r, "reads_env"), True)
    r = scratch()
    c17.COMPILER_CRATES_SAVE = c17.COMPILER_CRATES
    c17.COMPILER_CRATES = ("verif_controls",)
    try:
        c17.r3_statics(F, r)
    finally:
        c17.COMPILER_CRATES = c17.COMPILER_CRATES_SAVE
    expect(res, prop, "R3/static mut", fired_on(r, "COUNTER"), True)
    expect(res, prop, "R3/interior mutable static", fired_on(r, "CELL"), True)
    expect(res, prop, "R3/plain static", fired_on(r, "PLAIN"), False)
