"""C08 - the generated parser source encodes exactly the computed table."""
from . import gen
from .gen import flat, is_g, is_i, is_p, split

LEVEL = "translation_validation"


def key_of(g):
    return (g.name or "").replace("target:", "").replace("src:", "")


def check_one(g, res, rid, stats):
    t = g.table
    name = key_of(g)
    where = g.entry.get("parser_file_rel")
    if g.parse_error:
        res.violation(rid, name + "/syntax", "generated parser is not valid Rust syntax: %s" % g.parse_error, where)
        return None
    nf = gen.normal_form(g)
    bad = []
    for k, msg in nf["problems"]:
        bad.append((k, msg))
    cells = 0
    # enum orders
    exp_tk = [x["name"] for x in t["terminals"]]
    exp_ntk = [x["name"] for x in t["nonterminals"]]
    if nf["tk"] != exp_tk:
        bad.append(("TokenKind-order", "enum TokenKind %s != terminals in index order %s" % (nf["tk"][:8], exp_tk[:8])))
    if nf["ntk"] != exp_ntk:
        bad.append(("NonTermKind-order", "enum NonTermKind %s != nonterminals in index order %s" % (nf["ntk"][:8], exp_ntk[:8])))
    if len(nf["st"]) != len(t["states"]):
        bad.append(("State-count", "enum State has %d variants, table has %d states" % (len(nf["st"]), len(t["states"]))))
    else:
        for i, (v, s) in enumerate(zip(nf["st"], t["states"])):
            sym = s["symbol"]
            nm = t["terminals"][sym]["name"] if sym < len(t["terminals"]) else t["nonterminals"][sym - len(t["terminals"])]["name"]
            if v != "%sS%d" % (nm, i):
                bad.append(("State-name", "State variant %d is %s, expected %sS%d" % (i, v, nm, i)))
                break
    for en, first in (("TokenKind", "STOP"), ("State", nf["st"][0] if nf["st"] else None)):
        e = g.item("enum", en)
        if e and not (e["variants"] and e["variants"][0]["default"] and not any(v["default"] for v in e["variants"][1:])):
            bad.append(("default-variant", "#[default] of enum %s is not its first variant" % en))
    exp_pk = [gen.prod_kind_name(t, p) for p in gen.user_productions(t)]
    if nf["pk"] != exp_pk:
        bad.append(("ProdKind-order", "enum ProdKind %s != productions %s" % (nf["pk"][:6], exp_pk[:6])))
    # From<ProdKind> for NonTermKind
    im = g.impl("From<ProdKind>", "NonTermKind")
    if im:
        f = [x for x in im["items"] if x.get("ident") == "from"]
        scr, arms = gen.match_arms(f[0]["body"]) if f else (None, None)
        got = {}
        for pat, val in arms or []:
            got[gen.last_seg(pat)] = gen.last_seg(val)
        for p in gen.user_productions(t):
            cells += 1
            nm = gen.prod_kind_name(t, p)
            exp = t["nonterminals"][p["nonterminal"]]["name"]
            if got.get(nm) != exp:
                bad.append(("prod-nonterm", "From<ProdKind>: %s => %s, expected %s" % (nm, got.get(nm), exp)))
    else:
        bad.append(("prod-nonterm-impl", "impl From<ProdKind> for NonTermKind not found"))
    if "actions" in nf:
        # every (state, terminal) cell
        for si, s in enumerate(t["states"]):
            if si >= len(nf["actions"]):
                bad.append(("actions-rows", "no action row for state %d" % si))
                break
            row = nf["actions"][si]
            if len(row) != len(t["terminals"]):
                bad.append(("actions-cols", "state %d has %d action cells, %d terminals" % (si, len(row), len(t["terminals"]))))
                continue
            for ti, cell in enumerate(s["actions"]):
                cells += 1
                exp = [gen.expected_action(a) for a in cell]
                if row[ti] != exp:
                    bad.append(("action-cell", "actions[state %d (%s)][%s]: generated %s, computed %s" % (
                        si, nf["st"][si] if si < len(nf["st"]) else "?", t["terminals"][ti]["name"], row[ti], exp)))
            grow = nf["gotos"][si] if si < len(nf["gotos"]) else None
            if grow is None or len(grow) != len(t["nonterminals"]):
                bad.append(("goto-cols", "state %d goto row has %s cells" % (si, None if grow is None else len(grow))))
            else:
                for ni, exp in enumerate(s["gotos"]):
                    cells += 1
                    if grow[ni] != exp:
                        bad.append(("goto-cell", "gotos[state %d][%s]: generated %s, computed %s" % (
                            si, t["nonterminals"][ni]["name"], grow[ni], exp)))
            trow = nf["token_kinds"][si] if si < len(nf["token_kinds"]) else None
            exp = [(a, b) for a, b in s["sorted_terminals"]]
            cells += 1
            if trow != exp:
                bad.append(("token-kinds", "expected_token_kinds[state %d]: generated %s, computed %s" % (si, trow, exp)))
            if not exp:
                bad.append(("no-expected-token", "state %d has no expected token kind (error_expected would index an empty list)" % si))
    # default_layout
    im = g.impl("StateT", "State")
    if im:
        f = [x for x in im["items"] if x.get("ident") == "default_layout"]
        body = f[0]["body"] if f else []
        cells += 1
        if t["layout_state"] is None:
            if not (len(body) == 1 and is_i(body[0], "None")):
                bad.append(("default-layout", "default_layout() is %s, table has no layout state" % flat(body)))
        else:
            st = gen.last_seg(body[1][2]) if len(body) > 1 and is_i(body[0], "Some") and is_g(body[1]) else None
            if nf["g"]["state_idx"].get(st) != t["layout_state"]:
                bad.append(("default-layout", "default_layout() is %s, layout state is %d" % (flat(body), t["layout_state"])))
    # accessor fns
    im = g.impl("ParserDefinition<")
    if im:
        fns = {x.get("ident"): x for x in im["items"]}
        for nm, key in (("longest_match", "lexical_disamb_longest_match"), ("grammar_order", "lexical_disamb_grammar_order")):
            cells += 1
            b = fns.get(nm, {}).get("body", [])
            v = b[0][1] if len(b) == 1 and b[0][0] == "i" else flat(b)
            if v != ("true" if g.settings[key] else "false"):
                bad.append(("setting-" + nm, "fn %s() returns %s, settings.%s is %s" % (nm, v, key, g.settings[key])))
        bad.extend(accessor_dimensions(fns, nf["layout"]))
    else:
        bad.append(("parser-definition-impl", "impl ParserDefinition not found"))
    # constructor arguments of the runtime parser (positional, same-typed bools)
    bad.extend(constructor_args(g, t))
    cells += 1
    # constants
    exp_consts = {"TERMINAL_COUNT": len(t["terminals"]), "STATE_COUNT": len(t["states"])}
    if nf["layout"] == "arrays":
        exp_consts["NONTERMINAL_COUNT"] = len(t["nonterminals"])
        exp_consts["MAX_ACTIONS"] = max([len(c) for s in t["states"] for c in s["actions"]] + [0])
    exp_consts["MAX_RECOGNIZERS"] = max([len(s["sorted_terminals"]) for s in t["states"]] + [0])
    for c, v in exp_consts.items():
        it = g.item("const", c)
        cells += 1
        if it is None or it["expr"].replace("usize", "").strip() != str(v):
            bad.append(("const-" + c, "const %s is %s, expected %d" % (c, it["expr"] if it else None, v)))
    # recognizers
    rec = g.item("static", "RECOGNIZERS")
    if g.settings["lexer_type"] == "Default":
        if rec is None:
            bad.append(("recognizers", "static RECOGNIZERS not found"))
        else:
            elems = gen.array_elems(rec["expr"]) or []
            if len(elems) != len(t["terminals"]):
                bad.append(("recognizers-count", "%d recognizers for %d terminals" % (len(elems), len(t["terminals"]))))
            for i, (el, term) in enumerate(zip(elems, t["terminals"])):
                cells += 1
                args = split(el[1][2]) if len(el) > 1 and is_g(el[1], "(") else []
                tkn = gen.last_seg(args[0]) if args else None
                kind = args[1][2][1] if len(args) > 1 and len(args[1]) > 2 else None
                if tkn != term["name"]:
                    bad.append(("recognizer-kind", "RECOGNIZERS[%d] is for %s, terminal %d is %s" % (i, tkn, i, term["name"])))
                    continue
                r = term["recognizer"]
                if term["name"] == "STOP":
                    ok = kind == "Stop"
                elif r is None:
                    ok = False
                elif r["kind"] == "str":
                    lit = [x for x in gen_walk(args[1]) if x[0] == "l"]
                    ok = kind == "StrMatch" and lit and gen.rust_str(lit[0][1]) == r["text"]
                else:
                    lits = [x for x in gen_walk(args[1]) if x[0] == "l"]
                    ok = kind == "RegexMatch" and len(lits) == 2 and gen.rust_str(lits[0][1]) == "^" and gen.rust_str(lits[1][1]) == r["text"]
                if not ok:
                    bad.append(("recognizer", "RECOGNIZERS[%d] (%s) is %s, terminal recogniser is %s" % (
                        i, term["name"], flat(args[1])[:80] if len(args) > 1 else None, r)))
    stats["cells"] += cells
    seen = set()
    for k, msg in bad:
        if (k, msg) in seen:
            continue
        seen.add((k, msg))
        if len(seen) > 6:
            break
        res.violation(rid, "%s/%s" % (name, k), "%s [%s layout, %s]: %s" % (name, nf["layout"], g.settings["parser_algo"], msg), where)
    if not bad:
        res.ok(rid, name + "/" + str(nf["layout"]), where, "%d cells/queries equal" % cells)
    return nf


def gen_walk(tokens):
    for t in tokens:
        yield t
        if t[0] == "g":
            yield from gen_walk(t[2])


def find_new_calls(tokens, out):
    for i, t in enumerate(tokens):
        if t[0] == "g":
            find_new_calls(t[2], out)
        if is_i(t, "new") and i + 1 < len(tokens) and is_g(tokens[i + 1], "(") and i >= 2 and is_p(tokens[i - 1], "::") and tokens[i - 2][0] == "i":
            out.append((tokens[i - 2][1], [flat(a).replace(" ", "") for a in split(tokens[i + 1][2])]))


def constructor_args(g, t):
    """LRParser::new(def, state, partial_parse, has_layout, lexer, builder) / GlrParser::new(def, partial_parse, has_layout, lexer) /
    StringLexer::new(skip_ws, recognizers): the literal arguments equal the settings in force."""
    bad = []
    s = g.settings
    calls = []
    for it in g.items:
        if it["kind"] == "impl":
            for f in it["items"]:
                if f.get("ident") == "new" and "body" in f:
                    find_new_calls(f["body"], calls)
    b = lambda v: "true" if v else "false"
    exp_partial, exp_layout = b(s["partial_parse"]), b(t["has_layout"])
    exp_skip = b(s["skip_ws"] and not t["has_layout"])
    seen = False
    for name, args in calls:
        if name == "LRParser" and len(args) >= 4:
            seen = True
            if s["parser_algo"] != "LR":
                bad.append(("parser-ctor", "LRParser::new in a parser generated for %s" % s["parser_algo"]))
            if (args[2], args[3]) != (exp_partial, exp_layout):
                bad.append(("parser-ctor-args", "LRParser::new(.., partial_parse = %s, has_layout = %s, ..), settings say partial_parse = %s, "
                            "grammar has_layout = %s" % (args[2], args[3], exp_partial, exp_layout)))
        if name == "GlrParser" and len(args) >= 3:
            seen = True
            if s["parser_algo"] != "GLR":
                bad.append(("parser-ctor", "GlrParser::new in a parser generated for %s" % s["parser_algo"]))
            if (args[1], args[2]) != (exp_partial, exp_layout):
                bad.append(("parser-ctor-args", "GlrParser::new(.., partial_parse = %s, has_layout = %s, ..), settings say partial_parse = %s, "
                            "grammar has_layout = %s" % (args[1], args[2], exp_partial, exp_layout)))
        if name == "StringLexer" and args:
            if args[0] != exp_skip:
                bad.append(("lexer-ctor-args", "StringLexer::new(skip_ws = %s, ..), expected settings.skip_ws && !has_layout = %s" % (args[0], exp_skip)))
    if not seen:
        bad.append(("parser-ctor-missing", "no LRParser::new / GlrParser::new call found in the generated parser"))
    return bad


def accessor_dimensions(fns, layout):
    """C08-R3: index expressions of the accessors are applied in the declared dimension order."""
    bad = []
    def idx_chain(body, field):
        """identifiers used as `[x as usize]` right after `.field`"""
        out = []
        for i, t in enumerate(body):
            if is_i(t, field) and i > 0 and is_p(body[i - 1], "."):
                j = i + 1
                while j < len(body) and is_g(body[j], "["):
                    inner = body[j][2]
                    out.append(inner[0][1] if inner and inner[0][0] == "i" else flat(inner))
                    j += 1
                call = None
                if j < len(body) and is_g(body[j], "("):
                    call = flat(body[j][2])
                return out, call
        return None, None
    def params(f):
        return [(p[0], p[1].replace(" ", "")) for p in f.get("params", []) if p[0] != "self"]
    a = fns.get("actions")
    g = fns.get("goto")
    e = fns.get("expected_token_kinds")
    if a:
        ps = dict((ty, nm) for nm, ty in params(a))
        chain, call = idx_chain(a["body"], "actions")
        exp = [ps.get("State"), ps.get("TokenKind")]
        got = (chain or []) + ([call] if call else [])
        if got != exp:
            bad.append(("accessor-actions", "actions accessor indexes %s, declared dimensions are [state][token] = %s" % (got, exp)))
        if layout == "arrays" and not any(is_i(t, "take_while") for t in a["body"]):
            bad.append(("accessor-actions-reader", "arrays actions accessor is not a take_while(!Error) prefix reader"))
    if g:
        ps = dict((ty, nm) for nm, ty in params(g))
        chain, call = idx_chain(g["body"], "gotos")
        exp = [ps.get("State"), ps.get("NonTermKind")]
        got = (chain or []) + ([call] if call else [])
        if got != exp:
            bad.append(("accessor-goto", "goto accessor indexes %s, declared dimensions are [state][nonterm] = %s" % (got, exp)))
    if e:
        ps = dict((ty, nm) for nm, ty in params(e))
        chain, call = idx_chain(e["body"], "token_kinds")
        if chain != [ps.get("State")]:
            bad.append(("accessor-token-kinds", "expected_token_kinds indexes %s, declared dimension is [state]" % chain))
        if not any(is_i(t, "map_while") for t in e["body"]):
            bad.append(("accessor-token-kinds-reader", "expected_token_kinds is not a map_while prefix reader"))
    return bad


def run(ctx, res):
    rid = res.rule("C08-R1", "every cell of every generated parser equals the table the compiler computed (actions, gotos, "
                   "expected tokens, enums, default_layout, settings fns, constants, recognisers), both layouts", floor=100)
    rid2 = res.rule("C08-R2", "for each grammar the Arrays and Functions parsers answer every query identically", floor=50)
    stats = {"cells": 0}
    nfs = {}
    programs = 0
    for fset in ("gen-functions", "gen-arrays"):
        d = ctx.dir(fset)
        import json, os
        b = json.load(open(os.path.join(d, "build.json")))
        if b["rc"] != 0:
            errs = b["errors"]
            gen_errs = [e for e in errs if any("/out/" in s["file"] or s["file"].endswith("_actions.rs") for s in e["spans"])]
            if gen_errs:
                for e in gen_errs[:5]:
                    res.violation("C08-R5", "%s/%s" % (fset, (e["spans"][0]["file"] if e["spans"] else "?").split("/out/")[-1]),
                                  "generated code does not compile in the %s build: %s" % (fset, e["message"]),
                                  e["spans"][0]["file"] if e["spans"] else None, e["rendered"][:600])
            else:
                from . import facts
                raise facts.ToolError("the tree does not build (%s): %s" % (fset, b["stderr_tail"][-1500:]))
        for g in gen.load_set(d):
            programs += 1
            nf = check_one(g, res, rid, stats)
            if nf is not None and "actions" in nf:
                nfs.setdefault(key_of(g), {})[nf["layout"]] = (nf, g)
    # witness corpus (and, in the thorough tier, every grammar of the repository x a fixed configuration list)
    from . import witness
    wsets = ["witness"] + (["matrix"] if ctx.tier == "thorough" else [])
    wn = 0
    for ws_name in wsets:
        ws, build = witness.load(ctx, ws_name)
        for e, g in ws:
            if g is None or (ws_name == "witness" and "C08" not in e.get("serves", [])):
                continue
            g.name = "%s:%s[%s]" % (ws_name, e["witness"], " ".join(e["config"]))
            programs += 1
            wn += 1
            check_one(g, res, rid, stats)
    res.extra["witness_programs"] = wn
    res.rule("C08-R5", "both layout builds type-check (rustc)", floor=0)
    res.ok("C08-R5", "builds", None, "gen-functions and gen-arrays cargo check --workspace --all-targets succeeded")
    pairs = 0
    for name, d in sorted(nfs.items()):
        if "arrays" in d and "functions" in d:
            pairs += 1
            a, ga = d["arrays"]
            f, gf = d["functions"]
            same = all(a[k] == f[k] for k in ("actions", "gotos", "token_kinds", "tk", "pk", "ntk", "st"))
            if same:
                res.ok(rid2, name, None, "normal forms equal")
            else:
                diff = [k for k in ("actions", "gotos", "token_kinds", "tk", "pk", "ntk", "st") if a[k] != f[k]]
                res.violation(rid2, name, "%s: the two layouts differ in %s" % (name, diff))
    res.level = LEVEL
    res.extra.update({"programs": programs, "disagreements_checked": stats["cells"], "layout_pairs": pairs,
                      "exhaustive": True})
    res.samples.append({"program": "tests calculator (functions)", "query": "actions[state 0][Num]", "generated": "[('s', 1)]",
                        "computed": "[('s', 1)]"})
    from . import c08_templates
    c08_templates.run(ctx, res)
    res.explanation = (
        "Translation validation of generated sources: the repository's own build generates %d parsers (Functions layout "
        "and, with the `arrays` cargo feature the test command never sets, the Arrays layout; LR and GLR). Each file is "
        "parsed with syn and reduced to a normal form (actions[state][terminal], gotos[state][nonterminal], "
        "expected_token_kinds[state], enums, default_layout, settings fns, constants, RECOGNIZERS) which is compared "
        "cell by cell (%d comparisons) with the table the compiler computed, dumped before code generation by the "
        "cfg(rustemo_verif) hook. The two layouts of the same grammar are compared with each other, the accessor index "
        "dimensions are checked against the parameter types, both builds are type-checked by rustc, and the two template "
        "files are compared as siblings. Bound: the programs are those the build generates, not all grammars; within a "
        "program the comparison is complete. Nothing generated is executed." % (programs, stats["cells"]))
    res.assumptions = ["the hook dump is what the compiler computed (it reads the same LRTable the generator reads)",
                       "the runtime reads the generated definition only through the ParserDefinition accessors"]
