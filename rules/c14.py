"""C14 - the generic parse tree is lossless: tokens and layout reconstruct the input."""
from . import mir, rt
from .mir import Sim, TermBuilder, callee, fmt, has_call, has_field
from .rt import is_call, calls, idx

LEVEL = "other"


def run(ctx, res):
    F = ctx.facts("core")
    rid1 = res.rule("C14-R1", "layout is tried only when no token matches, in the layout state (restored afterwards); a non-empty "
                    "layout is stored with set_layout_ahead(Some(l)) before the retry", floor=3)
    f, rows = rt.lr_next_token_table(F, res, rid1)
    n_retry = 0
    for a, out, p in rows:
        lp = calls(p, "parse_with_context")
        if a.get("token") == "Some" and lp:
            res.violation(rid1, "layout-when-token", "the layout parser runs although the lexer returned a token", f.loc())
        if lp:
            i_lp = idx(p, "parse_with_context")
            ss = [(i, e) for i, e in enumerate(p.events) if e[0] == "call" and mir.call_matches(e[1], "Context::set_state")]
            before = [e for i, e in ss if i < i_lp]
            after = [e for i, e in ss if i > i_lp]
            okb = before and has_call(before[-1][2][1], "State::default_layout")
            oka = after and is_call(after[0][2][1], "Context::state")
            if not (okb and oka):
                res.violation(rid1, "layout-state-bracket", "the layout parser does not run between set_state(default_layout) and "
                              "set_state(saved state)", f.loc())
                break
        if out == "retry":
            n_retry += 1
            sl = calls(p, "Context::set_layout_ahead")
            v = sl[-1][2][1] if sl else None
            inner = dict(v[2]).get("0") if v and v[0] == "agg" and v[1].endswith("Option::Some") else None
            if inner is not None and has_call(inner, "parse_with_context"):
                res.ok(rid1, "retry/store-layout", f.loc(), "set_layout_ahead(Some(layout)) before continue")
            else:
                res.violation(rid1, "retry/store-layout", "the parsed layout is not stored before lexing is retried (set_layout_ahead "
                              "gets %s)" % (fmt(v)[:100] if v else None), f.loc())
    else:
        if n_retry:
            res.ok(rid1, "layout-state-bracket", f.loc(), "%d retry rows" % n_retry)
    # ... and the retry can come round AGAIN (layout, no token, more layout: a layout rule that does not repeat by itself,
    # `Layout: WS | Comment;`). What is stored must then be all the layout skipped since the last token, not the last piece:
    # set_layout_ahead has to be given something that also holds what an earlier round stored (the previous layout_ahead, or
    # a slice of the input from a start remembered before the first round). Otherwise the pieces before the last are in no
    # leaf and the input cannot be put together again (D35).
    for a, out, p in rows:
        if out != "retry":
            continue
        sl = calls(p, "Context::set_layout_ahead")
        v = sl[-1][2][1] if sl else None
        inner = dict(v[2]).get("0") if v and v[0] == "agg" and v[1].endswith("Option::Some") else None
        if inner is None:
            continue
        accumulates = has_call(inner, "Context::layout_ahead") or has_call(inner, "Input::slice") or \
            (isinstance(inner, tuple) and inner[0] == "index")
        if accumulates:
            res.ok(rid1, "retry/layout-accumulates", f.loc(), "the stored layout includes what earlier rounds skipped")
        else:
            res.violation(rid1, "retry/layout-accumulates", "LR next_token can go round the layout retry more than once, and each round "
                          "stores only the piece it skipped itself (set_layout_ahead(Some(<result of this layout parse>))): with "
                          "`Layout: Ws | Comment;` the input `a /*c*/ b` is accepted and the leaf `b` carries ` `, the pieces ` ` "
                          "and `/*c*/` before it are lost - the tree does not reproduce the input", f.loc())
        break
    # ... "inserting layout between the tokens of a sentence never changes which tree is built": with tokens tried first, layout
    # that BEGINS like an expected token is taken for that token (`1/*c*/ / 2` under `E: E '/' E | Num` with `/* */` comments:
    # the `/` of `/*` is an expected Div; `1 /*c*/ / 2` parses). Both parsers work that way, by design (D41): known finding,
    # keyed on the order the decision table shows.
    tokens_first = any(a.get("token") == "Some" and not calls(p, "parse_with_context") for a, out, p in rows) and \
        any(calls(p, "parse_with_context") for a, out, p in rows)
    if tokens_first:
        res.violation(rid1, "layout-after-tokens", "the token fetch asks the lexer first and the layout parser only when no expected token "
                      "matched: layout glued to the previous token whose first characters form an expected token is lexed as that "
                      "token - inserting layout between two tokens of a sentence can change the parse or make it fail", f.loc())
    elif rows:
        res.ok(rid1, "layout-after-tokens", f.loc(), "layout is not tried after tokens only")
    # R2 layout survives re-lexing after a reduce; R7 it is reset after a shift
    rid2 = res.rule("C14-R2", "layout read before the re-lex after a reduce is restored after it; after a shift the layout is reset "
                    "before the next token is looked for", floor=3)
    g, paths = rt.cache(F).paths(rt.LR_PWC)
    verdicts = []
    for p in paths:
        kind, action = rt.lr_action_kind(p)
        if kind == "Reduce":
            # The lookahead is fetched again in the new state. The layout in front of it must come out of that neither lost
            # nor clobbered: if the second fetch finds no layout (the usual case: the first fetch already moved past it) the
            # layout read BEFORE is put back; if it finds one (the first fetch had taken the start of a comment for a token -
            # a lookahead of the merged LALR state - and only the second sees the comment) that one stays (D40).
            i_nt = idx(p, "::next_token", 1)
            la = [i for i, e in enumerate(p.events) if e[0] == "call" and mir.call_matches(e[1], "Context::layout_ahead")]
            sl = [(i, e) for i, e in enumerate(p.events) if e[0] == "call" and mir.call_matches(e[1], "Context::set_layout_ahead")]
            if i_nt is None:
                continue
            saved = any(i < i_nt for i in la)
            restored = any(i > i_nt and is_call(e[2][1], "Context::layout_ahead") for i, e in sl)
            found = None        # did the second fetch find layout, as far as this path knows
            for i, e in enumerate(p.events):
                if i <= i_nt or e[0] != "cond":
                    continue
                t, v = e[1], e[2]
                if is_call(t, "::is_none") and t[2] and is_call(t[2][0], "Context::layout_ahead") and v in (0, 1):
                    found = (v == 0)
                elif is_call(t, "::is_some") and t[2] and is_call(t[2][0], "Context::layout_ahead") and v in (0, 1):
                    found = (v == 1)
                elif isinstance(t, tuple) and t[0] == "discr" and is_call(t[1], "Context::layout_ahead") and isinstance(v, frozenset):
                    found = (v == frozenset(["Some"])) if v in (frozenset(["Some"]), frozenset(["None"])) else found
            key = "reduce/restore-layout"
            if found is None:
                if saved and restored:
                    verdicts.append((key, "clobber"))
                else:
                    verdicts.append((key, "lost"))
            elif found:
                verdicts.append((key, "clobber" if restored else "ok"))
            else:
                verdicts.append((key, "ok" if (saved and restored) else "lost"))
        if kind == "Shift":
            i_sh = idx(p, "LRBuilder::shift_action")
            i_nt = idx(p, "::next_token", 1)
            sl = [(i, e) for i, e in enumerate(p.events) if e[0] == "call" and mir.call_matches(e[1], "Context::set_layout_ahead")]
            reset = [i for i, e in sl if i_sh is not None and i_nt is not None and i_sh < i < i_nt and e[2][1][0] == "agg"
                     and e[2][1][1].endswith("Option::None")]
            if reset:
                res.ok(rid2, "shift/reset-layout", g.loc())
            else:
                res.violation(rid2, "shift/reset-layout", "the layout consumed by a shifted token is not reset before the next token is "
                              "looked for: with a Layout rule a token without preceding layout inherits the previous token's "
                              "layout (the layout parser only ever sets it)", g.loc())
    kinds = {v for k, v in verdicts}
    if not verdicts:
        res.anchor_lost(rid2, "no Reduce path with a second token fetch in the LR loop", g.loc())
    elif "lost" in kinds:
        res.violation(rid2, "reduce/restore-layout", "after a reduce the layout read before re-lexing is not restored (the second "
                      "lexing starts after the skipped layout and overwrites it with None)", g.loc())
    elif "clobber" in kinds:
        res.violation(rid2, "reduce/keep-new-layout", "after a reduce the layout read before re-lexing is put back whatever the second "
                      "fetch found: a comment that only the second fetch sees (its first character was taken for a token in the "
                      "merged LALR state) is replaced by the older value and is in no leaf", g.loc())
    else:
        res.ok(rid2, "reduce/restore-layout", g.loc(), "%d Reduce path(s): put back when the second fetch found none" % len(verdicts))
        res.ok(rid2, "reduce/keep-new-layout", g.loc(), "kept when it found one")
    # R3 whitespace skipping
    rid3 = res.rule("C14-R3", "StringLexer::skip: skipped slice = input[pos .. pos + sum(len_utf8 of leading whitespace)], stored as "
                    "layout_ahead and the position advanced by it; nothing skipped => layout_ahead = None, position untouched", floor=4)
    from . import c15, report
    sub = report.Result("C14", ctx.tier)
    c15.r2d_boundaries(F, sub)
    for inst in sub.instances:
        if inst["ok"]:
            res.ok(rid3, inst["instance"], inst.get("where"), inst.get("detail"))
    for v in sub.violations:
        res.violation(rid3, v["key"].split("/", 1)[1], v["what"], v.get("where"))
    h = F.one(r"^rustemo::lexer::StringLexer::<[^>]*>::skip$")
    for p in Sim(h, F).run():
        gt = [v for t, v in p.cond if t[0] == "bin" and t[1] == "Gt" and t[3] == ("const", 0)]
        sl = calls(p, "Context::set_layout_ahead")
        sp = calls(p, "Context::set_position")
        if not gt:
            continue
        if gt[0] == 1:
            v = sl[0][2][1] if sl else None
            inner = dict(v[2]).get("0") if v and v[0] == "agg" and v[1].endswith("Option::Some") else None
            ok = inner is not None and mir.contains(inner, lambda x: x == ("param", "input")) and sp
            if ok:
                res.ok(rid3, "skip/some", h.loc())
            else:
                res.violation(rid3, "skip/some", "skipped whitespace is not stored as layout_ahead = Some(slice of input)", h.loc())
        else:
            v = sl[0][2][1] if sl else None
            ok = v is not None and v[0] == "agg" and v[1].endswith("Option::None") and not sp
            if ok:
                res.ok(rid3, "skip/none", h.loc())
            else:
                res.violation(rid3, "skip/none", "when nothing is skipped layout_ahead must be reset to None and the position left alone", h.loc())
    # R4 builders store layout on the right node
    rid4 = res.rule("C14-R4", "TreeBuilder stores context.layout_ahead() with the shifted token; a nonterminal takes the layout of its "
                    "first child, None without children", floor=3)
    sh = F.one(r"^<rustemo::lr::builder::TreeBuilder<.*> as rustemo::lr::builder::LRBuilder<.*>>::shift_action$")
    for p in Sim(sh, F).run():
        pushes = calls(p, "Vec::<T, A>::push")
        node = pushes[-1][2][1] if pushes else None
        lay = dict(node[2]).get("layout") if node and node[0] == "agg" else None
        if is_call(lay, "Context::layout_ahead") and lay[2][0] == ("param", "context"):
            res.ok(rid4, "shift/layout", sh.loc())
        else:
            res.violation(rid4, "shift/layout", "the leaf's layout is %s, expected context.layout_ahead()" % (fmt(lay)[:80] if lay else None), sh.loc())
        break
    rd = F.one(r"^<rustemo::lr::builder::TreeBuilder<.*> as rustemo::lr::builder::LRBuilder<.*>>::reduce_action$")
    seen = set()
    for p in Sim(rd, F).run():
        gt = [v for t, v in p.cond if t[0] == "bin" and t[1] == "Gt" and t[2] == ("param", "prod_len")]
        lays = [e[2] for e in p.events if e[0] == "set" and e[1] == "layout"]
        if not gt or not lays:
            continue
        l = lays[-1]
        if gt[0] == 1:
            ok = mir.contains(l, lambda x: isinstance(x, tuple) and (x[0] == "index" and x[2] == ("const", 0) or
                                                                       x[0] == "call" and "index" in x[1].lower() and ("const", 0) in x[2])) \
                and has_call(l, "split_off") or (isinstance(l, tuple) and l[0] == "vfield" and l[3] == "layout" and mir.contains(l, lambda x: x == ("const", 0)))
            key = "reduce/layout-first-child"
        else:
            ok = l[0] == "agg" and l[1].endswith("Option::None")
            key = "reduce/layout-none"
        if key in seen:
            continue
        seen.add(key)
        if ok:
            res.ok(rid4, key, rd.loc())
        else:
            res.violation(rid4, key, "a nonterminal's layout is %s" % fmt(l)[:120], rd.loc())
    # R5 the layout parser returns input
    rid5 = res.rule("C14-R5", "the layout parser yields a slice of the input (SliceBuilder over the same input, span of the reduced "
                    "layout)", floor=2)
    sb = F.one(r"^<rustemo::lr::builder::SliceBuilder<.*> as rustemo::lr::builder::LRBuilder<.*>>::reduce_action$")
    for p in Sim(sb, F).run():
        st = [e for e in p.events if e[0] == "store" and isinstance(e[1], tuple) and e[1][0] == "field" and e[1][2] == "slice"]
        if st:
            v = st[-1][2]
            inner = dict(v[2]).get("0") if v[0] == "agg" else None
            ok = inner is not None and has_field(inner, "input", "SliceBuilder") and has_call(inner, "Context::span")
            if ok:
                res.ok(rid5, "slice-builder", sb.loc(), "slice = Some(&self.input[context.span().into()])")
            else:
                res.violation(rid5, "slice-builder", "SliceBuilder stores %s" % fmt(v)[:120], sb.loc())
        break
    tb = TermBuilder(g, F)
    for cl in F.all_nested_closures(g):
        for b, t in cl.calls():
            if callee(t).endswith("SliceBuilder::<'i, I>::new"):
                a = TermBuilder(cl, F).operand(t["args"][0])
                if a == ("upvar", "input") or mir.contains(a, lambda x: isinstance(x, tuple) and x[0] in ("upvar", "param") and x[1] == "input"):
                    res.ok(rid5, "layout-parser-input", cl.loc(), "SliceBuilder::new(input)")
                else:
                    res.violation(rid5, "layout-parser-input", "the layout parser's SliceBuilder is built over %s, not the parsed input" % fmt(a)[:80], cl.loc())
    # R6 configuration
    rid6 = res.rule("C14-R6", "AUGL is created iff a rule named `layout` (case-insensitive) exists; default whitespace skipping is "
                    "off when the grammar has a Layout rule", floor=2)
    ep = F.one(r"GrammarBuilder::extract_productions_and_symbols$")
    found = False
    for cl in F.all_nested_closures(ep):
        names = [callee(t) for _, t in cl.calls()]
        if any(n.endswith("str>::to_lowercase") for n in names):
            tbc = TermBuilder(cl, F)
            for _, t in cl.calls():
                if callee(t).endswith("::eq") or callee(t).endswith("::ne"):
                    args = [tbc.operand(a) for a in t["args"]]
                    if any(mir.const_str(a) == "layout" for a in args) and any(has_call(a, "to_lowercase") and has_field(a, "name") for a in args):
                        found = True
                        res.ok(rid6, "layout-rule-lookup", cl.loc(), "rule.name.to_lowercase() == \"layout\"")
    if not found:
        res.violation(rid6, "layout-rule-lookup", "the Layout rule is no longer looked up case-insensitively by the name `layout` (a "
                      "grammar spelling it `layout:`/`LAYOUT:` silently gets no layout state)", ep.loc())
    # skip_ws = settings.skip_ws && !has_layout in the parser template (generator base.rs)
    bp = F.find(r"^<rustemo_compiler::generator::base::BasePartGenerator as rustemo_compiler::generator::PartGenerator<'g, 's>>::parser$")
    okc = False
    for f2 in bp:
        for p in Sim(f2, F, max_paths=200000).run():
            for e in p.events:
                if e[0] == "set" and e[1] == "skip_ws":
                    v = e[2]
                    conds = dict((fmt(t), vv) for t, vv in p.cond)
                    # lazy-and: skip_ws && !has_layout
                    pass
            sk = [e for e in p.events if e[0] == "set" and e[1] == "skip_ws"]
            if sk:
                okc = True
        # decision table over (settings.skip_ws, has_layout)
        rows = set()
        for p in Sim(f2, F, max_paths=200000).run():
            sw = [v for t, v in p.cond if t[0] == "field" and t[2] == "skip_ws" and str(t[3]).endswith("Settings")]
            hl = [v for t, v in p.cond if mir.call_matches(t[1] if t[0] == "call" else "", "Grammar::has_layout") or
                  (t[0] == "call" and t[1].endswith("Grammar::has_layout")) or (t[0] == "var" and t[1] == "has_layout")
                  or (isinstance(t, tuple) and t[0] == "call" and "has_layout" in t[1])]
            val = [e[2] for e in p.events if e[0] == "set" and e[1] == "skip_ws"]
            if val:
                rows.add((sw[0] if sw else None, hl[0] if hl else None, fmt(val[-1])))
        exp = {(0, None, "0"), (1, 1, "0"), (1, 0, "1")}
        exp2 = {(0, None, "0")}
        lazy = {r for r in rows if r[0] == 1}
        if rows - lazy == exp2 and len(lazy) == 1 and next(iter(lazy))[2].startswith("Not(Grammar::has_layout("):
            res.ok(rid6, "skip-ws-table", f2.loc(), "skip_ws = settings.skip_ws && !grammar.has_layout()")
        elif rows == exp:
            res.ok(rid6, "skip-ws-table", f2.loc(), "skip_ws = settings.skip_ws && !has_layout")
        elif rows:
            res.violation(rid6, "skip-ws-table", "skip_ws decision table is %s, expected settings.skip_ws && !grammar.has_layout()" % sorted(rows, key=str), f2.loc())
        else:
            res.anchor_lost(rid6, "skip_ws computation not found in the parser template generator", f2.loc())
    # R7: the tree handed out is the tree of THIS parse: TreeBuilder::get_result returns the node pushed last. A builder of a
    # parser object that rejected an earlier input still holds that input's nodes below the top; any other element of the
    # stack is a piece of another input - its leaves and layout do not spell this one (seed C14-10). Shares C02-R4.
    from . import c02, report as _report
    rid7 = res.rule("C14-R7", "the generic tree returned is the node pushed last by this parse (TreeBuilder::get_result = top of the "
                    "result stack; shares C02-R4 tree-builder/result)", floor=1)
    sub7 = _report.Result("C14", ctx.tier)
    try:
        c02.r4b_result(F, sub7, sub7.rule("C02-R4", "shared"))
        for inst in sub7.instances:
            if inst["ok"]:
                res.ok(rid7, inst["instance"], inst.get("where"), inst.get("detail"))
        for v in sub7.violations:
            res.violation(rid7, v["key"].split("/", 1)[1], v["what"], v.get("where"))
        for u in sub7.undecided_list:
            res.undecided(rid7, u["what"], u.get("where"))
    except Exception as e:      # noqa
        res.undecided(rid7, "TreeBuilder::get_result not analysed: %s" % e)
    res.explanation = (
        "Decides every hand-off a byte of layout goes through in the LR parser: layout tried only when no token matches and "
        "in the layout state; stored before the retry; restored after the re-lex that follows a reduce; reset after a shift; "
        "whitespace skipping (slice, position, None when nothing skipped); builders store it on the right node; the layout "
        "parser returns a slice of the input; configuration (AUGL lookup, skip_ws && !has_layout). Not decided: the round "
        "trip itself; that stored layout is a sentence of Layout; GLR trees drop layout by design.")
