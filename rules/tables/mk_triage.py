#!/usr/bin/env python3
"""Helper used while triaging: expands (pattern -> status, reason) rules over the
census keys found on the current tree into the frozen exact-key tables
panic_runtime.json / panic_compiler.json. The tables, not this script, are what
the checks read; a key that no pattern covers is printed and left out (it will
be reported as a new undischarged site)."""
import fnmatch, json, os, sys
sys.path.insert(0, os.path.dirname(os.path.dirname(os.path.dirname(os.path.abspath(__file__)))))
from rules import facts, mir, census, report

def collect(crates, roots_fn, class_rules):
    d, th = facts.ensure(['core'])
    F = mir.Facts(d['core'])
    res = report.Result('X', 'quick'); res.rule('R', 'x')
    census.run_census(F, res, 'R', crates, roots_fn(F), {}, class_rules, 'X')
    keys = {}
    for v in res.violations:
        k = v['key'][2:]
        keys.setdefault(k, v['where'])
    return keys

def expand(keys, rules, out):
    rows = []
    left = []
    for k, where in sorted(keys.items()):
        hit = None
        for pat, status, reason in rules:
            if fnmatch.fnmatchcase(k, pat):
                hit = (status, reason)
                break
        if hit is None:
            left.append((k, where))
            continue
        row = {"key": k, "status": hit[0], "reason": hit[1]}
        rows.append(row)
    json.dump(rows, open(out, 'w'), indent=0)
    print(out, len(rows), "rows;", len(left), "untriaged")
    for k, w in left:
        print("  UNTRIAGED", k, "@", w)

if __name__ == "__main__":
    which = sys.argv[1]
    here = os.path.dirname(os.path.abspath(__file__))
    if which == "runtime":
        from rules import c15
        expand(collect(c15.CRATES, c15.roots, c15.CLASS_RULES), c15.TRIAGE_RULES, os.path.join(here, "panic_runtime.json"))
    else:
        from rules import c16
        expand(collect(c16.CRATES, c16.roots, c16.CLASS_RULES), c16.TRIAGE_RULES, os.path.join(here, "panic_compiler.json"))
