#!/usr/bin/env python3
"""Helper used while triaging: expands (pattern -> status, reason) rules over the
census keys found on the current tree into the frozen exact-key tables
panic_runtime.json / panic_compiler.json. The tables, not this script, are what
the checks read; a key that no pattern covers is printed and left out (it will
be reported as a new undischarged site)."""
import fnmatch, json, os, sys
sys.path.insert(0, os.path.dirname(os.path.dirname(os.path.dirname(os.path.abspath(__file__)))))
from rules import facts, mir, census, report

def collect(crates, roots_fn, class_rules):
    d, th = facts.ensure(['core'])
    F = mir.Facts(d['core'])
    res = report.Result('X', 'quick'); res.rule('R', 'x')
    census.run_census(F, res, 'R', crates, roots_fn(F), {}, class_rules, 'X')
    keys = {}
    COUNTS.clear()
    for v in res.violations:
        k = v['key'][2:]
        keys.setdefault(k, v['where'])
        COUNTS[k] = COUNTS.get(k, 0) + 1
    return keys

def expand(keys, rules, out):
    """Groups the sites by (function, kind). A group whose sites all get the same (status, reason) becomes one row
    `<function>/<kind>/*` with the audited count (robust against edits that only change the producer expression; a new
    site of that kind in that function raises the count and alarms). Mixed groups are listed site by site."""
    import collections
    rows = []
    left = []
    groups = collections.OrderedDict()
    for k, where in sorted(keys.items()):
        hit = None
        for pat, status, reason in rules:
            if fnmatch.fnmatchcase(k, pat):
                hit = (status, reason)
                break
        if hit is None:
            left.append((k, where))
            continue
        root_kind = k.rsplit("/", 1)[0] if k.count("/") >= 2 else k
        # key is <root>/<kind>/<producer>; producers may contain '/', so split from the known kinds
        groups.setdefault(group_of(k), []).append((k, hit, where))
    for g, items in groups.items():
        kinds = {h for _, h, _ in items}
        if len(kinds) == 1:
            status, reason = items[0][1]
            row = {"key": g + "/*", "count": sum(COUNTS.get(k, 1) for k, _, _ in items), "status": status, "reason": reason,
                   "producers": [k[len(g) + 1:] for k, _, _ in items]}
            fid(row)
            rows.append(row)
        else:
            for k, (status, reason), _ in items:
                row = {"key": k, "status": status, "reason": reason}
                fid(row)
                rows.append(row)
    json.dump(rows, open(out, 'w'), indent=0)
    print(out, len(rows), "rows;", len(left), "untriaged")
    for k, w in left:
        print("  UNTRIAGED", k, "@", w)


def fid(row):
    """findings are identified by their defect id (stable under regrouping of the table)"""
    import re
    if row["status"] == "finding":
        m = re.search(r"\((D\d+[a-z]?)\)", row["reason"])
        if m:
            row["finding_key"] = m.group(1)


KINDS = {'unwrap', 'index', 'bounds', 'panic', 'assert', 'unreachable', 'todo', 'unimplemented', 'ident-new', 'parse-quote', 'refcell',
         'vec-op', 'overflow-sub', 'overflow-mul', 'div-zero', 'map-index', 'assert_eq', 'debug_assert', 'string-op', 'slice-op',
         'str-op', 'panic-const', 'overflow-shl', 'assert_ne', 'step_by', 'char', 'overflow-div', 'overflow-rem', 'overflow-neg'}
COUNTS = {}


def group_of(k):
    parts = k.split("/")
    for i, p in enumerate(parts):
        if p in KINDS and i > 0:
            return "/".join(parts[:i + 1])
    return k


if __name__ == "__main__":
    which = sys.argv[1]
    here = os.path.dirname(os.path.abspath(__file__))
    if which == "runtime":
        from rules import c15
        expand(collect(c15.CRATES, c15.roots, c15.CLASS_RULES), c15.TRIAGE_RULES, os.path.join(here, "panic_runtime.json"))
    else:
        from rules import c16
        expand(collect(c16.CRATES, c16.roots, c16.CLASS_RULES), c16.TRIAGE_RULES, os.path.join(here, "panic_compiler.json"))
