"""C07 - LR and GLR parsers built from the same deterministic grammar agree (sibling agreement of the two runtimes)."""
from . import mir, rt, report
from .mir import Sim, TermBuilder, callee, fmt, has_call, has_field
from .rt import is_call, calls, idx

LEVEL = "other"


def adopt(res, rid, sub, only=None, prefix=""):
    """re-label the instances/violations of a sub-result (a rule shared with another property) under rid"""
    for inst in sub.instances:
        if only and not any(inst["rule"].startswith(o) for o in only):
            continue
        if inst["ok"]:
            res.ok(rid, prefix + str(inst["instance"]), inst.get("where"), inst.get("detail"))
    for v in sub.violations:
        if only and not any(v["rule"].startswith(o) for o in only):
            continue
        res.violation(rid, prefix + v["key"].split("/", 1)[1], v["what"], v.get("where"), v.get("detail"))


def run(ctx, res):
    F = ctx.facts("core")
    from . import c13, c06, c15, c17, c02
    # S1/S2/S3: span geometry siblings
    sub = report.Result("C07", ctx.tier)
    c13.r_lr(F, sub)
    c13.r_glr(F, sub)
    rid1 = res.rule("C07-S1", "empty-reduction span anchor: LR and GLR take the same end of the current span", floor=1)
    adopt(res, rid1, sub, only=["C13-S1", "C13-R3"])
    rid2 = res.rule("C07-S2", "shift geometry: both parsers place the token at [position, position_after(token.value, position)]", floor=4)
    adopt(res, rid2, sub, only=["C13-R1"])
    for inst in sub.instances:
        if inst["rule"] == "C13-R6" and str(inst["instance"]).startswith("shifter/") and inst["ok"]:
            res.ok(rid2, "glr/" + inst["instance"], inst.get("where"))
    for v in sub.violations:
        if v["rule"] == "C13-R6" and "/shifter/" in v["key"]:
            res.violation(rid2, "glr/" + v["key"].split("/", 1)[1], v["what"], v.get("where"))
    rid3 = res.rule("C07-S3", "non-empty reduction span: first child's start to last child's end in both parsers", floor=4)
    adopt(res, rid3, sub, only=["C13-R2"])
    for inst in sub.instances:
        if inst["rule"] == "C13-R6" and str(inst["instance"]).startswith("reducer/") and inst["ok"]:
            res.ok(rid3, "glr/" + inst["instance"], inst.get("where"))
    for v in sub.violations:
        if v["rule"] == "C13-R6" and "/reducer/" in v["key"] and "link-span-first-possibility" not in v["key"]:
            # (that one is about links with several possibilities: ambiguity, outside this property's premise)
            res.violation(rid3, "glr/" + v["key"].split("/", 1)[1], v["what"], v.get("where"))
    # S4 lexical filtering siblings
    sub = report.Result("C07", ctx.tier)
    c06.run(ctx, sub)
    rid4 = res.rule("C07-S4", "lexical filtering: same retain-longest predicate; LR takes the first, GLR truncates iff grammar_order", floor=3)
    for inst in sub.instances:
        if inst["rule"] == "C06-R4" and inst["ok"]:
            res.ok(rid4, inst["instance"], inst.get("where"), inst.get("detail"))
    for v in sub.violations:
        if v["rule"] == "C06-R4":
            res.violation(rid4, v["key"].split("/", 1)[1], v["what"], v.get("where"))
    # S5 STOP synthesis
    rid5 = res.rule("C07-S5", "STOP synthesis: both parsers synthesise a zero-width STOP iff no token matched, partial_parse is on and "
                    "STOP is among the expected kinds of the current state", floor=2)
    f, rows = rt.next_token_rows(F)
    lr_stop = {(a.get("partial_parse"), a.get("stop_expected")) for a, out, p in rows if out == "synthetic-stop"}
    fg, gpaths = rt.cache(F).paths(rt.GLR + "find_lookaheads$")
    glr_stop = set()
    glr_other = set()
    for p in gpaths:
        if p.end != "return":
            continue
        pp = [v for t, v in p.cond if t[0] == "field" and t[2] == "partial_parse"]
        se = [v for t, v in p.cond if is_call(t, "Iterator>::any") or is_call(t, "::contains")]
        r = [e[1] for e in p.events if e[0] == "return"][0]
        is_tok = lambda x: isinstance(x, tuple) and x[0] == "agg" and x[1].endswith("Token::Token")
        synth = mir.contains(r, is_tok) or any(e[0] in ("set", "store") and mir.contains(e[2], is_tok) for e in p.events) or \
            any(e[0] == "call" and any(mir.contains(a, is_tok) for a in e[2]) for e in p.events)
        toks = any(is_call(t, "Vec::<T, A>::is_empty") and v == 0 for t, v in p.cond)
        if synth and toks:
            res.violation(rid5, "stop-next-to-tokens", "GLR synthesises a STOP lookahead although the lexer returned tokens: with partial "
                          "parsing it follows every parsable prefix where LR follows the tokens (one tree in LR, several in GLR)", fg.loc())
            continue
        if synth:
            glr_stop.add((pp[0] if pp else None, se[0] if se else None))
        elif not toks:
            glr_other.add((pp[0] if pp else None, se[0] if se else None))
    if lr_stop == {(1, 1)} and glr_stop == {(1, 1)} and (1, 1) not in glr_other:
        res.ok(rid5, "stop-synthesis-siblings", fg.loc(), "both: partial_parse && STOP expected")
    else:
        res.violation(rid5, "stop-synthesis-siblings", "STOP is synthesised under %s in LR and %s in GLR (expected partial_parse && STOP "
                      "expected in both)" % (sorted(lr_stop, key=str), sorted(glr_stop, key=str)), fg.loc())
    # the GLR membership test is on the expected kinds of the head's state, against TK::default()
    cl_ok = False
    fl = F.one(rt.GLR + "find_lookaheads$")
    for cl in F.all_nested_closures(fl):
        for p in Sim(cl, F).run():
            r = [e[1] for e in p.events if e[0] == "return"]
            if r and is_call(r[0], "::eq") and any(mir.contains(a, lambda x: isinstance(x, tuple) and x[0] == "upvar" and "stop_kind" in x[1]) for a in r[0][2]):
                cl_ok = True
    if cl_ok:
        res.ok(rid5, "glr/stop-membership", fl.loc(), "expected_tokens.iter().any(|tk| tk.0 == stop_kind)")
    else:
        res.violation(rid5, "glr/stop-membership", "the GLR STOP decision does not compare the expected kinds with the STOP kind", fl.loc())
    # S6 error construction
    rid6 = res.rule("C07-S6", "both parsers build syntax errors with error_expected(input, file_name, context, expected kinds)", floor=1)
    users = set()
    for fn in F.fns.values():
        if fn.crate != "rustemo":
            continue
        for b, t in fn.calls():
            if callee(t) == "rustemo::error::error_expected" or callee(t).startswith("rustemo::error::error_expected"):
                users.add(fn.path.split("::{closure")[0])
    lr_u = any("lr::parser::LRParser" in u for u in users)
    glr_u = any("glr::parser::GlrParser" in u for u in users)
    if lr_u and glr_u:
        res.ok(rid6, "error-constructor-siblings", None, "%s" % sorted(mir.short(u) for u in users))
    else:
        res.violation(rid6, "error-constructor-siblings", "error_expected is used by LR: %s, GLR: %s" % (lr_u, glr_u))
    # S7 layout parser construction
    sub = report.Result("C07", ctx.tier)
    c15.r2_guards(F, sub)
    rid7 = res.rule("C07-S7", "layout parser construction: identical constant arguments in both parsers (partial_parse = true, "
                    "has_layout = false, default_layout state)", floor=2)
    for inst in sub.instances:
        if "layout-parser" in str(inst["instance"]) and inst["ok"]:
            res.ok(rid7, inst["instance"], inst.get("where"), inst.get("detail"))
    for v in sub.violations:
        if "layout-parser" in v["key"]:
            res.violation(rid7, v["key"].split("/", 1)[1], v["what"], v.get("where"))
    # S8 replay protocol
    # S11 the layout bracket of the GLR token fetch (sibling of C14-R1 for LR): the head is put into the layout state for the
    # layout parser and back into its own state on EVERY way out, the retry included
    rid11 = res.rule("C07-S11", "GLR find_lookaheads: the layout parser runs between set_state(default_layout) and set_state(saved "
                     "state) on every path (as LR next_token does): a head left in the layout state rejects what LR accepts; layout is "
                     "tried after tokens only, and again after layout as LR does", floor=3)
    fl = F.one(rt.GLR + "find_lookaheads$")
    nbr = 0
    badp = None
    order_bad = False
    for p in Sim(fl, F, max_paths=100000).run():
        i_lp = idx(p, "parse_with_context")
        if i_lp is None:
            continue
        nbr += 1
        ss = [(i, e) for i, e in enumerate(p.events) if e[0] == "call" and mir.call_matches(e[1], "Context::set_state")]
        before = [e for i, e in ss if i < i_lp]
        after = [e for i, e in ss if i > i_lp]
        okb = before and mir.has_call(before[-1][2][1], "State::default_layout")
        oka = after and is_call(after[0][2][1], "Context::state")
        if not (okb and oka):
            badp = p.end
        # ... and only after the lexer found no token at this position (LR does the same: tokens first, layout second)
        before_lp = [c for c in p.events[:i_lp] if c[0] == "cond"]
        # (empty-handed = what the LEXER returned is empty, not some other empty vector)
        no_token = any(mir.has_call(c[1], "next_tokens") and (
            (is_call(c[1], "::is_empty") and c[2] == 1) or
            (c[1][0] == "bin" and mir.has_call(c[1], "::len") and ((c[1][1] == "Eq" and c[2] == 1) or (c[1][1] in ("Gt", "Ne") and c[2] == 0))))
            for c in before_lp)
        if not no_token:
            order_bad = True
    if order_bad and nbr:
        res.violation(rid11, "glr-layout-after-tokens", "find_lookaheads runs the layout parser on a path on which the lexer was not found "
                      "empty-handed first: GLR skips as layout what LR reads as a token (`/` against `//` comments)", fl.loc())
    elif nbr:
        res.ok(rid11, "glr-layout-after-tokens", fl.loc(), "layout only when no token matched")
    # ... and as often as LR: LR's token fetch goes round as long as the layout parser finds something (layout, tokens,
    # layout, ..). A flag that switches the layout attempt off for the retry makes GLR reject `a /*c*/ b` under a layout rule
    # that does not repeat by itself (`Layout: WS | Comment;`) where LR accepts it (D31). Structural form: a bool local whose
    # test dominates the layout parser call must be `true` again on every path that goes back to the loop head.
    tbl_ = TermBuilder(fl, F)
    lp_blocks = [b for b, tm in fl.calls() if mir.call_matches(callee(tm), "parse_with_context")]
    guards = set()
    for lb in lp_blocks:
        for db in fl.dominators().get(lb, ()):
            tm = fl.blocks[db]["term"]
            if tm["k"] == "switch" and tm.get("ty") == "bool" and not mir.is_log(tm):
                t = tbl_.operand(tm["op"])
                for x in mir.walk(t):
                    if isinstance(x, tuple) and x[0] == "var" and isinstance(x[1], str):
                        guards.add(x[1])
    retry_bad, retry_n, retry_odd = None, 0, None
    for p in Sim(fl, F, max_paths=100000).run():
        if p.end != "backedge" or idx(p, "parse_with_context") is None:
            continue
        retry_n += 1
        for gname in sorted(guards):
            sets = [e for e in p.events if e[0] == "set" and e[1] == gname]
            if not sets:
                continue
            last = sets[-1][2]
            if last == ("const", 0):
                retry_bad = gname
            elif last != ("const", 1):
                retry_odd = gname
    if nbr and retry_bad:
        res.violation(rid11, "glr-layout-retry", "after a successful layout the GLR token fetch goes back with `%s` = false: the layout "
                      "attempt is switched off for the retry, LR retries as long as it finds layout (`a /*c*/ b` under "
                      "`Layout: WS | Comment;` is accepted by LR and rejected by GLR)" % retry_bad, fl.loc())
    elif nbr and retry_odd:
        res.undecided(rid11, "the flag `%s` guards the layout attempt of find_lookaheads and is set to something this rule does not "
                      "read before the retry" % retry_odd, fl.loc())
    elif nbr and retry_n:
        res.ok(rid11, "glr-layout-retry", fl.loc(), "%d retry path(s), %d guard flag(s), none left switched off" % (retry_n, len(guards)))
    elif nbr:
        res.undecided(rid11, "no path of find_lookaheads goes back to the loop head after the layout parser", fl.loc())
    if not nbr:
        res.anchor_lost(rid11, "call of the layout parser in find_lookaheads not found", fl.loc())
    elif badp:
        res.violation(rid11, "glr-layout-state-bracket", "a path of find_lookaheads (ending in %s) runs the layout parser without putting "
                      "the head back into its own state afterwards" % ("the retry" if badp == "backedge" else badp), fl.loc())
    else:
        res.ok(rid11, "glr-layout-state-bracket", fl.loc(), "%d paths through the layout parser" % nbr)
    # S12 the span bracket around the layout sub-parser (decided by C13-R10, shared): without it LR and GLR disagree on the
    # span of a parent with a right-nulled tail under a Layout rule
    rid12 = res.rule("C07-S12", "LR and GLR put the context's span back after the layout parser ran (shares C13-R10): the anchor "
                     "of EMPTY, and with it the span of every parent that ends in one, is the same in both", floor=2)
    c13.r_layout_span(F, res, rid12)
    # S14 the automaton GLR parses with is the automaton LR parses with by default (plus right-nulled entries): the state
    # merge treats LALR_RN as LALR_PAGER (decided by T-R8 `scan-types`, shared)
    rid14 = res.rule("C07-S14", "LR's default table (LALR_PAGER) and GLR's table (LALR_RN) merge states under the same test (shares "
                     "T-R8 scan-types): no state exists for GLR alone whose expected tokens LR never looks for", floor=1)
    from . import tbl
    sub14 = report.Result("C07", ctx.tier)
    try:
        tbl.r8_merge(F, sub14, sub14.rule("T-R8", "shared"))
        for inst in sub14.instances:
            if inst["instance"] == "scan-types" and inst["ok"]:
                res.ok(rid14, "scan-types", inst.get("where"), inst.get("detail"))
        for v in sub14.violations:
            if v["key"].endswith("/scan-types"):
                res.violation(rid14, "scan-types", v["what"], v.get("where"))
        for u in sub14.undecided_list:
            res.undecided(rid14, u["what"], u.get("where"))
    except mir.AnchorLost as e:
        res.undecided(rid14, str(e))
    # S13 what the parser looks at after a reduction. LR fetches the lookahead AGAIN in the new state (the expected set is
    # narrower there: context-aware lexing); GLR carries the token found before the reduction into the reduced head. With
    # LALR-merged lookaheads the carried token may have no action in the new state although a token the new state expects -
    # STOP under partial parsing - is there: LR accepts the prefix, GLR rejects (D32).
    rid13 = res.rule("C07-S13", "after a reduction both parsers decide on the same lookahead: LR fetches it again in the new state, "
                     "so GLR must too (or LR must not)", floor=1)
    flr, lrpaths = rt.cache(F).paths(rt.LR_PWC)
    lr_relex = None
    for p in lrpaths:
        kind, action = rt.lr_action_kind(p)
        if kind == "Reduce":
            lr_relex = bool(lr_relex) or idx(p, "next_token") is not None
    red = F.one(rt.GLR + "reducer$")
    cg = mir.CallGraph(F)
    reach = cg.reach([red.path])
    glr_relex = any(mir.call_matches(x, "find_lookaheads") or mir.call_matches(x, "Lexer::next_tokens") or x.endswith("::next_tokens") for x in reach)
    if lr_relex is None:
        res.anchor_lost(rid13, "no Reduce path in the LR loop", flr.loc())
    elif lr_relex == glr_relex:
        res.ok(rid13, "relex-after-reduce", red.loc(), "both %s the lookahead after a reduction" % ("fetch" if lr_relex else "keep"))
    else:
        res.violation(rid13, "relex-after-reduce", "LR %s the lookahead after a reduction, GLR %s it: with partial parsing (or any "
                      "lexing that depends on the state) the two decide on different tokens - `S: Tx A | Tx A Tb | Ty A Tc; A: Ta;` "
                      "on `x a c`: LR takes STOP and accepts the prefix, GLR holds on to `c` and rejects" % (
                          "fetches again" if lr_relex else "keeps", "fetches again" if glr_relex else "keeps"), red.loc())
    rid8 = res.rule("C07-S8", "Tree::build replays a forest tree through an LR builder in post-order with the LR loop's call protocol "
                    "(shift_action(ctx, token); children left to right, then reduce_action(ctx, prod, children.len()))", floor=2)
    h = F.one(r"^rustemo::glr::gss::Tree::<[^>]*>::build_inner$")
    okp = False
    hpaths = Sim(h, F).run()
    ADAPT = ("::rev", "::filter", "::skip", "::take", "::step_by")
    # loop form: a body path that calls build_inner on the element `next()` yielded
    def next_call(p, want):
        for tm, v in p.cond:
            if isinstance(tm, tuple) and tm[0] == "discr" and is_call(tm[1], "Iterator::next") and v == frozenset([want]):
                return tm[1]
        return None
    loop_body_ok = any(next_call(p, "Some") is not None and any(
        e[0] == "call" and "build_inner" in e[1] and mir.contains(e[2], lambda x: x == next_call(p, "Some")) for e in p.events)
        for p in hpaths)
    for p in hpaths:
        i_fe = idx(p, "Iterator::for_each")
        i_ra = idx(p, "LRBuilder::reduce_action")
        if i_ra is not None:
            src = None
            if i_fe is not None and i_fe < i_ra:
                # children.iter().for_each(|c| c.build_inner(..))
                src = p.events[i_fe][2][0]
            else:
                # for child in &children { child.build_inner(..) }: the iterator is exhausted before reduce_action
                nx = next_call(p, "None")
                i_nx = idx(p, "Iterator::next")
                if nx is not None and loop_body_ok and i_nx is not None and i_nx < i_ra:
                    src = nx[2][0]
            if src is None:
                res.violation(rid8, "replay/post-order", "the node's reduce_action is not called after its children were replayed", h.loc())
            else:
                adapt = [mir.short(c[1]) for c in mir.calls_in(src) if any(k in c[1] for k in ADAPT)]
                if adapt:
                    res.violation(rid8, "replay/children-order", "children are replayed through %s" % adapt, h.loc())
                else:
                    okp = True
            ra = p.events[i_ra]
            if not (ra[2][2][0] in ("vfield", "field") or mir.contains(ra[2][2], lambda x: isinstance(x, tuple) and x[0] == "vfield" and x[3] == "prod")):
                res.violation(rid8, "replay/prod", "reduce_action is replayed with %s" % fmt(ra[2][2])[:80], h.loc())
    if okp:
        res.ok(rid8, "replay/post-order", h.loc())
    for inst in [i for i in report_build(F)]:
        pass
    subb = report.Result("C07", ctx.tier)
    c13.r_glr(F, subb)
    for inst in subb.instances:
        if str(inst["instance"]).startswith("build/") and inst["ok"]:
            res.ok(rid8, inst["instance"], inst.get("where"))
    for v in subb.violations:
        if "/build/" in v["key"]:
            res.violation(rid8, v["key"].split("/", 1)[1], v["what"], v.get("where"))
    # S9 table selection
    rid9 = res.rule("C07-S9", "Settings::parser_algo(GLR) only switches to the right-nulled table and disables shift preferences and "
                    "grammar-order (the settings that may differ between the two parsers)", floor=1)
    tabs = c17.setter_tables(F)
    spec = c17.load_table("settings_setters.json")
    import json
    if "parser_algo" in tabs and c17.tables_equal(spec["parser_algo"], tabs["parser_algo"][1]):
        res.ok(rid9, "parser-algo-table", tabs["parser_algo"][0].loc())
    else:
        res.violation(rid9, "parser-algo-table", "Settings::parser_algo side-effect table differs from the documented one",
                      tabs["parser_algo"][0].loc() if "parser_algo" in tabs else None)
    # S10 the RN table offers every length between rn_len and |rhs| (is_reducing table), GLR walks exactly `length` edges
    sub = report.Result("C07", ctx.tier)
    c02.r1_reduce_cells(F, sub)
    rid10 = res.rule("C07-S10", "right-nulled reductions: the table offers Reduce(p, len) for every position >= rn_len (and only there); "
                     "LR tables have rn_len = None", floor=1)
    for inst in sub.instances:
        if inst["ok"]:
            res.ok(rid10, inst["instance"], inst.get("where"), inst.get("detail"))
    for v in sub.violations:
        res.violation(rid10, v["key"].split("/", 1)[1], v["what"], v.get("where"))
    res.explanation = (
        "Sibling agreement (family F10): every decision both runtimes take is reduced to a common abstract form (term or "
        "decision table extracted from MIR) and compared: empty-span anchor, shift geometry, reduction spans, lexical "
        "filtering, STOP synthesis, error construction, layout-parser construction, the replay protocol of Tree::build, "
        "table selection, and the right-nulled reduction table. A disagreement is a necessary-condition failure (some input "
        "is treated differently). Not decided: exactly-one-solution and tree equality for any concrete grammar.")


def report_build(F):
    return []
