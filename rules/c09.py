"""C09 - the grammar the compiler analyses is the grammar the user wrote (partial)."""
from . import idiom, mir, rt, report
from .mir import Sim, TermBuilder, callee, fmt, has_call, has_field
from .rt import is_call, calls, idx

LEVEL = "other"
GB = "rustemo_compiler::grammar::builder::GrammarBuilder::"
DROP = ("Iterator::filter", "Iterator::skip", "Iterator::take", "Iterator::step_by", "Iterator::rev", "::dedup", "::sort", "Iterator::skip_while",
        "Iterator::take_while", "Iterator::filter_map")

# documented expansions (docs/src/grammar_language.md, "Syntactic sugar"): helper production right-hand sides
DESUGAR_SPEC = {
    "create_optional": {"idx0": [["ref"]], "idx1": [[]]},
    "create_one": {"idx0": [["name", "ref"], ["name", "sep", "ref"]], "idx1": [["ref"]]},
    "create_zero": {"idx0": [["one"]], "idx1": [[]]},
}


def vec_names(p):
    out = []
    for e in p.events:
        if e[0] in ("store", "set") and isinstance(e[2], tuple) and e[2][0] == "agg" and e[2][1] == "array":
            names = []
            for nm, el in e[2][2]:
                if el[0] != "agg":
                    continue
                d2 = dict(el[2])
                sym = dict(d2["symbol"][2])["symbol"] if "symbol" in d2 and d2["symbol"][0] == "agg" else None
                inner = dict(sym[2])["0"] if sym and sym[0] == "agg" else None
                names.append(inner)
            out.append(names)
    return out


def classify(t):
    if t == ("upvar", "name"):
        return "name"
    if t == ("upvar", "ref_name"):
        return "ref"
    if t == ("upvar", "one_name"):
        return "one"
    if mir.contains(t, lambda x: x == ("upvar", "modifier")) and (
            has_call(t, "Option::<T>::unwrap") or mir.contains(t, lambda x: isinstance(x, tuple) and x[0] == "vfield" and x[2] in ("Some", 1))):
        # the separator: modifier.unwrap() or the payload of `Some(sep)` in a match / map on modifier
        return "sep"
    return "?" + fmt(t)[:30]


def first_rule_name(v):
    """v IS the name of the first rule (`rules[0].name`, `rules.first().unwrap().name`, ..): not the name of a rule chosen
    among the rules with the first one as a fallback"""
    x = v
    # String/&str conversions of the name are transparent already; ValSpan<String>::as_ref too
    while isinstance(x, tuple) and x[0] == "field" and x[2] in ("value", "0"):
        x = x[1]
    if not (isinstance(x, tuple) and x[0] == "field" and x[2] == "name" and str(x[3]).endswith("GrammarRule")):
        return False
    c = idiom.first_of(x[1])
    return c is not None and not mir.contains(c, lambda y: isinstance(y, tuple) and y[0] == "call" and any(
        y[1].endswith(k) for k in ("Iterator::filter", "Iterator::skip", "Iterator::rev", "::find", "Iterator::skip_while")))


def run(ctx, res):
    F = ctx.facts("core")
    ep = F.one(GB.replace(":", r"\:") + "extract_productions_and_symbols$")
    # R1 EMPTY filter and order-preserving chain
    rid1 = res.rule("C09-R1", "one production per alternative with its symbols in order: the only filter on a right-hand side removes "
                    "exactly references to EMPTY, unconditionally; no reordering/dropping adaptors; ntidx is the alternative's index", floor=3)
    flt = None
    for cl in F.all_nested_closures(ep):
        ps = Sim(cl, F).run()
        rets = set()
        for p in ps:
            r = [e[1] for e in p.events if e[0] == "return"]
            if r and r[0][0] == "const":
                rets.add(r[0][1])
        conds = [(t, v) for p in ps for t, v in p.cond]
        if any(mir.const_str(a) == "EMPTY" for t, v in conds if t[0] == "call" for a in t[2]) or \
                any(mir.contains(t, lambda x: mir.const_str(x) == "EMPTY") for t, v in conds):
            flt = (cl, ps)
    if flt is None:
        res.violation(rid1, "empty-filter", "no filter removing EMPTY from right-hand sides found: EMPTY would become a symbol of the "
                      "production", ep.loc())
    else:
        cl, ps = flt
        rows = set()
        extra = []
        for p in ps:
            r = [e[1] for e in p.events if e[0] == "return"]
            key = []
            for t, v in p.cond:
                if t[0] == "discr":
                    key.append(rt.val(v))
                elif mir.contains(t, lambda x: mir.const_str(x) == "EMPTY"):
                    # exact string equality only (`==`/`eq`/`ne`): a looser test (ignore case, prefix, contains) drops user symbols
                    m = mir.strip_generics(t[1]).rsplit("::", 1)[-1] if t[0] == "call" else (t[1] if t[0] == "bin" else "?")
                    if m in ("eq", "Eq"):
                        key.append("name==EMPTY:%s" % v)
                    elif m in ("ne", "Ne") and v in (0, 1):
                        key.append("name==EMPTY:%s" % (1 - v))
                    else:
                        key.append("name %s EMPTY:%s" % (m, v))
                else:
                    extra.append(fmt(t)[:80])
            rows.add((tuple(key), fmt(r[0]) if r else None))
        drops = {k for k, v in rows if v == "0"}
        ok = drops == {("GrammarSymbolRef", "Some", "Name", "name==EMPTY:1")} and not extra
        if ok:
            res.ok(rid1, "empty-filter", cl.loc(), "dropped iff GrammarSymbolRef{gsymbol: Some(Name(\"EMPTY\"))}")
        else:
            res.violation(rid1, "empty-filter", "the EMPTY filter drops %s%s: EMPTY must contribute nothing wherever it is written, and "
                          "nothing else may be dropped" % (sorted(drops), (" under extra conditions %s" % extra[:2]) if extra else ""), cl.loc())
        # `EMPTY contributes nothing` wherever it is written - also under a name (`x=EMPTY`, `x?=EMPTY`): those assignment
        # variants carry a symbol reference too, and a filter that only looks at the plain one leaves `S: EMPTY A` behind, a
        # production that can never be reduced (D46)
        dropped_variants = {k[0] for k in drops if k}
        carrying = {"GrammarSymbolRef", "PlainAssignment", "BoolAssignment"}
        adt = F.adts.get("rustemo_compiler::lang::rustemo_actions::Assignment")
        present = {v["name"] for v in adt["variants"]} & carrying if adt else set()
        if present and ok:
            if present <= dropped_variants:
                res.ok(rid1, "empty-filter-named", cl.loc(), "all reference-carrying assignment variants are filtered")
            else:
                res.violation(rid1, "empty-filter-named", "the EMPTY filter looks at plain references only; `x=EMPTY` / `x?=EMPTY` (%s) "
                              "keep EMPTY in the right-hand side: `S: x=EMPTY 'a' | 'b';` rejects `a`" % sorted(present - dropped_variants), cl.loc())
    names = {callee(t) for _, t in ep.calls()}
    nfilter = len([1 for _, t in ep.calls() if callee(t).endswith("Iterator::filter")])
    bad = [mir.short(n) for n in names if any(n.endswith(k) for k in DROP) and not n.endswith("Iterator::filter")]
    if nfilter == 1 and not bad:
        res.ok(rid1, "rhs-chain", ep.loc(), "into_iter -> filter(EMPTY) -> map -> collect; enumerate over alternatives")
    else:
        res.violation(rid1, "rhs-chain", "the chain from the written alternatives/symbols to the productions contains %d filters and %s" % (nfilter, bad), ep.loc())
    okn = None
    for p in Sim(ep, F, max_paths=300000).run():
        for e in p.events:
            if e[0] == "set" and e[1] == "new_production" and e[2][0] == "agg":
                d = dict(e[2][2])
                nt = d.get("ntidx")
                okn = isinstance(nt, tuple) and nt[0] == "field" and nt[2] == "0" and has_call(nt, "Iterator>::next") and has_call(nt, "Iterator::enumerate")
                break
        if okn is not None:
            break
    if okn:
        res.ok(rid1, "ntidx", ep.loc(), "ntidx = enumerate index of the alternative")
    elif okn is False:
        res.violation(rid1, "ntidx", "Production.ntidx is not the index of the alternative within its rule", ep.loc())
    # R2 start symbol
    rid2 = res.rule("C09-R2", "the first rule is the start symbol: start_rule_name and the AUG production both derive from rules[0].name", floor=2)
    tf = F.one(GB.replace(":", r"\:") + "try_from_file$")
    oks = None
    for p in Sim(tf, F, max_paths=200000).run():
        for e in p.events:
            if e[0] == "store" and isinstance(e[1], tuple) and e[1][0] == "field" and e[1][2] == "start_rule_name":
                v = e[2]
                oks = first_rule_name(v)
        if oks is not None:
            break
    if oks:
        res.ok(rid2, "start-rule-name", tf.loc(), "rules[0].name")
    else:
        res.violation(rid2, "start-rule-name", "start_rule_name is not taken from the first grammar rule", tf.loc())
    tbe = TermBuilder(ep, F)
    oka = None
    for b, t in ep.calls():
        if callee(t).endswith("create_aug_nt_and_production"):
            a = [tbe.operand(x) for x in t["args"]]
            if mir.const_str(a[1]) == "AUG":
                oka = first_rule_name(a[2])
    if oka:
        res.ok(rid2, "aug-production", ep.loc(), "AUG -> rules[0].name")
    else:
        res.violation(rid2, "aug-production", "the augmented production does not derive the first rule", ep.loc())
    # R3 meta-data inheritance
    rid3 = res.rule("C09-R3", "rule-level meta-data is inherited by a production only when the production does not give that key itself, "
                    "and before the keys are mapped to production fields", floor=2)
    rows = set()
    order_ok = None
    for p in Sim(ep, F, max_paths=300000).run():
        last = None
        for i, e in enumerate(p.events):
            if e[0] == "cond" and is_call(e[1], "BTreeMap::<K, V, A>::contains_key") and (has_field(e[1][2][0], "meta", "Production") or
                                                                                         mir.contains(e[1][2][0], lambda x: x == ("var", "new_production"))):
                last = (e[1], e[2], i)
            elif e[0] == "call" and e[1].endswith("BTreeMap::<K, V, A>::insert") and last is not None and i > last[2] and \
                    (has_field(e[2][0], "meta", "Production") or mir.contains(e[2][0], lambda x: x == ("var", "new_production"))):
                key_same = last[0][2][1] == e[2][1] or (mir.contains(e[2][1], lambda x: x == last[0][2][1]))
                rows.add((last[1], True, key_same))
                rm = idx(p, "BTreeMap::<K, V, A>::remove")
                order_ok = (rm is None or i < rm) if order_ok is None else (order_ok and (rm is None or i < rm))
                last = None
        if last is not None:
            rows.add((last[1], False, True))
    # second spelling: meta.entry(key).or_insert(data) inserts only when the key is absent
    entry_form = False
    if not rows:
        for p in Sim(ep, F, max_paths=300000).run():
            for e in p.events:
                if e[0] == "call" and (e[1].endswith("Entry<'a, K, V, A>::or_insert") or e[1].endswith("::or_insert_with") or e[1].endswith("::or_insert")) \
                        and is_call(e[2][0], "::entry") and (has_field(e[2][0][2][0], "meta", "Production") or
                                                             mir.contains(e[2][0][2][0], lambda x: x == ("var", "new_production"))):
                    entry_form = True
            if entry_form:
                break
    if entry_form:
        res.ok(rid3, "inherit-polarity", ep.loc(), "new_production.meta.entry(key).or_insert(data)")
        order_ok = True if order_ok is None else order_ok
    elif not rows:
        res.anchor_lost(rid3, "inheritance of rule meta-data (contains_key + insert, or entry().or_insert()) not recognised", ep.loc())
    elif (0, True, True) in rows and not any(r[0] == 1 and r[1] for r in rows):
        res.ok(rid3, "inherit-polarity", ep.loc(), "insert(key, data) only when !new_production.meta.contains_key(key)")
    else:
        res.violation(rid3, "inherit-polarity", "rule meta-data inheritance table (contains_key, inserted, same key) is %s: a production's own "
                      "meta-data must win over the rule's" % sorted(rows, key=str), ep.loc())
    if order_ok:
        res.ok(rid3, "inherit-before-mapping", ep.loc())
    elif order_ok is False:
        res.violation(rid3, "inherit-before-mapping", "inherited meta-data is inserted after the keys were mapped to prio/assoc/nops/nopse/kind", ep.loc())
    # ... "that meta-data" is a datum, not a map key: associativity comes under two keys (`left`, `right`) that are mapped to
    # ONE field. Inheriting by key alone gives a production with its own `left` the rule's `right` as well, and the mapping
    # applies `right` last (D36). Structural form: when several keys are mapped to the same Production field, the
    # inheritance has to compare keys with those names somewhere (so that one of them keeps the other out).
    field_keys = {}
    def _strs(t):
        return [mir.const_str(x) for x in mir.walk(t) if mir.const_str(x) is not None]
    hs = [ep] + F.all_nested_closures(ep)
    for h in hs:
        for q in Sim(h, F, max_paths=300000).run():
            lastkey = None
            for e in q.events:
                if e[0] == "call" and e[1].endswith("BTreeMap::<K, V, A>::remove") and len(e[2]) > 1 and _strs(e[2][1]):
                    lastkey = _strs(e[2][1])[0]
                elif e[0] == "store" and lastkey and isinstance(e[1], tuple) and e[1][0] == "field" and e[1][2] in ("assoc", "prio", "kind", "nops", "nopse"):
                    field_keys.setdefault(e[1][2], set()).add(lastkey)
                    lastkey = None
    multi = {f: ks for f, ks in field_keys.items() if len(ks) > 1}
    compared = set()
    for h in hs:
        tbh = mir.TermBuilder(h, F)
        for b, tm in h.calls():
            nm = mir.strip_generics(callee(tm) or "")
            if nm.endswith("::eq") or nm.endswith("::ne") or nm.endswith("::contains_key") and False:
                for a in tm.get("args", []):
                    for sx in _strs(tbh.operand(a)):
                        compared.add(sx)
    if not field_keys:
        res.undecided(rid3, "the mapping of meta keys to Production fields (remove(key) .. field = ..) was not recognised", ep.loc())
    for f, ks in sorted(multi.items()):
        if ks <= compared:
            res.ok(rid3, "%s-single-datum" % f, ep.loc(), "keys %s are one datum: compared by name in the inheritance" % sorted(ks))
        else:
            res.violation(rid3, "%s-single-datum" % f, "the keys %s are mapped to the one field `%s`, but rule meta-data is inherited key "
                          "by key and nothing compares a key with those names: a production that gives `%s` itself still inherits "
                          "the rule's `%s`, and the one applied last wins" % (sorted(ks), f, sorted(ks)[0], sorted(ks)[-1]), ep.loc())
    # every key under which the associativity keywords (left, reduce, right, shift) are stored has to be one the inheritance
    # knows as associativity: a keyword stored under a key of its own is inherited as if it were unrelated user meta-data,
    # and the production ends up with its own and the rule's associativity (seed C09-10)
    from . import c05_meta
    akeys = {}
    for kw in ("left", "reduce", "right", "shift"):
        fa = F.fn(c05_meta.ACTIONS + "prod_meta_data_" + kw)
        if fa is not None:
            for sx in c05_meta.str_consts(fa):
                akeys.setdefault(sx, set()).add(kw)
    if not akeys:
        res.undecided(rid3, "the actions that store the associativity keywords were not found", ep.loc())
    else:
        unknown = {k_: v_ for k_, v_ in akeys.items() if k_ not in compared}
        if unknown:
            res.violation(rid3, "assoc-keys-recognised", "associativity keyword(s) %s are stored under meta key(s) %s, which the inheritance "
                          "of rule meta-data does not treat as associativity (it compares %s): a production with its own "
                          "associativity in that spelling also inherits the rule's" % (
                              sorted(set().union(*unknown.values())), sorted(unknown), sorted(compared & {"left", "right", "reduce", "shift"})), ep.loc())
        else:
            res.ok(rid3, "assoc-keys-recognised", ep.loc(), "keywords left/reduce/right/shift are stored under %s, all compared by the inheritance" % sorted(akeys))
    # the Layout rule is the rule NAMED `Layout`: a comparison through to_lowercase() makes a user rule `LAYOUT` or `layout`
    # the layout of the grammar (D47)
    rid2b = res.rule("C09-R2b", "the special rule is found by its documented name `Layout`, compared as written", floor=1)
    lowered = False
    seen_layout = False
    for h in [f for p_, f in F.fns.items() if f.crate == "rustemo_compiler" and "grammar::builder" in p_ and f.has_body()]:
        tbh = mir.TermBuilder(h, F)
        for b, tm in h.calls():
            nm = mir.strip_generics(callee(tm) or "")
            if nm.endswith("::eq") or nm.endswith("::ne"):
                ops = [tbh.operand(a) for a in tm.get("args", [])]
                strs = [mir.const_str(x) for o in ops for x in mir.walk(o) if mir.const_str(x) is not None]
                if any(x.lower() == "layout" for x in strs):
                    seen_layout = True
                    if any(mir.has_call(o, "to_lowercase") or mir.has_call(o, "eq_ignore_ascii_case") or mir.has_call(o, "to_uppercase") for o in ops):
                        lowered = True
            elif nm.endswith("eq_ignore_ascii_case"):
                ops = [tbh.operand(a) for a in tm.get("args", [])]
                strs = [mir.const_str(x) for o in ops for x in mir.walk(o) if mir.const_str(x) is not None]
                if any(x.lower() == "layout" for x in strs):
                    seen_layout = lowered = True
    if not seen_layout:
        res.anchor_lost(rid2b, "comparison with the name of the Layout rule not found in grammar::builder")
    elif lowered:
        res.violation(rid2b, "layout-name-case", "the Layout rule is looked up by `name.to_lowercase() == \"layout\"`: a user rule LAYOUT / "
                      "layout / LayOut silently becomes the grammar's layout (`S: 'a' LAYOUT 'b'; LAYOUT: 'x';` accepts `xaxxb`)",
                      "rustemo-compiler/src/grammar/builder.rs")
    else:
        res.ok(rid2b, "layout-name-case", None, "compared as written")
    # R4 inline literals
    rid4 = res.rule("C09-R4", "inline string literals resolve to the terminal declared with that string", floor=2)
    ct = F.one(GB.replace(":", r"\:") + "collect_terminals$")
    ok4 = None
    for p in Sim(ct, F).run():
        for e in p.events:
            if e[0] == "call" and e[1].endswith("BTreeMap::<K, V, A>::insert") and has_field(e[2][0], "terminals_matches"):
                k, v = e[2][1], e[2][2]
                d = dict(v[2]) if v[0] == "agg" else {}
                rootk = [x for x in mir.walk(k) if isinstance(x, tuple) and x[0] == "vfield" and x[3] == "0"]
                ok4 = has_field(d.get("0", ()), "name", "Terminal") and has_field(d.get("1", ()), "idx", "Terminal") and \
                    mir.contains(k, lambda x: isinstance(x, tuple) and x[0] == "vfield" and x[2] == "StrConst")
    if ok4:
        res.ok(rid4, "matches-table", ct.loc(), "terminals_matches[string] = (name, idx) of the terminal with that string recogniser")
    else:
        res.violation(rid4, "matches-table", "terminals_matches is not filled with (string of the recogniser -> that terminal)", ct.loc())
    ri = F.one(GB.replace(":", r"\:") + "resolve_inline_terminals_from_productions$")
    ok4b = None
    for p in Sim(ri, F, max_paths=200000).run():
        for e in p.events:
            if e[0] == "store" and isinstance(e[1], tuple) and e[1][0] == "field" and e[1][2] == "index":
                v = e[2]
                gets = [c for c in mir.calls_in(v) if c[1].endswith("::get") and has_field(c[2][0], "terminals_matches")]
                ck = [c for t, vv in p.cond for c in [t] if is_call(t, "contains_key") and vv == 1]
                # `if contains_key(k) { get(k) }` with one key, or `if let Some(x) = get(k)` (one lookup, nothing to disagree)
                some = [1 for t, vv in p.cond if t[0] == "discr" and gets and idiom.same(t[1], gets[0]) and vv == frozenset(["Some"])]
                if gets and ck:
                    ok4b = gets[0][2][1] == ck[0][2][1]
                elif gets and some:
                    ok4b = True
    if ok4b:
        res.ok(rid4, "resolution", ri.loc(), "index = terminals_matches[literal].1 for the same literal that was looked up")
    elif ok4b is False:
        res.violation(rid4, "resolution", "an inline literal is resolved through another key than the one checked", ri.loc())
    else:
        res.anchor_lost(rid4, "resolution of inline literals through terminals_matches not recognised", ri.loc())
    # R4b the text of a literal is decoded in one pass
    rid4b = res.rule("C09-R4b", "the text of a string literal is decoded in one pass: no replacement is applied to the product of an "
                     "earlier replacement that can complete its pattern (`\\\\n` is a backslash and an n, not a line feed)", floor=1)
    sc = F.fn("rustemo_compiler::lang::rustemo_actions::str_const")
    if sc is None:
        res.anchor_lost(rid4b, "rustemo_actions::str_const not found")
    else:
        def rust_unescape(s):
            out, i = [], 0
            m = {"n": "\n", "t": "\t", "r": "\r", "\\": "\\", "'": "'", '"': '"', "0": "\0"}
            while i < len(s):
                if s[i] == "\\" and i + 1 < len(s) and s[i + 1] in m:
                    out.append(m[s[i + 1]]); i += 2
                else:
                    out.append(s[i]); i += 1
            return "".join(out)
        def feeds(rep, pat):
            if not rep:
                return False
            if pat in rep:
                return True
            return any(pat.startswith(rep[-k:]) for k in range(1, min(len(rep), len(pat) - 1) + 1)) or \
                any(pat.endswith(rep[:k]) for k in range(1, min(len(rep), len(pat) - 1) + 1))
        chain = []
        for p in Sim(sc, F).run():
            cur = []
            for e in p.events:
                if e[0] == "call" and e[1].endswith("str>::replace") and len(e[2]) == 3:
                    pat, rep = mir.const_str(e[2][1]), mir.const_str(e[2][2])
                    inner = mir.has_call(e[2][0], "str>::replace")
                    cur.append((rust_unescape(pat) if pat is not None else None, rust_unescape(rep) if rep is not None else None, inner))
            if len(cur) > len(chain):
                chain = cur
        bad = []
        for j, (pj, rj, inner) in enumerate(chain):
            if not inner:
                continue
            for i in range(j):
                pi, ri_ = chain[i][0], chain[i][1]
                if None in (pi, ri_, pj):
                    bad.append("a replacement with a computed pattern follows another replacement")
                elif feeds(ri_, pj):
                    bad.append("%r -> %r is followed by %r -> %r" % (pi, ri_, pj, rj))
        if bad:
            res.violation(rid4b, "str_const/single-pass", "string literals are decoded by chained replacements, and the product of one "
                          "can complete the pattern of a later one: " + "; ".join(bad[:3]), sc.loc())
        else:
            res.ok(rid4b, "str_const/single-pass", sc.loc(), "%d chained replace call(s), none feeds a later one" % len(chain))
    # R5 desugar templates
    rid5 = res.rule("C09-R5", "helper rules of ?, *, + (and + with separator) have the documented right-hand sides", floor=6)
    for fn, spec in DESUGAR_SPEC.items():
        f = F.fn(GB + fn)
        if f is None:
            res.anchor_lost(rid5, fn + " not found")
            continue
        got = {"idx0": [], "idx1": []}
        for cl in F.all_nested_closures(f):
            for p in Sim(cl, F).run():
                i0 = [v for t, v in p.cond if t[0] == "bin" and t[1] == "Eq" and t[2] == ("param", "idx") and t[3] == ("const", 0)]
                if not i0:
                    continue
                vs = vec_names(p)
                names = [classify(x) for x in vs[0]] if vs else []
                got["idx0" if i0[0] == 1 else "idx1"].append(names)
        if not got["idx0"] and not got["idx1"]:
            res.anchor_lost(rid5, "%s: construction of the helper productions ((0..2).map(|idx| ..)) not recognised" % fn, f.loc())
            continue
        unknown = [x for k in ("idx0", "idx1") for lst in got[k] for x in lst if str(x).startswith("?")]
        if unknown:
            res.anchor_lost(rid5, "%s: a symbol of a helper production is not recognised (%s)" % (fn, unknown[0][:60]), f.loc())
            continue
        for k in ("idx0", "idx1"):
            if sorted(got[k]) == sorted(spec[k]):
                res.ok(rid5, "%s/%s" % (fn, k), f.loc(), str(got[k]))
            else:
                res.violation(rid5, "%s/%s" % (fn, k), "%s builds the helper production(s) %s, documented expansion %s" % (fn, got[k], spec[k]), f.loc())
    # annotations: one/zero are @vec, optional is not
    for fn, want in (("create_one", True), ("create_zero", True), ("create_optional", False)):
        f = F.fn(GB + fn)
        has = False
        for p in Sim(f, F).run():
            for e in p.events:
                if e[0] == "set" and e[1] == "nt" and e[2][0] == "agg":
                    an = dict(e[2][2]).get("annotation")
                    has = an is not None and an[0] == "agg" and an[1].endswith("Some") and mir.contains(an, lambda x: mir.const_str(x) == "vec")
        if has == want:
            res.ok(rid5, "%s/annotation" % fn, f.loc(), "@vec" if want else "no annotation")
        else:
            res.violation(rid5, "%s/annotation" % fn, "%s %s the @vec annotation" % (fn, "lacks" if want else "has"), f.loc())
    # operator -> (suffix, creators)
    dr = F.one(GB.replace(":", r"\:") + "desugar_regex$")
    nn = F.fn(GB + "desugar_regex::nt_name")
    sfx = {}
    if nn is not None:
        for p in Sim(nn, F).run():
            op = [rt.val(v) for t, v in p.cond if t[0] == "discr"]
            cs = [mir.const_str(x) for e in p.events for x in (mir.walk(e[2]) if e[0] in ("set", "store") else []) if mir.const_str(x)]
            if op and cs:
                sfx[op[0]] = cs[-1]
        want = {"ZeroOrMore": "0", "OneOrMore": "1", "Optional": "Opt"}
        if all(sfx.get(k) == v for k, v in want.items()):
            res.ok(rid5, "suffix-table", nn.loc(), str({k: sfx.get(k) for k in want}))
        else:
            res.violation(rid5, "suffix-table", "helper-name suffixes are %s, documented %s" % (sfx, want), nn.loc())
    # R6 helper reuse key completeness
    rid6 = res.rule("C09-R6", "the name under which a helper rule is looked up for reuse covers every argument that shapes the helper "
                    "(in particular the separator)", floor=2)
    tbd = TermBuilder(dr, F)
    n6 = 0
    for b, t in dr.calls():
        if callee(t) == GB + "create_one":
            a = [tbd.operand(x) for x in t["args"]]
            name, modifier = a[1], a[3]
            n6 += 1
            in_key = mir.contains(name, lambda x: x == modifier) or mir.contains(name, lambda x: isinstance(x, tuple) and x[0] in ("var", "local") and x[1] == "modifier") \
                or has_field(name, "rep_modifiers")
            key = "create_one/%d" % n6
            if in_key:
                res.ok(rid6, key, "%s:%s" % (dr.file, t["line"]))
            else:
                res.violation(rid6, key, "create_one is called with a separator that is not part of the helper's name `%s`: `A+[Comma]` and "
                              "`A+` (or two different separators) share one helper rule; the documentation names the helper `A1Comma`" % fmt(name)[:80],
                              "%s:%s" % (dr.file, t["line"]))
    if n6 < 2:
        res.anchor_lost(rid6, "%d create_one call sites found, 2 expected" % n6, dr.loc())
    # R7 no definition silently dropped (shared with C16-R3)
    from . import c16
    sub = report.Result("C09", ctx.tier)
    c16.r3_symbol_tables(F, sub)
    rid7 = res.rule("C09-R7", "no definition is silently dropped or merged: inserts into the symbol tables are guarded (shared with C16-R3)", floor=6)
    for inst in sub.instances:
        if inst["ok"]:
            res.ok(rid7, inst["instance"], inst.get("where"), inst.get("detail"))
    for v in sub.violations:
        res.violation(rid7, v["key"].split("/", 1)[1], v["what"], v.get("where"))
    res.explanation = (
        "Decides structural clauses of `the analysed grammar is the one written`: the only filter on right-hand sides drops "
        "exactly EMPTY references unconditionally and nothing reorders or drops alternatives/symbols; ntidx is the "
        "alternative's index; start symbol and AUG derive from the first rule; rule meta-data is inherited only for keys the "
        "production lacks and before the field mapping (mapping tables: C05-R4); inline literals resolve through the table "
        "filled from string recognisers; the helper rules of ?, *, + have the documented right-hand sides, annotations and "
        "name suffixes; the helper reuse key must cover the separator (known finding D9); symbol-table inserts are guarded "
        "(known findings D6h/D6j/D18). Not decided: that the bootstrapped parser parses the grammar text as the "
        "grammar-of-grammars says.")
