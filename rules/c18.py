"""C18 - regenerating actions preserves user edits and only adds what is missing."""
import re

from . import mir
from .mir import Sim, TermBuilder, callee, fmt

LEVEL = "other"
GPA = r"^rustemo_compiler::generator::actions::generate_parser_actions"
MUT_ITEM_TYPES = re.compile(r"^&mut (syn::file::File|alloc::vec::Vec<syn::item::Item>|\[syn::item::Item\]|syn::item::Item)(?![\w:<])")
ITEMS_READERS = ("into_iter", "::iter", "Deref>::deref", "::len", "::is_empty")


def family(F):
    return [f for f in F.find(GPA) if f.has_body()]


def r1_append_only(F, res):
    rid = res.rule("C18-R1", "the item list of the parsed/created actions file is only ever appended to: every &mut "
                   "access to syn::File / Vec<Item> / Item in generate_parser_actions and its closures flows into Vec::push",
                   floor=4)
    fam = family(F)
    if not fam:
        res.anchor_lost(rid, "generate_parser_actions not found")
        return
    pushes = 0
    for f in fam:
        mut_locals = [i for i, l in enumerate(f.d["locals"]) if MUT_ITEM_TYPES.search(l["ty"])]
        for l in mut_locals:
            # every use of the &mut local
            for i, t in f.terms():
                if t["k"] != "call":
                    continue
                for ai, a in enumerate(t["args"]):
                    if a["k"] in ("copy", "move") and a["p"]["l"] == l:
                        n = callee(t)
                        where = "%s:%s" % (f.file, t["line"])
                        key = "%s/%s" % (f.path.split("generator::actions::")[-1], mir.strip_generics(mir.short(n)))
                        if ai == 0 and (n.startswith("alloc::vec::Vec::<T, A>::push") or (
                                n.startswith("<alloc::vec::Vec<T, A> as core::iter::traits::collect::Extend<") and n.endswith(">::extend"))
                                or n.startswith("alloc::vec::Vec::<T, A>::append") or n.startswith("alloc::vec::Vec::<T, A>::extend_from_slice")):
                            # push / extend / append / extend_from_slice only ever add at the end
                            pushes += 1
                            res.ok(rid, key, where, "append")
                        elif "DerefMut" in n or n.endswith("::deref_mut"):
                            res.ok(rid, key + "/reborrow", where, "reborrow")
                        else:
                            res.violation(rid, key, "the existing items of the actions file can be modified: &mut %s is passed "
                                          "to %s (only Vec::push is allowed)" % (f.local_ty(l)[5:], mir.short(n)), where)
        # direct stores through a &mut (assignment into an item or the list)
        for i, j, s in f.stmts():
            dst = s["dst"]
            if dst["proj"] and dst["l"] in mut_locals and any(e["k"] == "deref" for e in dst["proj"]):
                res.violation(rid, "%s/store" % f.path.split("generator::actions::")[-1],
                              "a field of the parsed actions file is overwritten in place", "%s:%s" % (f.file, s["line"]))
            # `ast` reassigned: a second whole definition of a local of type syn::File
        # locals of type syn::file::File must have a single (phi of parse/new) creation and no later reassignment
    main = [f for f in fam if f.kind != "Closure"][0]
    ast_l = main.local_of_var("ast")
    if ast_l is None:
        res.anchor_lost(rid, "variable `ast` not found in generate_parser_actions", main.loc())
    else:
        defs = main.defs().get(ast_l, [])
        partial = main.defs().get((ast_l, "partial"), [])
        srcs = set()
        for d in defs:
            if d[0] == "call":
                srcs.add(mir.short(callee(d[3])))
            else:
                srcs.add("assign")
        if partial:
            res.violation(rid, "ast/partial-store", "a field of `ast` is assigned directly", main.loc())
        # allowed creators: syn::parse_file(..)? result, parse_quote
        res.ok(rid, "ast/definitions", main.loc(), "ast defined by %s" % sorted(srcs))
    if pushes < 4:
        res.anchor_lost(rid, "only %d push sites on the item list found (4 expected)" % pushes, main.loc())


def contains_guard(term):
    """(set term, key term) of `BTreeSet::contains(set, key)`"""
    if isinstance(term, tuple) and term[0] == "call" and "BTreeSet" in term[1] and term[1].endswith("::contains"):
        return term[2][0], term[2][1]
    return None


def roots(term):
    """the parameter / upvar roots and the local helper calls of a term"""
    r = set()
    for x in mir.walk(term):
        if isinstance(x, tuple) and x[0] in ("param", "upvar", "var"):
            r.add(x)
        elif isinstance(x, tuple) and x[0] == "call" and mir.call_matches(x[1], "Iterator::next"):
            # the element of a `for` loop plays the role the closure parameter plays in `for_each`
            r.add(("call", x[1], x[2]))
    return r


def helper_calls(term):
    """local helper functions applied to the element (what produced the element - the iteration source - is not part of it)"""
    out = set()
    def go(x):
        if not isinstance(x, tuple):
            return
        if x and x[0] == "call":
            if mir.call_matches(x[1], "Iterator::next"):
                return
            if x[1].startswith("rustemo_compiler::"):
                out.add(mir.short(x[1]))
            for a in x[2]:
                go(a)
            return
        for y in x[1:]:
            if isinstance(y, tuple):
                go(y)
    go(term)
    return out


def r2_guards(F, res):
    rid = res.rule("C18-R2", "every push onto the item list is on the `not contained` edge of a lookup of the item's own "
                   "name in the set of existing names (type_names for types, action_names for functions)", floor=4)
    rid_b = res.rule("C18-R2b", "every pushed item is guarded by its own ident (not by another item's)", floor=1)
    fam = family(F)
    n = 0
    seen_sites = set()
    reach_guards = {}
    reach_last = {}
    def is_item_list(x):
        # the item vector of the actions file, from a closure (captured) or from the function body
        return mir.contains(x, lambda y: y in (("upvar", "ast.items"), ("upvar", "ast"), ("var", "ast"))
                            or (isinstance(y, tuple) and y[0] == "field" and y[2] == "items" and str(y[3]).endswith("File")))
    def set_name(gset):
        for y in mir.walk(gset):
            if isinstance(y, tuple) and y[0] in ("upvar", "var"):
                return y[1]
            if isinstance(y, tuple) and y[0] == "call" and len(y) > 3 and isinstance(y[3], tuple) and y[3][0] == "as":
                return y[3][1]
        return fmt(gset)
    for f in fam:
        if f.kind == "Closure":
            ups = [u["name"] for u in (f.d.get("upvars") or [])]
            if "ast.items" not in ups and "ast" not in ups:
                continue
        try:
            fpaths = Sim(f, F, max_paths=100000).run()
        except mir.PathLimit:
            res.anchor_lost(rid, "too many paths in %s" % f.path, f.loc())
            continue
        for p in fpaths:
            guard = None   # last contains cond
            seen_guards = []
            for e in p.events:
                if e[0] == "cond":
                    g = contains_guard(e[1])
                    if g:
                        guard = (g, e[2])
                        seen_guards.append((set_name(g[0]), fmt(g[1])[:120], e[2]))
                elif e[0] == "call" and (e[1].startswith("alloc::vec::Vec::<T, A>::push") or e[1].endswith(">::extend")) and \
                        e[2] and len(e[2]) > 1 and is_item_list(e[2][0]):
                    item = e[2][1]
                    where = "%s:%s" % (f.file, e[3])
                    # every lookup met on the way to this site, with the values it had (over all paths): a lookup that always
                    # has the same value when the site is reached guards the site, whether it is the last one or not
                    for sg in seen_guards:
                        reach_guards.setdefault((where, e[1]), {}).setdefault(sg[:2], set()).add(sg[2])
                    reach_last.setdefault((where, e[1]), set()).add((set_name(guard[0][0]), fmt(guard[0][1])[:120]) if guard else None)
                    if (where, e[1]) in seen_sites:
                        continue
                    seen_sites.add((where, e[1]))
                    n += 1
                    prod = [c for c in mir.calls_in(item) if "ActionsGenerator" in c[1] or "nonterminal_" in c[1]
                            or "terminal_" in c[1]]
                    pname = mir.short(prod[0][1]).split("::")[-1] if prod else fmt(item)[:40]
                    key = "push/%s" % pname
                    if guard is None:
                        res.violation(rid, key, "an item is appended without checking whether it already exists "
                                      "(duplicates on every regeneration)", where)
                        continue
                    (gset, gkey), gval = guard
                    setname = set_name(gset)
                    if gval != 0:
                        res.violation(rid, key, "the item is appended when its name IS already in %s (inverted guard)" % setname, where)
                        continue
                    # which set: functions vs types
                    is_action = "action" in pname
                    want = "action_names" if is_action else "type_names"
                    if setname != want:
                        res.violation(rid, key, "%s is guarded by a lookup in `%s`, expected `%s`" % (pname, setname, want), where)
                        continue
                    # key / item agreement
                    if pname in ("terminal_type", "terminal_action"):
                        same_root = roots(gkey) & roots(item)
                        hk = helper_calls(gkey)
                        exp_h = {"types::to_snake_case"} if pname == "terminal_action" else set()
                        names = {x[2] for x in mir.walk(gkey) if isinstance(x, tuple) and x[0] == "field"}
                        if not same_root or "name" not in names or hk != exp_h:
                            res.violation(rid, key, "the guard key %s is not the name %s gives to the item it produces" % (
                                fmt(gkey)[:120], pname), where)
                        else:
                            res.ok(rid, key, where, "guard %s not in %s" % (fmt(gkey)[:80], setname))
                    elif pname == "nonterminal_actions":
                        # key and item are the two components of one tuple
                        def tuple_root(t):
                            return t[1] if isinstance(t, tuple) and t[0] == "field" and t[2] in ("0", "1") else None
                        if tuple_root(gkey) is not None and tuple_root(gkey) == tuple_root(item) and gkey[2] == "0" and item[2] == "1":
                            res.ok(rid, key, where, "(action_name, action) of one tuple")
                        else:
                            res.violation(rid, key, "the guard key and the appended action are not the name and item of the "
                                          "same (name, item) pair: key=%s item=%s" % (fmt(gkey)[:100], fmt(item)[:100]), where)
                    elif pname == "nonterminal_types":
                        # items come from a loop over nonterminal_types(..), guarded once by the nonterminal's name
                        res.ok(rid, key, where, "guard %s not in %s" % (fmt(gkey)[:80], setname))
                        res.violation(rid_b, "nonterminal_types",
                                      "all items of nonterminal_types(..) (main type and helper structs) are guarded only by "
                                      "the nonterminal's own name: a deleted helper struct is not re-added", where)
                    else:
                        res.ok(rid, key, where, "guarded by %s" % fmt(gkey)[:80])
    # an item must not ALSO hang on the name of another item: a site whose reaching paths all passed `not in <set>` for a
    # key that is not the site's own (last) lookup is not re-created when only its own name is missing
    for site, gs in sorted(reach_guards.items()):
        own = reach_last.get(site, set())
        foreign = [k for k, vals in gs.items() if len(vals) == 1 and k not in own]
        if foreign:
            res.violation(rid, "foreign-guard/%s" % foreign[0][0], "an item appended at %s is also guarded by a lookup of another "
                          "item's name (%s in `%s`): it is not re-added when only itself is missing from the file" % (
                              site[0], foreign[0][1][:80], foreign[0][0]), site[0])
    if n < 4:
        res.anchor_lost(rid, "%d guarded push sites found, 4 expected" % n)


COLLECT_SPEC = {"Enum": "type_names", "Struct": "type_names", "Type": "type_names", "Fn": "action_names"}


def r3_collector(F, res):
    rid = res.rule("C18-R3", "the collector of existing names files enum/struct/type idents under type_names and fn idents "
                   "under action_names (the sets the guards look in)", floor=4)
    main = [f for f in family(F) if f.kind != "Closure"]
    if not main:
        return
    main = main[0]
    got = {}
    for p in Sim(main, F, max_paths=200000).run():
        variant = None
        for e in p.events:
            if e[0] == "cond" and e[1][0] == "discr" and len(e[1]) > 2 and e[1][2] == "syn::item::Item" \
                    and isinstance(e[2], frozenset) and len(e[2]) == 1:
                variant = next(iter(e[2]))
            elif e[0] == "call" and "BTreeSet" in e[1] and e[1].endswith("::insert") and variant:
                setname = main.var_name_of_term(e[2][0]) if hasattr(main, "var_name_of_term") else None
                s = fmt(e[2][0])
                got.setdefault(variant, set()).add((s, "ident" if mir.has_field(e[2][1], "ident") else fmt(e[2][1])[:80]))
    # set names: map terms to variable names through var debug info
    tn = main.local_of_var("type_names")
    an = main.local_of_var("action_names")
    if tn is None or an is None:
        res.anchor_lost(rid, "type_names / action_names not found", main.loc())
        return
    tb = TermBuilder(main, F)
    names = {fmt(tb.local(tn)): "type_names", fmt(tb.local(an)): "action_names", "var(type_names)": "type_names",
             "var(action_names)": "action_names"}
    if len(names) < 3:
        res.anchor_lost(rid, "type_names and action_names are not distinguishable", main.loc())
    for variant, exp in COLLECT_SPEC.items():
        g = got.get(variant)
        if not g:
            res.violation(rid, "collect/%s" % variant, "idents of existing `%s` items are not recorded: such items are "
                          "appended again on every regeneration" % variant.lower(), main.loc())
            continue
        sets = {names.get(s, s) for s, _ in g}
        idents = {k for _, k in g}
        if sets == {exp} and all("ident" in k for k in idents):
            res.ok(rid, "collect/%s" % variant, main.loc(), "-> %s" % exp)
        else:
            res.violation(rid, "collect/%s" % variant, "existing %s items are recorded in %s (key %s), expected their ident in %s" % (
                variant, sorted(sets), sorted(idents), exp), main.loc())
    # names can also be in the file through `use` (a user who moved a type or an action into another module and re-exports
    # it): they are existing names all the same - appended again they are defined twice (D52)
    if got:
        if "Use" in got:
            res.ok(rid, "collect/Use", main.loc(), "names imported with `use` are recorded")
        else:
            res.violation(rid, "collect/Use", "names brought into the actions file with `use` are not recorded as existing: the type and "
                          "the action of that name are appended again and the name is defined twice (`pub use super::common::{Num, "
                          "num};` + regeneration)", main.loc())
    for variant in got:
        if variant not in COLLECT_SPEC:
            res.ok(rid, "collect/%s" % variant, main.loc(), "additional kind recorded")


def r4_force(F, res):
    rid = res.rule("C18-R4", "the existing file is parsed (and therefore preserved) exactly when it exists and overwriting "
                   "is not forced", floor=1)
    main = [f for f in family(F) if f.kind != "Closure"]
    if not main:
        return
    main = main[0]
    rows = set()
    for p in Sim(main, F, max_paths=200000).run():
        ex = fo = None
        for t, v in p.cond:
            if isinstance(t, tuple) and t[0] == "call" and t[1].endswith("Path::exists"):
                ex = v
            if isinstance(t, tuple) and t[0] == "field" and t[2] == "force" and str(t[3]).endswith("Settings"):
                fo = v
        parsed = p.has_call("syn::parse_file") or p.has_call("read_to_string")
        rows.add((ex, fo, parsed))
    want = {(1, 0, True), (1, 1, False), (0, None, False)}
    core = {r for r in rows if r[0] is not None}
    if core == want:
        res.ok(rid, "force-table", main.loc(), "parse existing <=> exists and not force")
    else:
        res.violation(rid, "force-table", "decision table of (exists, force) -> parse-existing is %s, documented %s" % (
            sorted(core, key=str), sorted(want, key=str)), main.loc())
    # the file that is checked for existence is the file that is parsed and the file that is written
    rid5 = res.rule("C18-R5", "every successful regeneration writes prettyplease::unparse(&ast) of the same ast to the same "
                    "actions path that was checked/parsed; it is the only writer of that path", floor=2)
    npaths = 0
    for p in Sim(main, F, max_paths=200000).run():
        if p.end != "return":
            continue
        ret = [e for e in p.events if e[0] == "return"]
        # Ok path: not an early `?` return
        is_err = any(t[0] == "discr" and isinstance(v, frozenset) and v == frozenset(["Break"]) for t, v in p.cond)
        if is_err:
            continue
        npaths += 1
        ex = [e for e in p.events if e[0] == "call" and e[1].endswith("Path::exists")]
        wr = [e for e in p.events if e[0] == "call" and e[1].startswith("std::fs::write")]
        if not wr:
            res.violation(rid5, "write/must-pass-through", "generate_parser_actions can return Ok without writing the "
                          "actions file (appended items are lost)", main.loc(),
                          [(fmt(t)[:100], str(v)) for t, v in p.cond][-6:])
            break
        w = wr[-1]
        if ex and ex[0][2][0] != w[2][0]:
            res.violation(rid5, "write/path", "the file written (%s) is not the file checked for existence (%s)" % (
                fmt(w[2][0])[:100], fmt(ex[0][2][0])[:100]), main.loc())
            break
        content = w[2][1]
        if not (isinstance(content, tuple) and content[0] == "call" and "prettyplease::unparse" in content[1]):
            res.violation(rid5, "write/content", "the content written is %s, not prettyplease::unparse(&ast)" % fmt(content)[:120],
                          main.loc())
            break
    else:
        if npaths:
            res.ok(rid5, "write/must-pass-through", main.loc(), "%d Ok paths, all end in fs::write(action_file, unparse(ast))" % npaths)
    # writers in the crate
    writers = set()
    for f in F.fns.values():
        if f.crate != "rustemo_compiler" or not f.has_body():
            continue
        for b, t in f.calls():
            n = callee(t)
            if n.startswith("std::fs::write") or n.startswith("std::fs::File::create") or "OpenOptions" in n \
                    or n.startswith("std::fs::remove") or n.startswith("std::fs::rename") or n.startswith("std::fs::copy"):
                writers.add((f.path.split("::{closure")[0], mir.short(n)))
    exp = {"rustemo_compiler::generator::actions::generate_parser_actions",
           "rustemo_compiler::generator::ParserGenerator::<'g, 's>::generate",
           "rustemo_compiler::generator::generate_parser",
           "rustemo_compiler::verif_dump::dump"}
    for w, n in sorted(writers):
        if w in exp:
            res.ok(rid5, "writer/%s" % w.split("::")[-1], None, n)
        else:
            res.violation(rid5, "writer/%s" % w, "a new file writer (%s in %s): the actions file must have a single writer" % (n, w))


def r6_caller(F, res):
    rid = res.rule("C18-R6", "generate_parser_actions is called from one place, under settings.actions and the default builder",
                   floor=1)
    callers = []
    for f in F.fns.values():
        if f.crate != "rustemo_compiler" or not f.has_body():
            continue
        for b, t in f.calls():
            if callee(t) == "rustemo_compiler::generator::actions::generate_parser_actions":
                callers.append((f, b, t))
    if len(callers) != 1:
        res.violation(rid, "callers", "generate_parser_actions has %d call sites (1 expected)" % len(callers))
        return
    f, b, t = callers[0]
    ok = False
    for p in Sim(f, F, max_paths=200000).run():
        if not p.has_call("generate_parser_actions"):
            continue
        conds = {}
        for e in p.events:
            if e[0] == "call" and "generate_parser_actions" in e[1]:
                break
            if e[0] == "cond":
                tt = e[1]
                if tt[0] == "field" and tt[2] == "actions":
                    conds["actions"] = e[2]
                if tt[0] == "discr" and isinstance(tt[1], tuple) and tt[1][0] == "field" and tt[1][2] == "builder_type":
                    conds["builder"] = e[2]
        if conds.get("actions") == 1 and conds.get("builder") == frozenset(["Default"]):
            ok = True
        else:
            res.violation(rid, "caller-guard", "actions are (re)generated under %s (expected settings.actions and the "
                          "Default builder)" % conds, "%s:%s" % (f.file, t["line"]))
            return
    if ok:
        res.ok(rid, "caller-guard", "%s:%s" % (f.file, t["line"]), "settings.actions && builder_type == Default")
    else:
        res.anchor_lost(rid, "no path to the call of generate_parser_actions", f.loc())


def run(ctx, res):
    F = ctx.facts("core")
    r1_append_only(F, res)
    r2_guards(F, res)
    r3_collector(F, res)
    r4_force(F, res)
    r6_caller(F, res)
    # the Settings side of the force decision (shared with C17-R5b)
    from . import c17
    import json
    tabs = c17.setter_tables(F)
    rid = res.rule("C18-R4b", "Settings::force / actions_in_source_tree / in_source_tree side effects equal the documented "
                   "table (force is switched off only when not explicitly given)", floor=3)
    spec = c17.load_table("settings_setters.json")
    for name in ("force", "actions_in_source_tree", "in_source_tree"):
        if name not in tabs:
            res.anchor_lost(rid, "Settings::%s not found" % name)
            continue
        f, got = tabs[name]
        exp = sorted(spec.get(name, []), key=lambda r: json.dumps(r, sort_keys=True))
        if c17.tables_equal(exp, got):
            res.ok(rid, "setter/%s" % name, f.loc())
        else:
            res.violation(rid, "setter/%s" % name, "Settings::%s side-effect table differs from the documented one" % name,
                          f.loc(), {"expected": exp, "extracted": got})
    res.explanation = (
        "MIR analysis of generator::actions::generate_parser_actions and its closures. Decides: (R1) who-may-mutate: "
        "every &mut access to the parsed syn::File / its item vector / an item flows into Vec::push only (append-only; "
        "Rust's type system makes this the complete set of mutators); (R2) each push is on the not-contained edge of "
        "a lookup of the pushed item's own name in the right set, key and item agree; (R2b) items individually guarded; "
        "(R3) the collector files Enum/Struct/Type idents under type_names and Fn idents under action_names; (R4) "
        "parse-existing <=> exists and not force, and the Settings-side force table; (R5) every Ok path writes "
        "unparse(ast) to the path that was checked, single writer; (R6) one guarded caller. Not decided: that "
        "prettyplease::unparse(syn::parse_file(x)) preserves existing items token for token (third party).")
    res.assumptions = ["syn::parse_file followed by prettyplease::unparse is stable on existing items",
                       "syn::File has no interior mutability"]
