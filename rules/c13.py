"""C13 - spans and positions faithfully locate every tree node in the input."""
import re
from . import mir, rt, gen, idiom
from .mir import Sim, TermBuilder, callee, fmt, has_call, has_field
from .rt import is_call, calls, idx

LEVEL = "other"


def span_agg(t):
    if isinstance(t, tuple) and t[0] == "agg" and t[1].endswith("SourceSpan::SourceSpan"):
        return dict(t[2])
    return None


def span_of(t):
    """a span written out (`SourceSpan { start, end }`) or converted from one position-like value (`x.into()`,
    `SourceSpan::from(x)`; conversions are transparent in terms): then both ends are that value"""
    sp = span_agg(t)
    if sp is not None:
        return sp
    if isinstance(t, tuple) and t and t[0] in ("call", "field", "vfield"):
        return {"start": t, "end": t}
    return None


def ctx_span_end(t):
    return isinstance(t, tuple) and t[0] == "field" and t[2] == "end" and is_call(t[1], "Context::span")


def ctx_span_start(t):
    return isinstance(t, tuple) and t[0] == "field" and t[2] == "start" and is_call(t[1], "Context::span")


def ctx_position(t):
    return is_call(t, "Context::position")


def _anchor_kind(x):
    """where a zero-width span sits: 'end' / 'start' of a Context::span() value, 'position', or the printed term"""
    if isinstance(x, tuple) and x[0] == "field" and x[2] in ("end", "start") and is_call(x[1], "Context::span"):
        return x[2]
    if ctx_position(x):
        return "position"
    return fmt(x)[:60]


def classify_span(sp, coll_pred):
    """('child', ok_start, ok_end) when the span is built from elements of the collection (first/last in any spelling),
    ('empty', (start kind, end kind)) otherwise"""
    st, en = sp["start"], sp["end"]
    def span_owner(s):
        """the element whose span `s` is: `E.span` (LR stack item) or `Context::span(&E.possibilities[0])` (GLR parent link)"""
        if isinstance(s, tuple) and s[0] == "field" and s[2] == "span":
            return s[1]
        if is_call(s, "::span") and s[2]:
            inner = idiom.first_of(s[2][0])          # every possibility of a link covers the same span: the first one
            if isinstance(inner, tuple) and inner[0] == "field" and inner[2] == "possibilities":
                return inner[1]
        return None
    def of_elem(x, which, pick):
        # strictly: x is <which> of the span of THE first / last element (not of something chosen among the elements)
        if not (isinstance(x, tuple) and x[0] == "field" and x[2] == which):
            return False
        e = span_owner(x[1])
        c = pick(e) if e is not None else None
        return c is not None and coll_pred(c)
    touches = any(idiom.find_first_of(x, coll_pred) is not None or idiom.find_last_of(x, coll_pred) is not None for x in (st, en))
    if touches:
        return ("child", of_elem(st, "start", idiom.first_of), of_elem(en, "end", idiom.last_of))
    return ("empty", (_anchor_kind(st), _anchor_kind(en)))


def lr_span_forms(F):
    """[(emptiness, classified span, raw span)] over the return paths of ParseStack::pop_states"""
    f = F.one(r"^rustemo::lr::parser::ParseStack::<[^>]*>::pop_states$")
    popped = lambda c: has_call(c, "split_off")
    def extra(t, v):
        # `states == 0`: the popped part has `states` elements
        if isinstance(t, tuple) and t[0] == "bin" and v in (0, 1) and ("param", "states") in (t[2], t[3]) and ("const", 0) in (t[2], t[3]):
            if t[1] in ("Eq", "Ne"):
                return (v == 1) == (t[1] == "Eq")
            if t[1] in ("Gt", "Lt"):      # states > 0 / 0 < states
                return v == 0
        return None
    forms = []
    for p in Sim(f, F).run():
        r = [e[1] for e in p.events if e[0] == "return"]
        if not r or r[0][0] != "agg":
            continue
        sp = span_of(dict(r[0][2]).get("1"))
        if not sp:
            continue
        em = idiom.path_emptiness(p, popped, extra)
        if em == "contradiction":
            continue
        forms.append((em, classify_span(sp, popped), sp))
    return forms, f


def glr_span_forms(F):
    """the same over the paths of the GLR reducer that build an SPPFTree::NonTerm"""
    f, paths = rt.cache(F).paths(rt.GLR + "reducer$")
    parents = lambda c: has_field(c, "parents")
    forms = []
    seen = set()
    for p in paths:
        node = None
        for e in p.events:
            for x in mir.walk(e):
                if isinstance(x, tuple) and x[0] == "agg" and x[1].endswith("SPPFTree::NonTerm"):
                    node = x
                    break
            if node:
                break
        if not node:
            continue
        data = dict(node[2]).get("data")
        sp = span_of(dict(data[2]).get("span")) if isinstance(data, tuple) and data[0] == "agg" else None
        if not sp:
            continue
        em = idiom.path_emptiness(p, parents)
        if em == "contradiction":
            continue
        key = (em, repr(sp))
        if key in seen:
            continue
        seen.add(key)
        forms.append((em, classify_span(sp, parents), sp))
    return forms, f


def empty_kind(forms):
    ks = {c[1] for em, c, sp in forms if c[0] == "empty" and em is not False}
    return sorted(ks)[0] if len(ks) == 1 else (None if not ks else ("mixed", "mixed"))


def check_forms(res, rid_child, rid_empty, forms, f, who, keyp, end_also=None):
    """end_also(term) -> reason: another place the END may be read from because it is provably the same position"""
    nchild = nempty = 0
    done = set()
    for em, c, sp in forms:
        if c[0] == "child":
            nchild += 1
            if "child" in done:
                continue
            done.add("child")
            for part, ok, exp in (("start", c[1], "the start of its first child"), ("end", c[2], "the end of its last child")):
                why = end_also(sp[part]) if (part == "end" and not ok and end_also is not None) else None
                if ok or why:
                    res.ok(rid_child, keyp + part, f.loc(), why)
                else:
                    res.violation(rid_child, keyp + part, "%s: a reduced node %ss at %s, expected %s" % (
                        who, part, fmt(sp[part])[:140], exp), f.loc())
        else:
            nempty += 1
            if em is False:
                res.violation(rid_child, keyp + "start", "%s: a non-empty reduction gets the span [%s, %s] that does not come "
                              "from its children" % (who, c[1][0], c[1][1]), f.loc())
    return nchild, nempty


def r_lr(F, res):
    rid = res.rule("C13-R1", "LR shift: span = [position, position_after(token.value, position)], position := its end, "
                   "before the state (with its span) is pushed", floor=3)
    f, paths = rt.cache(F).paths(rt.LR_PWC)
    where = f.loc()
    for p in paths:
        kind, action = rt.lr_action_kind(p)
        if kind == "Shift":
            pa = calls(p, "Input::position_after")
            ss = calls(p, "Context::set_span")
            sp = calls(p, "Context::set_position")
            if not (pa and ss and sp):
                res.missing(rid, "shift/geometry", "LR shift: the Shift arm does not call position_after / set_span / set_position "
                            "(found: %s)" % [bool(pa), bool(ss), bool(sp)], where)
                break
            np = ("call", pa[0][1], pa[0][2])
            ok_np = isinstance(pa[0][2][0], tuple) and pa[0][2][0][0] == "field" and pa[0][2][0][2] == "value" and ctx_position(pa[0][2][1])
            sa = span_agg(ss[0][2][1])
            ok_span = sa is not None and ctx_position(sa["start"]) and sa["end"][:3] == np[:3]
            ok_pos = sp[0][2][1][:3] == np[:3]
            order = [idx(p, "Input::position_after"), idx(p, "Context::set_span"), idx(p, "Context::set_position"),
                     idx(p, "ParseStack::<S, I, C, TK>::push_state")]
            for key, ok, msg in (
                    ("shift/new-position", ok_np, "the new position is %s, expected token.value.position_after(context.position())" % fmt(np)[:120]),
                    ("shift/span", ok_span, "the shifted token's span is %s, expected [context.position(), new position]" % fmt(ss[0][2][1])[:160]),
                    ("shift/set-position", ok_pos, "the context position after a shift is %s, expected the end of the token" % fmt(sp[0][2][1])[:120]),
                    ("shift/order", None not in order and order == sorted(order), "the span/position are not set before push_state stores them (%s)" % order)):
                if ok:
                    res.ok(rid, key, where)
                else:
                    res.violation(rid, key, "LR shift: " + msg, where)
            break
    # R2/R3 reduce spans
    rid2 = res.rule("C13-R2", "LR reduce: span runs from the start of the first popped item to the end of the last", floor=2)
    rid3 = res.rule("C13-R3", "LR empty reduction: zero-width span at the end of the current span (or the current position), "
                    "never before the preceding token", floor=1)
    forms, g = lr_span_forms(F)
    nchild, nempty = check_forms(res, rid2, rid3, forms, g, "LR reduce", "reduce/")
    if not nchild:
        res.anchor_lost(rid2, "no return path of pop_states builds the span from the popped items", g.loc())
    k = empty_kind(forms)
    if k is None:
        res.anchor_lost(rid3, "empty-reduction path of pop_states not found", g.loc())
    elif k[0] == k[1] and k[0] in ("end", "position"):
        res.ok(rid3, "lr-empty-span", g.loc(), "zero width at context.span().%s" % k[0] if k[0] == "end" else "zero width at context.position()")
    else:
        res.violation(rid3, "lr-empty-span", "an empty LR reduction gets the span [%s, %s] of the current span: the empty node is "
                      "reported before the preceding token (must lie between its end and the next token)" % k, g.loc())
    # R4 bracket
    rid4 = res.rule("C13-R4", "the reduced span is in the context while the builder is called and the saved span is restored after", floor=1)
    for p in paths:
        kind, action = rt.lr_action_kind(p)
        if kind == "Reduce":
            ss = [i for i, e in enumerate(p.events) if e[0] == "call" and "Context::set_span" in e[1]]
            ra = idx(p, "LRBuilder::reduce_action")
            ps = idx(p, "ParseStack::<S, I, C, TK>::pop_states")
            ok = len(ss) >= 2 and ra is not None and ss[0] < ra < ss[-1]
            first = p.events[ss[0]][2][1] if ss else None
            last = p.events[ss[-1]][2][1] if ss else None
            ok = ok and isinstance(first, tuple) and first[0] == "field" and first[2] == "1" and is_call(first[1], "pop_states")
            # the restored value is the very context.span() value read before the reduced span was put in (same receiver epoch)
            reads_before = [e[5] for e in p.events[:ss[0]] if e[0] == "call" and mir.call_matches(e[1], "Context::span")] if ss else []
            ok = ok and is_call(last, "Context::span") and last in reads_before
            if ok:
                res.ok(rid4, "reduce/span-bracket", where)
            else:
                res.violation(rid4, "reduce/span-bracket", "the builder is not called between set_span(reduced span) and "
                              "set_span(saved span) (first=%s last=%s)" % (fmt(first)[:80] if first else None, fmt(last)[:80] if last else None), where)
            break
    h = F.one(r"^<rustemo::lr::builder::TreeBuilder<.*> as rustemo::lr::builder::LRBuilder<.*>>::reduce_action$")
    for p in Sim(h, F).run():
        pushes = calls(p, "Vec::<T, A>::push")
        node = pushes[-1][2][1] if pushes else None
        sp = dict(node[2]).get("span") if node and node[0] == "agg" else None
        if is_call(sp, "Context::span"):
            res.ok(rid4, "tree-builder/span", h.loc())
        else:
            res.violation(rid4, "tree-builder/span", "TreeBuilder stores %s as the node span, expected context.span()" % (fmt(sp)[:80] if sp else None), h.loc())
        break


def r_lexer(F, res):
    rid = res.rule("C13-R5", "default lexer: token value is what the recogniser returned for input[position.pos..], span = "
                   "span_from(value, position); skipped whitespace advances the position by exactly the skipped slice", floor=3)
    f = F.one(r"^<rustemo::lexer::TokenIterator<.*> as core::iter::traits::iterator::Iterator>::next$")
    done = False
    for p in Sim(f, F).run():
        r = [e[1] for e in p.events if e[0] == "return"]
        if not r or r[0][0] != "agg" or not r[0][1].endswith("Option::Some"):
            continue
        tok = dict(r[0][2])["0"]
        if tok[0] != "agg":
            continue
        d = dict(tok[2])
        v = d["value"]
        ok_v = isinstance(v, tuple) and v[0] == "vfield" and v[2] == "Some" and is_call(v[1], "TokenRecognizer::recognize")
        ok_s = is_call(d["span"], "Input::span_from") and d["span"][2][0] == v and has_field(d["span"][2][1], "position", "TokenIterator")
        rec = v[1] if ok_v else None
        sl = rec[2][1] if rec else None
        ok_in = sl is not None and has_field(sl, "input", "TokenIterator") and mir.contains(sl, lambda x: isinstance(x, tuple) and x[0] == "field" and x[2] == "pos"
                                                                                             and has_field(x, "position", "TokenIterator"))
        for key, ok, msg in (("token/value", ok_v, "token.value is %s" % fmt(v)[:100]),
                             ("token/span", ok_s, "token.span is %s, expected span_from(value, self.position)" % fmt(d["span"])[:120]),
                             ("token/input-slice", ok_in, "the recogniser is given %s, expected input[self.position.pos..]" % (fmt(sl)[:100] if sl else None))):
            if ok:
                res.ok(rid, key, f.loc())
            else:
                res.violation(rid, key, "TokenIterator::next: " + msg, f.loc())
        # kind and finish flag come from the same tuple as the recogniser
        k = d["kind"]
        if not (has_field(k, "token_recognizers", "TokenIterator") and has_field(rec[2][0], "token_recognizers", "TokenIterator")):
            res.violation(rid, "token/kind", "token kind %s does not come from the tuple of the recogniser that matched" % fmt(k)[:100], f.loc())
        done = True
        break
    if not done:
        res.anchor_lost(rid, "Some(Token{..}) return of TokenIterator::next not found", f.loc())
    g = F.one(r"^rustemo::lexer::StringLexer::<[^>]*>::skip$")
    for p in Sim(g, F).run():
        sp = calls(p, "Context::set_position")
        sl = calls(p, "Context::set_layout_ahead")
        gt = [v for t, v in p.cond if t[0] == "bin" and t[1] == "Gt" and t[3] == ("const", 0)]
        if gt and gt[0] == 1:
            a = sp[0][2][1] if sp else None
            lay = sl[0][2][1] if sl else None
            sk = dict(lay[2]).get("0") if lay and lay[0] == "agg" else None
            ok = a is not None and is_call(a, "Input::position_after") and a[2][0] == sk and ctx_position(a[2][1])
            if ok:
                res.ok(rid, "skip/position", g.loc(), "position := skipped.position_after(position)")
            else:
                res.violation(rid, "skip/position", "after skipping whitespace the position becomes %s, expected "
                              "skipped.position_after(context.position())" % (fmt(a)[:120] if a else None), g.loc())


def r_glr(F, res):
    rid = res.rule("C13-R6", "GLR: shifted head position = position_after(token.value, head.position), head span = token.span; "
                   "reduced span from the first child's start to the last child's end; empty reduction at the end of the root "
                   "head's span; Tree::build sets the node's span before calling the builder", floor=7)
    f, paths = rt.cache(F).paths(rt.GLR + "shifter$")
    for p in paths:
        pa = calls(p, "Input::position_after")
        newh = calls(p, "GssHead::<'i, I, S, TK>::new")
        if pa and newh:
            posn = ("call", pa[0][1], pa[0][2])
            tokv = pa[0][2][0]
            ok1 = tokv[0] == "field" and tokv[2] == "value" and is_call(pa[0][2][1], "Context::position") and has_call(pa[0][2][1], "GssGraph")
            a = newh[0][2]
            ok2 = a[2][:3] == posn[:3]
            ok3 = a[3][0] == "field" and a[3][2] == "span" and a[3][1] == tokv[1]
            for key, ok, msg in (("shifter/position", ok1 and ok2, "new head position is %s" % fmt(a[2])[:100]),
                                 ("shifter/span", ok3, "new head span is %s, expected token.span" % fmt(a[3])[:100])):
                if ok:
                    res.ok(rid, key, f.loc())
                else:
                    res.violation(rid, key, "GLR shifter: " + msg, f.loc())
            break
    # ... and the Term node that is put on the edge carries the span of ITS token - on the path that creates the head and on
    # the path that finds it: a shifted head is shared by all tokens that reach the same state at the same position, also
    # tokens of different lengths (lexical ambiguity), so "the head's span" is some other token's span (D34)
    nterm = 0
    for p in paths:
        for e in p.events:
            if not (e[0] == "call" and "add_solution" in e[1]):
                continue
            term = None
            for x in mir.walk(e[2]):
                if isinstance(x, tuple) and x[0] == "agg" and x[1].endswith("SPPFTree::Term"):
                    term = x
                    break
            if term is None:
                continue
            dd = dict(term[2])
            tok, data = dd.get("token"), dd.get("data")
            sp = dict(data[2]).get("span") if isinstance(data, tuple) and data[0] == "agg" else None
            if tok is None or sp is None:
                continue
            nterm += 1
            def is_token_span(x):
                return isinstance(x, tuple) and x[0] == "field" and x[2] == "span" and idiom.same(x[1], tok)
            ok = is_token_span(sp)
            if not ok and is_call(sp, "::span") and sp[2] and isinstance(sp[2][0], tuple) and sp[2][0][0] == "call" \
                    and mir.strip_generics(sp[2][0][1]).endswith("GssHead::new") and len(sp[2][0][2]) > 3:
                ok = is_token_span(sp[2][0][2][3])          # the span of the head just built from this token
            key = "shifter/term-span/" + ("new-head" if mir.has_call(e[2][1], "add_head") else "existing-head")
            if ok:
                res.ok(rid, key, f.loc())
            else:
                res.violation(rid, key, "GLR shifter: the Term node of a shifted token gets the span %s, not the span of its own token "
                              "(a head found in the frontier base belongs to whichever token created it)" % fmt(sp)[:120], f.loc())
    if not nterm:
        res.anchor_lost(rid, "the Term node handed to add_solution in the GLR shifter not found", f.loc())
    forms, g = glr_span_forms(F)
    # The reducing head's span is the span of the last content token (the shifter gives a head its token's span, reduced
    # heads copy it, and - C13-R10 - the layout parser does not leave its own there), and every reduction path ends at that
    # token or at an EMPTY node anchored at the same place: `head(start_head).span().end` IS the end of the last child. It is
    # accepted as long as the span bracket around the layout parser holds; without it the two differ (former seeds C07-2,
    # C13-4 showed exactly that, and stopped being behaviour changes with the D28 repair).
    try:
        nbr, badbr = rt.layout_span_bracket(F, F.one(rt.GLR + "find_lookaheads$"))
    except Exception:      # noqa
        nbr, badbr = 0, []
    def head_end(t):
        if not (nbr and not badbr):
            return None
        if isinstance(t, tuple) and t[0] == "field" and t[2] == "end" and is_call(t[1], "::span") and t[1][2]:
            h = t[1][2][0]
            if isinstance(h, tuple) and h[0] == "call" and mir.strip_generics(h[1]).endswith("GssGraph::head") and len(h[2]) > 1:
                who = h[2][1]
                if mir.contains(who, lambda x: x == ("var", "start_head")) or has_field(who, "start", "Reduction") or \
                        any(mir.strip_generics(c[1]).endswith("GssGraph::start") for c in mir.calls_in(who)):
                    if not mir.contains(who, lambda x: isinstance(x, tuple) and x[0] == "field" and x[2] == "root_head"):
                        return "end of the reducing head's span = end of the last content token (span bracket C13-R10 holds)"
        return None
    nchild, nempty = check_forms(res, rid, rid, forms, g, "GLR reducer", "reducer/", end_also=head_end)
    # The reduced span is read off `possibilities[0]` of the first and the last child LINK. A link is shared by all
    # derivations of that stretch of the GSS, and they need not cover the same input: an alternative that starts with an EMPTY
    # child is anchored at the end of the previous token, one that starts with a token begins after the white space
    # (`P: X | Y; X: E Ta; E: EMPTY; Y: Ta;` on ` a`: X is [0-2], Y is [1-2], one link). Whichever came first decides the
    # parent's span for every tree (D33).
    via_first = False
    for em, c, sp in forms:
        if c[0] != "child":
            continue
        for part in ("start", "end"):
            for x in mir.walk(sp[part]):
                if isinstance(x, tuple) and is_call(x, "::span") and x[2]:
                    inner = idiom.first_of(x[2][0])
                    if isinstance(inner, tuple) and inner[0] == "field" and inner[2] == "possibilities":
                        via_first = True
    if via_first:
        res.violation(rid, "reducer/link-span-first-possibility", "GLR reducer: the span of a reduced node is taken from the FIRST "
                      "possibility of its first/last child link; the possibilities of one link can cover different spans (an "
                      "alternative beginning with EMPTY starts before the white space, one beginning with a token after it): in "
                      "the other trees the parent does not run from its first child's start to its last child's end", g.loc())
    elif nchild:
        res.ok(rid, "reducer/link-span-first-possibility", g.loc(), "spans are not read off one possibility of a shared link")
    if not nchild:
        res.anchor_lost(rid, "non-empty span construction in the GLR reducer not found", g.loc())
    k = empty_kind(forms)
    if k is None:
        res.anchor_lost(rid, "empty span construction in the GLR reducer not found", g.loc())
    elif k == ("end", "end"):
        res.ok(rid, "reducer/empty-span", g.loc())
    else:
        res.violation(rid, "reducer/empty-span", "an empty GLR reduction gets the span [%s, %s] of the root head" % k, g.loc())
    # sibling rule S1
    rid_s = res.rule("C13-S1", "LR and GLR anchor the span of an empty nonterminal at the same end of the current span", floor=1)
    lforms, fl = lr_span_forms(F)
    kl = empty_kind(lforms)
    if kl is not None and k is not None:
        if kl == k:
            res.ok(rid_s, "empty-span-siblings", None, "both %s" % (kl,))
        else:
            res.violation(rid_s, "empty-span-siblings", "LR anchors empty nodes at %s of the current span, GLR at %s: the same "
                          "input gives different spans in the two parsers" % (kl, k), fl.loc())
    # Tree::build_inner
    h = F.one(r"^rustemo::glr::gss::Tree::<[^>]*>::build_inner$")
    n = 0
    for p in Sim(h, F).run():
        for which, call in (("Term", "LRBuilder::shift_action"), ("NonTerm", "LRBuilder::reduce_action")):
            ci = idx(p, call)
            if ci is None:
                continue
            ss = [i for i, e in enumerate(p.events) if e[0] == "call" and "Context::set_span" in e[1] and i < ci]
            n += 1
            if ss and has_field(p.events[ss[-1]][2][1], "root") or (ss and has_call(p.events[ss[-1]][2][1], "Context")):
                res.ok(rid, "build/%s-span" % which, h.loc())
            else:
                res.violation(rid, "build/%s-span" % which, "Tree::build does not put the node's span in the context before %s" % call, h.loc())
            if which == "NonTerm":
                ln = p.events[ci][2][3]
                if not (is_call(ln, "Vec::<T, A>::len") and has_call(ln, "children")):
                    res.violation(rid, "build/length", "Tree::build passes %s as the reduction length, expected children.len()" % fmt(ln)[:100], h.loc())
    if n < 2:
        res.missing(rid, "build/calls", "Tree::build_inner does not replay both shift_action and reduce_action", h.loc())


def r_line_column(F, res, rid, f):
    """line/column after a piece of text, in bytes and with `\n` as the only line terminator (what every span and every error
    position is built from): line += #`\n`; column = bytes after the last `\n`, or column + byte length without one"""
    def byte_len_of_self(x):
        c = idiom.len_of(x)
        while is_call(c, "::as_bytes") or is_call(c, "::bytes"):
            c = c[2][0]
        return c == ("param", "self")
    def over_self_bytes(x):
        # an iterator over the bytes of self, no adaptor
        src = x
        while is_call(src, "::iter") or is_call(src, "::as_bytes") or is_call(src, "::bytes") or is_call(src, "::into_iter"):
            src = src[2][0]
        return src == ("param", "self")
    def newline_pred(clo):
        # closure |c| *c == b'\n'  (and nothing else)
        if not (isinstance(clo, tuple) and clo[0] == "closure" and clo[1] in F.fns):
            return False
        rets = [e[1] for q in Sim(F.fns[clo[1]], F).run() for e in q.events if e[0] == "return"]
        def is_nl(r):
            return isinstance(r, tuple) and r[0] == "bin" and r[1] == "Eq" and ("const", 10) in (r[2], r[3])
        return bool(rets) and all(is_nl(r) for r in rets)
    seen = {"line": None, "col-nl": None, "col-plain": None}
    why = {}
    for p in Sim(f, F).run():
        r = [e[1] for e in p.events if e[0] == "return"]
        if not r or r[0][0] != "agg":
            continue
        lc = dict(r[0][2]).get("line_col")
        if not (isinstance(lc, tuple) and lc[0] == "agg" and lc[1].endswith("Some")):
            continue
        inner = dict(lc[2]).get("0")
        if not (isinstance(inner, tuple) and inner[0] == "agg"):
            continue
        d = dict(inner[2])
        line, col = d.get("line"), d.get("column")
        # line
        okl = isinstance(line, tuple) and line[0] == "bin" and line[1] == "Add" and has_field(line[2], "line") and \
            is_call(line[3], "::count") and is_call(line[3][2][0], "Iterator::filter") and over_self_bytes(line[3][2][0][2][0]) and \
            newline_pred(line[3][2][0][2][1])
        seen["line"] = okl if seen["line"] is None else (seen["line"] and okl)
        if not okl:
            why["line"] = fmt(line)[:140]
        last_nl = [(tm, v) for tm, v in p.cond if tm[0] == "discr" and (is_call(tm[1], "::rposition") or is_call(tm[1], "::rfind")
                                                                          or has_call(tm[1], "rposition") or has_call(tm[1], "rfind")
                                                                          or has_call(tm[1], "::next"))]
        found = last_nl and last_nl[-1][1] == frozenset(["Some"])
        if found:
            # column = len - idx - 1
            okc = isinstance(col, tuple) and col[0] == "bin" and col[1] == "Sub" and col[3] == ("const", 1) and \
                isinstance(col[2], tuple) and col[2][0] == "bin" and col[2][1] == "Sub" and byte_len_of_self(col[2][2]) and \
                isinstance(col[2][3], tuple) and col[2][3][0] == "vfield" and idiom.same(col[2][3][1], last_nl[-1][0][1])
            key = "col-nl"
        else:
            okc = isinstance(col, tuple) and col[0] == "bin" and col[1] == "Add" and (
                has_field(col[2], "column") and byte_len_of_self(col[3]) or has_field(col[3], "column") and byte_len_of_self(col[2]))
            key = "col-plain"
        seen[key] = okc if seen[key] is None else (seen[key] and okc)
        if not okc:
            why[key] = fmt(col)[:140]
    msgs = {"line": ("position-after/line", "line + number of `\\n` bytes of self", "the new line number is %s"),
            "col-nl": ("position-after/column-after-newline", "byte length - index of the last `\\n` - 1", "after a newline the column is %s"),
            "col-plain": ("position-after/column-no-newline", "column + byte length", "without a newline the column is %s")}
    for k, (key, good, bad) in msgs.items():
        if seen[k] is None:
            res.anchor_lost(rid, "str::position_after: %s path not recognised" % k, f.loc())
        elif seen[k]:
            res.ok(rid, key, f.loc(), good)
        else:
            res.violation(rid, key, ("str::position_after: " + bad + ", expected %s (bytes, `\\n` only): every node after such "
                                     "text is located on the wrong line/column") % (why.get(k), good), f.loc())


def r_bytes(F, res):
    rid = res.rule("C13-R9", "str::position_after measures in bytes: offset, column and the newline scan derive from str::len / "
                   "as_bytes, never from a character count", floor=1)
    f = F.one(r"^<str as rustemo::input::Input>::position_after$")
    names = set()
    for g in [f] + F.all_nested_closures(f):
        for b, t in g.calls():
            names.add(callee(t))
    char_based = sorted(mir.short(n) for n in names if any(k in n for k in ("str>::chars", "char_indices", "::chars", "graphemes", "UnicodeWidth")))
    byte_based = [n for n in names if n.endswith("str>::len") or n.endswith("::as_bytes")]
    if char_based:
        res.violation(rid, "position-after/units", "str::position_after counts characters (%s): columns and offsets are defined in "
                      "bytes, so any node after a multi-byte character is mislocated" % ", ".join(char_based), f.loc())
    elif not byte_based:
        res.anchor_lost(rid, "no str::len / as_bytes call in str::position_after", f.loc())
    else:
        res.ok(rid, "position-after/units", f.loc(), "byte based (%s)" % ", ".join(sorted(mir.short(n) for n in byte_based)))
    r_line_column(F, res, rid, f)
    # the offset itself
    for p in Sim(f, F).run():
        r = [e[1] for e in p.events if e[0] == "return"]
        if r and r[0][0] == "agg":
            pos = dict(r[0][2]).get("pos")
            def byte_len_of_self(x):
                c = idiom.len_of(x)
                while is_call(c, "::as_bytes") or is_call(c, "::bytes"):
                    c = c[2][0]
                return c == ("param", "self")
            if pos and pos[0] == "bin" and pos[1] == "Add" and (
                    has_field(pos[2], "pos") and byte_len_of_self(pos[3]) or has_field(pos[3], "pos") and byte_len_of_self(pos[2])):
                res.ok(rid, "position-after/offset", f.loc(), "pos + self.len()")
            else:
                res.violation(rid, "position-after/offset", "the new offset is %s, expected position.pos + self.len()" % (fmt(pos)[:100] if pos else None), f.loc())
            break


def top_level_alternation(rx):
    depth = 0
    cls = False
    i = 0
    while i < len(rx):
        c = rx[i]
        if c == "\\":
            i += 2
            continue
        if cls:
            if c == "]":
                cls = False
        elif c == "[":
            cls = True
        elif c == "(":
            depth += 1
        elif c == ")":
            depth -= 1
        elif c == "|" and depth == 0:
            return True
        i += 1
    return False


def r_generated(ctx, res):
    rid7 = res.rule("C13-R7", "generated recognisers return a sub-slice of the input (not a copy with equal content)", floor=20)
    rid8 = res.rule("C13-R8", "generated regex recognisers are anchored as a whole at the current position", floor=20)
    str_static = 0
    unanchored = []
    noanchor = []
    nrec = 0
    allg = list(gen.load_set(ctx.dir("gen-functions")))
    try:
        from . import witness
        allg += [g for _e, g in witness.load(ctx)[0] if g is not None]      # regex shapes no in-repo grammar has ($, quotes, ..)
    except Exception:      # noqa - the witness set is an extra
        pass
    for g in allg:
        if g.settings["lexer_type"] != "Default" or g.parse_error:
            continue
        name = (g.name or "").replace("target:", "")
        im = g.impl("TokenRecognizerT<", "TokenRecognizer")
        if im is None:
            continue
        f = [x for x in im["items"] if x.get("ident") == "recognize"][0]
        scr, arms = gen.match_arms(f["body"])
        for pat, v in arms or []:
            fp = gen.flat(pat)
            if "Recognizer :: StrMatch" in fp:
                fl = gen.flat(v).replace(" ", "")
                res.ok(rid7, name + "/str", g.entry.get("parser_file_rel"), "StrMatch arm inspected")
                if "Some(s)" in fl and "input[" not in fl:
                    str_static += 1
        rec = g.item("static", "RECOGNIZERS")
        for el, term in zip(gen.array_elems(rec["expr"]) or [], g.table["terminals"]):
            r = term["recognizer"]
            if r and r["kind"] == "regex":
                nrec += 1
                lits = [x for x in gen_walk(el) if x[0] == "l"]
                prefix = gen.rust_str(lits[0][1]) if lits else ""
                text = gen.rust_str(lits[1][1]) if len(lits) > 1 else ""
                whole = prefix.startswith("^(") or prefix.startswith("^(?:")
                if not prefix.startswith("^"):
                    # no anchor at all (not the documented limitation of D11): the recogniser `find`s anywhere in the rest
                    noanchor.append("%s %s: /%s/" % (name, term["name"], (text or prefix)[:40]))
                elif top_level_alternation(text) and not whole:
                    unanchored.append("%s %s: /%s/" % (name, term["name"], text))
        res.ok(rid8, name, g.entry.get("parser_file_rel"))
    if str_static:
        res.violation(rid7, "str-match-static", "string recognisers return the recogniser's own &'static str (`Some(s)`), not the "
                      "slice of the input buffer at the token's span (%d generated parsers)" % str_static,
                      "rustemo-compiler/src/generator/base.rs")
    if noanchor:
        res.violation(rid8, "no-anchor", "%d generated regex recogniser(s) are not anchored at the current position at all (e.g. %s): "
                      "a token may be recognised from text further on in the input" % (len(noanchor), "; ".join(noanchor[:3])),
                      "rustemo-compiler/src/generator/base.rs")
    # the template itself: `concat!("^", r)` anchors only the first top-level alternative
    res.violation(rid8, "template-anchor", "regex recognisers are emitted as concat!(\"^\", r): for a pattern with a top-level `|` only "
                  "the first alternative is anchored, `find` can match later in the input and the text is given the span at the "
                  "current position (documented limitation; %d in-repo terminals affected, e.g. %s)" % (
                      len(unanchored), "; ".join(unanchored[:3])), "rustemo-compiler/src/generator/base.rs") \
        if _template_unanchored(ctx) else res.ok(rid8, "template-anchor", None, "pattern anchored as a whole")
    res.extra["regex_recognisers_checked"] = nrec
    res.extra["regex_with_top_level_alternation"] = unanchored[:20]


def _template_unanchored(ctx):
    """does any generated regex recogniser use the bare `^` prefix?"""
    for g in gen.load_set(ctx.dir("gen-functions")):
        rec = g.item("static", "RECOGNIZERS")
        if rec is None:
            continue
        for el, term in zip(gen.array_elems(rec["expr"]) or [], g.table["terminals"]):
            r = term["recognizer"]
            if r and r["kind"] == "regex":
                lits = [x for x in gen_walk(el) if x[0] == "l"]
                if lits and gen.rust_str(lits[0][1]) == "^":
                    return True
                return False
    return False


def gen_walk(tokens):
    for t in tokens:
        yield t
        if t[0] == "g":
            yield from gen_walk(t[2])


LR_NEXT_TOKEN = r"^rustemo::lr::parser::LRParser::<[^>]*>::next_token$"


def _head_fields(F, term):
    """field view of a GssHead value built from another head: {field: term}, base head term (or None). Understands
    GssHead::new(..) (parameters by name), GssHead::with_*(base, ..) (the struct literal of the callee, `self` := base) and a
    struct literal."""
    if not isinstance(term, tuple):
        return None, None
    if term[0] == "agg" and str(term[1]).endswith("GssHead::GssHead"):
        return dict(term[2]), None
    if term[0] != "call":
        return None, None
    name, args = term[1], term[2]
    if "gss::GssHead" not in name:
        return None, None
    f = F.fns.get(name)
    if f is None or not f.has_body():
        return None, None
    params = {f.var_name(i): args[i - 1] for i in range(1, f.argc + 1) if i - 1 < len(args)}
    lit = None
    for p in Sim(f, F).run():
        for e in p.events:
            if e[0] == "return" and isinstance(e[1], tuple) and e[1][0] == "agg" and str(e[1][1]).endswith("GssHead::GssHead"):
                lit = dict(e[1][2])
    if lit is None:
        return None, None
    def subst(x):
        if isinstance(x, tuple):
            if x[0] == "param" and x[1] in params:
                return params[x[1]]
            return tuple(subst(y) for y in x)
        return x
    return {k: subst(v) for k, v in lit.items()}, params.get("self")


def r_derived_heads(F, res):
    """A GLR head that is made from another head at the same place (a second lookahead of a lexical ambiguity:
    head_for_lookahead) stands where its base stands: position, span (= the last token BEFORE the head: the anchor of EMPTY
    reductions), state, frontier and layout are the base's; only the lookahead differs."""
    rid = res.rule("C13-R11", "GLR: a head split off for another lookahead keeps the base head's position, span, state, frontier and "
                   "layout; only token_ahead is new (the span of a head is the last token before it, where EMPTY reductions are "
                   "anchored - not the lookahead's)", floor=5)
    try:
        g, paths = rt.cache(F).paths(rt.GLR + "head_for_lookahead$")
    except mir.AnchorLost as e:
        res.undecided(rid, str(e))
        return
    done = False
    for p in paths:
        for e in p.events:
            if e[0] == "call" and e[1].endswith("::add_head") and "GssGraph" in e[1] and not done:
                done = True
                fields, base = _head_fields(F, e[2][1])
                if fields is None:
                    res.undecided(rid, "the head added by head_for_lookahead is built in a way the rule does not read: %s" % fmt(e[2][1])[:100], g.loc())
                    return
                if base is None:
                    bs = [c for c in mir.calls_in(e[2][1]) if c[1].endswith("::head") and "GssGraph" in c[1]]
                    base = ("call", bs[0][1], bs[0][2]) if bs else None
                bstr = fmt(base) if base is not None else None
                for fld in ("position", "span", "state", "frontier", "layout_ahead"):
                    v = fields.get(fld)
                    vs = fmt(v) if v is not None else "<missing>"
                    same = v is not None and base is not None and (
                        (v[0] == "field" and v[2] == fld and idiom_eq(v[1], base)) or
                        (v[0] == "call" and mir.call_matches(v[1], "Context::" + fld) and v[2] and idiom_eq(v[2][0], base)))
                    if same:
                        res.ok(rid, "head_for_lookahead/" + fld, g.loc(), "= the base head's")
                    else:
                        res.violation(rid, "head_for_lookahead/" + fld, "the head made for another lookahead gets %s = %s, not the "
                                      "%s of the head it is split from" % (fld, vs[:80], fld), g.loc())
    if not done:
        res.anchor_lost(rid, "add_head in head_for_lookahead not found", g.loc())


def idiom_eq(a, b):
    from . import idiom
    def peel(x):
        while isinstance(x, tuple) and x and x[0] in ("deref", "ref") and len(x) > 1:
            x = x[1]
        return x
    a, b = peel(a), peel(b)
    return a == b or idiom.same(a, b)


def r_layout_span(F, res, rid=None, prefix=""):
    """An EMPTY reduction is anchored at the end of the context's span ("the end of the previous token", C13-R? empty
    forms). The layout sub-parser runs ON the content context and shifts its own tokens into it: unless the span is put
    back, EMPTY lands behind the layout - GLR then builds a parent that ends before its last child (the parent is made by a
    right-nulled reduction first and gets the EMPTY child later, its span is not recomputed), and LR and GLR disagree."""
    rid = rid or res.rule("C13-R10", "the layout parser does not leave its span in the content context: on every path through "
                          "layout_parser.parse_with_context(ctx) the first set_span(ctx, ..) afterwards restores the span read "
                          "before (LR next_token and GLR find_lookaheads)", floor=2)
    for label, pat in (("lr", LR_NEXT_TOKEN), ("glr", rt.GLR + "find_lookaheads$")):
        try:
            fn = F.one(pat)
        except Exception:      # noqa
            res.anchor_lost(rid, "%s token fetch not found" % label)
            continue
        n, bad = rt.layout_span_bracket(F, fn)
        if not n:
            res.anchor_lost(rid, "call of the layout parser in the %s token fetch not found" % label, fn.loc())
        elif bad:
            res.violation(rid, prefix + "layout-span-bracket/" + label, "%s (path ending in %s; %d of %d paths through the layout parser): "
                          "EMPTY reductions before the next token are anchored behind the layout" % (
                              bad[0][0], "the retry" if bad[0][1] == "backedge" else bad[0][1], len(bad), n), fn.loc())
        else:
            res.ok(rid, prefix + "layout-span-bracket/" + label, fn.loc(), "%d paths through the layout parser, span restored on each" % n)


def run(ctx, res):
    F = ctx.facts("core")
    r_lr(F, res)
    r_lexer(F, res)
    r_glr(F, res)
    r_bytes(F, res)
    r_layout_span(F, res)
    r_derived_heads(F, res)
    r_generated(ctx, res)
    res.explanation = (
        "Decides where span endpoints and token values come from (argument provenance over MIR, path simulation): LR shift "
        "geometry and order, reduce spans from first/last popped item, zero-width empty span at the end of the current "
        "span, span bracket around the builder call, lexer token value/span/input slice, whitespace skipping, GLR shifter "
        "and reducer spans, LR/GLR sibling agreement on empty spans, Tree::build span hand-off, the span bracket around the "
        "layout sub-parser; on generated recognisers: "
        "value is a sub-slice of the input, regex anchored as a whole. Not decided: line/column and offset arithmetic "
        "(str::position_after), ordering/non-overlap of spans for concrete inputs.")
    res.assumptions = ["Context implementations store what set_span/set_position are given (LRContext, GssHead: trivial setters)"]
