"""C06 - lexical ambiguity is resolved in the documented order of strategies."""
from . import mir, rt
from .mir import Sim, TermBuilder, callee, fmt, has_call, has_field
from .rt import is_call, calls, idx

LEVEL = "other"
ST = r"^rustemo_compiler::table::LRTable::<'g, 's>::sort_terminals"


def closure_named(F, parent, pred):
    for cl in F.all_nested_closures(parent):
        if pred(cl):
            return cl
    return None


def r7_length_bonus(F, res):
    """`highest terminal priority first, THEN the longest string recogniser`: a lexicographic order. The sort key is
    `prio * 1000 + len(string)`: a string terminal of 1000+ bytes outranks the next priority (D-explore, contrived)."""
    rid = res.rule("C06-R7", "terminal order key: priority strictly before recogniser length (lexicographic, not prio*K + len with an "
                   "unbounded len)", floor=1)
    try:
        f = F.one(r"^rustemo_compiler::table::LRTable::<'g, 's>::sort_terminals$")
    except Exception:      # noqa
        res.anchor_lost(rid, "LRTable::sort_terminals not found")
        return
    packed = None
    for h in [f] + F.all_nested_closures(f):
        for q in Sim(h, F, max_paths=20000).run():
            for e in q.events:
                if e[0] != "return" or not isinstance(e[1], tuple):
                    continue
                for x in mir.walk(e[1]):
                    if isinstance(x, tuple) and x[0] == "bin" and x[1] in ("Add", "AddWithOverflow", "AddUnchecked"):
                        l, r = x[2], x[3]
                        def scaled(t):
                            return any(isinstance(y, tuple) and y[0] == "bin" and y[1].startswith("Mul") and mir.has_field(y, "prio") for y in mir.walk(t))
                        def length(t):
                            return mir.has_call(t, "::len")
                        if (scaled(l) and length(r)) or (scaled(r) and length(l)):
                            packed = h
    if packed is not None:
        res.violation(rid, "length-bonus-unbounded", "the terminal sort key is `prio * 1000 + string length`: the length bonus is not "
                      "bounded by the scale, a string terminal of 1001 bytes at priority 10 sorts before a terminal of priority 11",
                      packed.loc())
    else:
        res.ok(rid, "length-bonus-unbounded", f.loc(), "no packed priority/length key")


def run(ctx, res):
    F = ctx.facts("core")
    r7_length_bonus(F, res)
    f = F.one(ST + "$")
    rid1 = res.rule("C06-R1", "try order: candidates are the terminals with a non-empty action cell; stable sort, descending, by "
                    "prio*1000 + (string length iff most-specific and string recogniser)", floor=4)
    # (a) candidate filter
    cls = F.all_nested_closures(f)
    sort_call = None
    tb = TermBuilder(f, F)
    for b, t in f.calls():
        c = callee(t)
        if "slice::<impl [T]>::sort" in c or c.endswith("::sort_by") or c.endswith("::sort_unstable_by") or "sort" in c.rsplit("::", 1)[-1]:
            sort_call = (c, t)
    if sort_call is None:
        res.anchor_lost(rid1, "sort call in sort_terminals not found", f.loc())
    else:
        c, t = sort_call
        m = c.rsplit("::", 1)[-1]
        if m in ("sort_by", "sort_by_key", "sort", "sort_by_cached_key"):
            res.ok(rid1, "stable-sort", "%s:%s" % (f.file, t["line"]), m)
        else:
            res.violation(rid1, "stable-sort", "terminals are sorted with %s: terminals with equal keys (same priority regexes) lose "
                          "their grammar order" % m, "%s:%s" % (f.file, t["line"]))
        # comparator: cmp(key(r), key(l))
        cmpc = t["args"][1] if len(t["args"]) > 1 else None
        ct = tb.operand(cmpc) if cmpc else None
        by_key = m in ("sort_by_key", "sort_by_cached_key")
        if ct and ct[0] == "closure" and by_key:
            # sort_by_key(|t| Reverse(key(t))): descending iff the key is wrapped in cmp::Reverse
            g = F.fn(ct[1])
            rets = [e[1] for p in Sim(g, F).run() for e in p.events if e[0] == "return"]
            if rets and all(isinstance(r, tuple) and r[0] == "agg" and r[1].endswith("Reverse::Reverse") for r in rets):
                res.ok(rid1, "descending", g.loc(), "sort_by_key(Reverse(key))")
            elif rets:
                res.violation(rid1, "descending", "terminals are sorted by an ascending key (%s): they are not tried in descending "
                              "priority order" % fmt(rets[0])[:80], g.loc())
        elif ct and ct[0] == "closure":
            g = F.fn(ct[1])
            for p in Sim(g, F).run():
                r = [e[1] for e in p.events if e[0] == "return"]
                if r and is_call(r[0], "::cmp"):
                    a, b2 = r[0][2][0], r[0][2][1]
                    def pos(x):
                        out = set()
                        for y in mir.walk(x):
                            if isinstance(y, tuple) and y[0] == "param":
                                nm = y[1]
                                if nm.startswith("arg") and nm[3:].isdigit():
                                    out.add(int(nm[3:]))
                                else:
                                    for v in g.d.get("vars", []):
                                        if v["name"] == nm and v.get("arg"):
                                            out.add(v["arg"])
                        return out
                    pa, pb = pos(a), pos(b2)
                    keyfn_a = [c2[1] for c2 in mir.calls_in(a)]
                    keyfn_b = [c2[1] for c2 in mir.calls_in(b2)]
                    same_key = keyfn_a[:1] == keyfn_b[:1] and keyfn_a
                    if len(pa) == 1 and len(pb) == 1 and min(pa) > min(pb) and same_key:
                        res.ok(rid1, "descending", g.loc(), "cmp(key(second), key(first))")
                    else:
                        res.violation(rid1, "descending", "the sort comparator computes cmp(key(param %s), key(param %s)): terminals are not "
                                      "tried in descending priority order" % (sorted(pa), sorted(pb)), g.loc())
                break
    # candidate set: filter(!is_empty) over state.actions
    cand = closure_named(F, f, lambda cl: any(callee(t).endswith("Vec::<T, A>::is_empty") for _, t in cl.calls()) and cl.argc == 2)
    okc = False
    for cl in cls:
        ps = Sim(cl, F).run()
        for p in ps:
            r = [e[1] for e in p.events if e[0] == "return"]
            if r and r[0][0] == "un" and r[0][1] == "Not" and is_call(r[0][2], "Vec::<T, A>::is_empty"):
                okc = True
    if okc:
        res.ok(rid1, "candidates", f.loc(), "filter(|(_, actions)| !actions.is_empty())")
    else:
        res.violation(rid1, "candidates", "the candidate terminals of a state are not exactly those with a non-empty action cell", f.loc())
    # key table
    keycl = closure_named(F, f, lambda cl: any(callee(t).endswith("str>::len") or "len" == callee(t).rsplit("::", 1)[-1] for _, t in cl.calls())
                          and any("prio" in str(s) for _, _, s in cl.stmts()))
    if keycl is None:
        res.anchor_lost(rid1, "priority key closure not found", f.loc())
    else:
        rows = set()
        # the closure is read in the vocabulary of sort_terminals (a captured `most_specific` local is the setting it copies)
        from . import census
        cc = census.closure_context(F, keycl)
        for p in Sim(keycl, F, upvars=cc[2] if cc else None).run():
            ms = [v for t, v in p.cond if mir.contains(t, lambda x: isinstance(x, tuple) and x[0] == "field" and x[2] == "lexical_disamb_most_specific")
                  and t[0] in ("field", "var", "upvar", "param")]
            rk = [rt.val(v) for t, v in p.cond if t[0] == "discr" and isinstance(t[1], tuple) and t[1][0] == "vfield" and has_field(t[1], "recognizer")]
            rs = [rt.val(v) for t, v in p.cond if t[0] == "discr" and isinstance(t[1], tuple) and t[1][0] == "field" and t[1][2] == "recognizer"]
            r = [e[1] for e in p.events if e[0] == "return"]
            if not r:
                continue
            k = r[0]
            if isinstance(k, tuple) and k[0] == "agg" and k[1].endswith("Reverse::Reverse"):
                k = dict(k[2]).get("0", k)
            shape = None
            if k[0] == "bin" and k[1] == "Add" and k[2][0] == "bin" and k[2][1] == "Mul" and has_field(k[2][2], "prio", "Terminal") \
                    and k[2][3][0] == "const" and isinstance(k[2][3][1], int) and k[2][3][1] >= 1000:
                extra = k[3]
                while isinstance(extra, tuple) and extra[0] == "cast":
                    extra = extra[1]
                shape = "len" if has_call(extra, "len") else ("0" if extra == ("const", 0) else "?" + fmt(extra)[:40])
            else:
                shape = "?" + fmt(k)[:60]
            rows.add((ms[0] if ms else None, rs[0] if rs else None, rk[0] if rk else None, shape))
        # every situation (most_specific, recogniser present, its kind) must be answered by the documented key
        bad, unknown = [], not rows or any(r[3].startswith("?") for r in rows)
        for msv in (0, 1):
            for rsv, rkv in (("None", None), ("Some", "RegexTerm"), ("Some", "StrConst")):
                got = {r[3] for r in rows if r[0] in (None, msv) and r[1] in (None, rsv) and (r[2] in (None, rkv) or rsv == "None")}
                want = "len" if (msv == 1 and rkv == "StrConst") else "0"
                if not got:
                    unknown = True
                elif got != {want}:
                    bad.append(((msv, rsv, rkv), sorted(got), want))
        if unknown:
            res.anchor_lost(rid1, "sort key not recognised as prio*1000 + extra (%s)" % sorted(rows, key=str)[:3], keycl.loc())
        elif not bad:
            res.ok(rid1, "key-table", keycl.loc(), "prio*1000 + (most_specific && StrConst ? len : 0)")
        else:
            res.violation(rid1, "key-table", "sort key: for (most_specific, recogniser, kind) = %s the extra term is %s, documented %s" % bad[0], keycl.loc())
    # R2 finish flags
    rid2 = res.rule("C06-R2", "finish flags: own flag = most_specific && string recogniser; the previous terminal's flag is raised when "
                    "the priority changes", floor=2)
    # loop body of the finish computation: find the loop containing the push of (idx, finish)
    hdr = None
    for b, t in f.calls():
        if callee(t).endswith("Vec::<T, A>::push"):
            a = tb.operand(t["args"][1])
            if a[0] == "agg" and a[1] == "tuple":
                lp = None
                for (_, h) in f.back_edges():
                    body = f.loop_blocks(h)
                    if b in body and (lp is None or len(body) < len(lp[1])):
                        lp = (h, body)
                hdr = lp[0] if lp else None
    if hdr is None:
        res.anchor_lost(rid2, "push of (terminal, finish) not found in sort_terminals", f.loc())
    else:
        rows = set()
        for p in Sim(f, F).run(entry=hdr):
            if p.end != "backedge":
                continue
            ms = [v for t, v in p.cond if t[0] == "field" and t[2] == "lexical_disamb_most_specific"]
            kinds = [rt.val(v) for t, v in p.cond if t[0] == "discr" and has_field(t[1], "recognizer")]
            pushes = [e for e in p.events if e[0] == "call" and e[1].endswith("Vec::<T, A>::push")]
            fin = None
            for e in pushes:
                a = e[2][1]
                if a[0] == "agg" and a[1] == "tuple":
                    fin = fmt(dict(a[2])["1"])
            isstr = "StrConst" in kinds and "None" not in kinds
            rows.add((ms[0] if ms else None, isstr, fin))
        okrows = all((fin == "1") == (ms == 1 and isstr) for ms, isstr, fin in rows if fin in ("0", "1"))
        if rows and okrows and any(fin == "1" for _, _, fin in rows):
            res.ok(rid2, "own-flag", f.loc(), "finish = most_specific && StrConst")
        else:
            res.violation(rid2, "own-flag", "own finish flag table is %s, expected most_specific && string recogniser" % sorted(rows, key=str), f.loc())
        # previous flag |= priority changed
        pc = closure_named(F, f, lambda cl: any(e for _, _, e in cl.stmts() if e["rv"]["k"] == "bin" and e["rv"]["op"] == "Ne"))
        orr = any(s["rv"]["k"] == "bin" and s["rv"]["op"] == "BitOr" for _, _, s in f.stmts())
        lastmut = any(callee(t).endswith("::last_mut") for _, t in f.calls())
        # on every path of the loop body the previous terminal's flag is OR-ed with `priority changed` itself: not with a value
        # that some setting can force to false (the group cut applies with and without most-specific matching)
        ored = set()
        for p in Sim(f, F).run(entry=hdr):
            if p.end != "backedge":
                continue
            for e in p.events:
                if e[0] in ("store", "set") and isinstance(e[2], tuple) and e[2][0] == "bin" and e[2][1] == "BitOr":
                    x = e[2][3]
                    ored.add("changed" if (is_call(x, "is_some_and") or is_call(x, "::ne") or (isinstance(x, tuple) and x[0] == "bin" and x[1] == "Ne")
                                            or mir.contains(x, lambda y: is_call(y, "is_some_and"))) else fmt(x)[:40])
        if pc is not None and orr and lastmut and ored and ored != {"changed"}:
            res.violation(rid2, "group-end-flag", "the end of a priority group is flagged with %s on some path of the loop (expected: "
                          "priority changed, unconditionally): with that setting a lower-priority terminal is tried although a "
                          "higher-priority one matched" % sorted(ored - {"changed"}), f.loc())
        elif pc is not None and orr and lastmut:
            res.ok(rid2, "group-end-flag", f.loc(), "last_mut().1 |= (terminal.prio != last_prio)")
        else:
            res.violation(rid2, "group-end-flag", "the end of a priority group is not flagged on the previous terminal (Ne closure: %s, "
                          "|=: %s, last_mut: %s)" % (pc is not None, orr, lastmut), f.loc())
    # R3 lexer stop rule
    rid3 = res.rule("C06-R3", "TokenIterator::next: stop iff finish or exhausted; finish := flag of the terminal that matched; one try "
                    "per call of the loop body", floor=1)
    g = F.one(r"^<rustemo::lexer::TokenIterator<.*> as core::iter::traits::iterator::Iterator>::next$")
    rows = set()
    for p in Sim(g, F).run():
        fi = [v for t, v in p.cond if t[0] == "field" and t[2] == "finish"]
        lt = [v for t, v in p.cond if t[0] == "bin" and t[1] == "Lt" and has_field(t[2], "index")]
        rec = [rt.val(v) for t, v in p.cond if t[0] == "discr" and is_call(t[1], "TokenRecognizer::recognize")]
        stf = [e for e in p.events if e[0] == "store" and isinstance(e[1], tuple) and e[1][0] == "field" and e[1][2] == "finish"]
        sti = [e for e in p.events if e[0] == "store" and isinstance(e[1], tuple) and e[1][0] == "field" and e[1][2] == "index"]
        r = [e[1] for e in p.events if e[0] == "return"]
        out = "return-none" if r and r[0][0] == "agg" and r[0][1].endswith("None") else "return-token" if r else p.end
        rows.add((fi[0] if fi else None, lt[0] if lt else None, rec[0] if rec else None, out, bool(stf), bool(sti)))
        if stf:
            v = stf[-1][2]
            if not (has_field(v, "token_recognizers", "TokenIterator") and not (v[0] == "const")):
                res.violation(rid3, "finish-source", "finish is set to %s, expected the flag of the matched terminal's tuple" % fmt(v)[:80], g.loc())
    exp = {(1, None, None, "return-none", False, False), (0, 0, None, "return-none", False, False),
           (0, 1, "Some", "return-token", True, True), (0, 1, "None", "backedge", False, True)}
    if rows == exp:
        res.ok(rid3, "stop-table", g.loc(), "4 rows as documented")
    else:
        res.violation(rid3, "stop-table", "TokenIterator::next table is %s, documented %s" % (sorted(rows, key=str), sorted(exp, key=str)), g.loc())
    # R3b priority group cut (known finding)
    rid3b = res.rule("C06-R3b", "a first match in a priority group restricts further matches to that group", floor=1)
    # group ends are only marked on the last terminal of a group and the iterator only stops on a *matched* flagged terminal
    res.violation(rid3b, "priority-group-cut", "the end of a priority group is marked only on the group's last terminal and the lexer stops "
                  "only when a *matching* terminal carries the flag: if the last terminal of the higher group does not match, "
                  "lower-priority terminals are still tried and can win by longest match (D8)", g.loc()) \
        if (0, 1, "None", "backedge", False, True) in rows else res.ok(rid3b, "priority-group-cut", g.loc())
    # R4 parser-side filters
    rid4 = res.rule("C06-R4", "parser-side filters: LR takes the first of the longest tokens (all tokens when longest match is off: "
                    "first by order); GLR retains the longest and then truncates to one iff grammar_order; same retain predicate", floor=3)
    fl, paths = rt.cache(F).paths(rt.LR_NEXT)
    lm1 = [p for p in paths if any(is_call(t, "ParserDefinition::longest_match") and v == 1 for t, v in p.cond)
           and any(t[0] == "bin" and t[1] == "Gt" and has_call(t[2], "Vec::<T, A>::len") and v == 1 for t, v in p.cond)]
    okl = False
    for p in lm1:
        ret = calls(p, "Vec::<T, A>::retain")
        mx = calls(p, "Iterator::max_by_key")
        nxt = [e for e in p.events if e[0] == "call" and e[1].endswith("Iterator>::next") and has_call(e[2][0], "into_iter") is not None]
        r = [e[1] for e in p.events if e[0] == "return"]
        if ret and mx and r and r[0][0] == "agg" and r[0][1].endswith("Ok"):
            tok = dict(r[0][2])["0"]
            # the returned token is next() of the into_iter of the retained vector
            if isinstance(tok, tuple) and tok[0] == "vfield" and is_call(tok[1], "Iterator>::next") and not has_call(tok, "max_by_key"):
                okl = True
            elif has_call(tok, "max_by_key") or has_call(tok, "::last") or has_call(tok, "rev"):
                res.violation(rid4, "lr/first-of-longest", "LR returns %s: among equally long tokens it is not the first in grammar order" % fmt(tok)[:120], fl.loc())
                okl = None
                break
    if okl:
        res.ok(rid4, "lr/first-of-longest", fl.loc(), "retain(len == longest) then first")
    elif okl is False:
        res.violation(rid4, "lr/first-of-longest", "LR longest-match filtering is not `retain the longest, take the first`", fl.loc())
    # retain predicate closures of LR and GLR: value.len() == longest_len
    def retain_pred(fnrx):
        h = F.one(fnrx)
        for cl in F.all_nested_closures(h):
            for p in Sim(cl, F).run():
                r = [e[1] for e in p.events if e[0] == "return"]
                if r and r[0][0] == "bin" and r[0][1] == "Eq" and has_call(r[0][2], "Input::len") and has_field(r[0][2], "value"):
                    return ("Eq", "token.value.len()", fmt(r[0][3])[:40]), cl
        return None, h
    pl, cl1 = retain_pred(rt.LR_NEXT)
    pg, cl2 = retain_pred(rt.GLR + "find_lookaheads$")
    if pl and pg and pl[:2] == pg[:2]:
        res.ok(rid4, "retain-predicate-siblings", cl1.loc(), "token.value.len() == longest_len in both parsers")
    else:
        res.violation(rid4, "retain-predicate-siblings", "LR and GLR filter ambiguous tokens differently (%s vs %s)" % (pl, pg), cl1.loc())
    fg, gpaths = rt.cache(F).paths(rt.GLR + "find_lookaheads$")
    rows = set()
    for p in gpaths:
        lm = [v for t, v in p.cond if is_call(t, "ParserDefinition::longest_match")]
        go = [v for t, v in p.cond if is_call(t, "ParserDefinition::grammar_order")]
        many = [v for t, v in p.cond if t[0] == "bin" and t[1] == "Gt" and has_call(t[2], "Vec::<T, A>::len") and t[3] == ("const", 1)]
        if not many or many[0] != 1:
            continue
        i_ret = idx(p, "Vec::<T, A>::retain")
        i_tr = idx(p, "Vec::<T, A>::truncate")
        rows.add((lm[0] if lm else None, go[0] if go else None, i_ret is not None, i_tr is not None,
                  (i_ret is None or i_tr is None or i_ret < i_tr)))
    exp = {(1, 1, True, True, True), (1, 0, True, False, True), (0, 1, False, True, True), (0, 0, False, False, True)}
    if rows == exp:
        res.ok(rid4, "glr/filter-table", fg.loc(), "retain iff longest_match, then truncate(1) iff grammar_order")
    else:
        res.violation(rid4, "glr/filter-table", "GLR lexical filter table is %s, documented %s" % (sorted(rows, key=str), sorted(exp, key=str)), fg.loc())
    # who may change the candidate tokens between the lexer and the parser: retain (longest match) and truncate (grammar
    # order) only - anything else that takes tokens out (dedup, remove, pop, drain, clear, sort, swap) drops or reorders
    # lexical alternatives the documented strategies would have kept
    rt.token_mutators(F, res, rid4)
    # R5 lexer maps expected kinds to recognisers in order
    rid5 = res.rule("C06-R5", "the lexer tries exactly the expected (kind, flag) pairs, in the given order, each with the recogniser of "
                    "its own kind", floor=1)
    h = F.one(r"^<rustemo::lexer::StringLexer<.*> as rustemo::lexer::Lexer<.*>>::next_tokens$")
    okm = False
    for cl in F.all_nested_closures(h):
        for p in Sim(cl, F).run():
            r = [e[1] for e in p.events if e[0] == "return"]
            if r and r[0][0] == "agg" and r[0][1] == "tuple":
                d = dict(r[0][2])
                rec, kind, flag = d["0"], d["1"], d["2"]
                ok = (has_field(rec, "token_recognizers") or mir.contains(rec, lambda x: isinstance(x, tuple) and x[0] == "upvar"
                                                                     and "token_recognizers" in x[1])) and kind[0] == "field" and kind[2] == "0" and flag[0] == "field" and flag[2] == "1" \
                    and kind[1] == flag[1] and mir.contains(rec, lambda x: x == kind)
                if ok:
                    okm = True
                else:
                    res.violation(rid5, "recogniser-mapping", "expected token (kind, flag) is mapped to (%s, %s, %s)" % (
                        fmt(rec)[:60], fmt(kind)[:30], fmt(flag)[:30]), cl.loc())
    names = {callee(t) for _, t in h.calls()}
    if okm and not any(k in n for n in names for k in ("Iterator::filter", "Iterator::rev", "::sort", "Iterator::take", "Iterator::skip")):
        res.ok(rid5, "recogniser-mapping", h.loc(), "(&recognizers[tk.into()], tk, flag) in order")
    elif okm:
        res.violation(rid5, "recogniser-order", "the expected tokens are re-ordered or filtered before they are tried", h.loc())
    # lexical alternatives of different length shift heads at different offsets: the shifter must keep them apart
    # (decided by C03-R2 on the shifter's keys, shared)
    from . import c03, c07, report
    rid6 = res.rule("C06-R6", "GLR: heads shifted over lexical alternatives of different length are not merged (frontier keyed by "
                    "(state, position); shared with C03-R2)", floor=2)
    sub = report.Result("C06", ctx.tier)
    try:
        c03.run(ctx, sub)
        c07.adopt(res, rid6, sub, only=["C03-R2"])
        for u in sub.undecided_list:
            if u["rule"].startswith("C03-R2"):
                res.undecided(rid6, u["what"], u.get("where"))
    except mir.AnchorLost as e:
        res.undecided(rid6, str(e))
    # R8: a lexical alternative is a head; a head filed in a sub-frontier must not silently displace another one
    rid8 = res.rule("C06-R8", "GLR create_frontier: a head is filed under (position, token kind) -> state only after asking whether "
                    "that slot is taken (or the displaced head is looked at): two heads that reach one state by tokens of "
                    "different length and meet after layout skipping are both followed", floor=1)
    try:
        g, cpaths = rt.cache(F).paths(rt.GLR + "create_frontier$")
    except mir.AnchorLost as e:
        g, cpaths = None, []
        res.undecided(rid8, str(e))
    n_ins = 0
    bad = False
    for p in cpaths:
        asked = False
        for t_, _v in p.cond:
            if mir.contains(t_, lambda x: isinstance(x, tuple) and x and x[0] == "call" and isinstance(x[1], str)
                            and "BTreeMap" in x[1] and x[1].rsplit("::", 1)[-1] in ("contains_key", "get", "get_mut", "insert")):
                asked = True
        for e in p.events:
            if e[0] == "call" and "BTreeMap" in e[1] and e[1].endswith("::insert") and len(e[2]) > 2 \
                    and mir.has_call(e[2][1], "::state"):
                n_ins += 1
                if not asked:
                    bad = True
            if e[0] == "call" and "Entry" in e[1] and e[1].rsplit("::", 1)[-1] in ("or_insert", "or_insert_with") \
                    and mir.contains(e[2][0], lambda x: isinstance(x, tuple) and x and x[0] == "call" and mir.has_call(x, "::state")):
                n_ins += 1
    if g is not None:
        if n_ins == 0:
            res.anchor_lost(rid8, "no insert of a head under its state in create_frontier", g.loc())
        elif bad:
            res.violation(rid8, "create_frontier/insert-displaces", "create_frontier files a head with insert(state, head) without "
                          "asking whether the (position, kind, state) slot already holds another head: the earlier head and the "
                          "lexical alternative it stands for are dropped", g.loc())
        else:
            res.ok(rid8, "create_frontier/insert-displaces", g.loc())
    # R9: the token acted on is selected among the terminals expected in the state it is acted on in. The LR parser lexes
    # context-aware: after a reduction it is in another state with another expected set, and the token chosen before the
    # reduction (among LALR-merged lookaheads) need not be expected - or be the documented winner - there (seed C06-10).
    # Decided by the driver rule (C02-R3 `reduce/order`: .. -> reduce_action -> next_token), shared.
    rid9 = res.rule("C06-R9", "LR: after a reduction the token is selected again among the terminals expected in the new state "
                    "(shares the Reduce arm of the driver rule C02-R3)", floor=1)
    sub9 = report.Result("C06", ctx.tier)
    try:
        rt.lr_driver(F, sub9, sub9.rule("C02-R3", "shared"))
        hit = False
        for v in sub9.violations:
            if "/reduce/" in v["key"] or v["key"].endswith("/action-lookup-token"):
                hit = True
                res.violation(rid9, v["key"].split("/", 1)[1], v["what"], v.get("where"))
        if not hit:
            n9 = sum(1 for i_ in sub9.instances if i_["ok"] and str(i_["instance"]).startswith("reduce/"))
            if n9:
                res.ok(rid9, "reduce/relex", None, "%d clauses of the Reduce arm hold, next_token after reduce_action among them" % n9)
            else:
                res.undecided(rid9, "the Reduce arm of the LR driver was not recognised")
    except mir.AnchorLost as e:
        res.undecided(rid9, str(e))
    res.explanation = (
        "Decides the structure of lexical disambiguation: candidate set, stable descending sort and its key table (priority "
        "x 1000 + string length under most-specific), finish-flag tables, the lexer's stop table, the parser-side filters of "
        "LR (first of the longest) and GLR (retain then truncate iff grammar order) and their sibling agreement, and the "
        "kind->recogniser mapping. One known finding (priority-group cut). Not decided: which token wins for a concrete "
        "terminal set and input (needs regex semantics); string length >= 1000 overflowing into the priority band.")
