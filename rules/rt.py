"""Shared analyses of the two runtimes (LR and GLR) used by C02, C06, C07, C12, C13, C14."""
from . import mir
from .mir import Sim, TermBuilder, callee, fmt, has_call, has_field, calls_in

LR_PWC = r"^<rustemo::lr::parser::LRParser<.*> as rustemo::parser::Parser<.*>>::parse_with_context$"
LR_NEXT = r"^rustemo::lr::parser::LRParser::<[^>]*>::next_token$"
GLR_PWC = r"^<rustemo::glr::parser::GlrParser<.*> as rustemo::parser::Parser<.*>>::parse_with_context$"
GLR = r"^rustemo::glr::parser::GlrParser::<[^>]*>::"


def is_call(t, sub):
    return isinstance(t, tuple) and t[0] == "call" and mir.call_matches(t[1], sub)


def val(v):
    return "|".join(sorted(v)) if isinstance(v, frozenset) else v


def calls(p, sub):
    return [e for e in p.events if e[0] == "call" and mir.call_matches(e[1], sub)]


def idx(p, sub, nth=0):
    k = 0
    for i, e in enumerate(p.events):
        if e[0] == "call" and mir.call_matches(e[1], sub):
            if k == nth:
                return i
            k += 1
    return None


class Cache:
    def __init__(self, F):
        self.F = F
        self._paths = {}

    def paths(self, rx, **kw):
        key = (rx, tuple(sorted(kw.items())))
        if key not in self._paths:
            f = self.F.one(rx)
            self._paths[key] = (f, Sim(f, self.F, max_paths=200000).run(**kw))
        return self._paths[key]


_caches = {}


def cache(F):
    if id(F) not in _caches:
        _caches[id(F)] = Cache(F)
    return _caches[id(F)]


# ---------------------------------------------------------------- LR driver

def lr_action_kind(p):
    """the Action variant the path's main switch selected"""
    for t, v in p.cond:
        if t[0] == "discr" and len(t) > 2 and t[2] == "rustemo::lr::parser::Action" and isinstance(v, frozenset) and len(v) == 1:
            return next(iter(v)), t[1]
    return None, None


def lr_driver(F, res, rid):
    """C02-R3: the LR loop does what the cell says."""
    f, paths = cache(F).paths(LR_PWC)
    where = f.loc()
    seen = set()
    for p in paths:
        kind, action = lr_action_kind(p)
        if kind is None or kind in seen:
            continue
        seen.add(kind)
        # the action comes from actions(state, next_token.kind)
        ac = [c for c in calls_in(action) if c[1].endswith("ParserDefinition::actions")]
        if not ac:
            res.violation(rid, "action-source", "the action the LR loop switches on does not come from definition.actions(..): %s" % fmt(action)[:160], where)
            return
        a_state, a_kind = ac[0][2][1], ac[0][2][2]
        if not (isinstance(a_kind, tuple) and a_kind[0] == "field" and a_kind[2] == "kind"):
            res.violation(rid, "action-lookup-token", "actions(..) is not looked up with next_token.kind: %s" % fmt(a_kind)[:120], where)
        tok = a_kind[1] if isinstance(a_kind, tuple) and a_kind[0] == "field" else None
        if kind == "Reduce":
            prod = ("vfield", action, "Reduce", "0")
            ln = ("vfield", action, "Reduce", "1")
            order = [idx(p, "ParseStack::<S, I, C, TK>::pop_states"), idx(p, "ParserDefinition::goto"),
                     idx(p, "ParseStack::<S, I, C, TK>::push_state"), idx(p, "LRBuilder::reduce_action"),
                     idx(p, "LRParser::<'i, C, S, P, TK, NTK, D, L, B, I>::next_token", 1)]
            if None in order or order != sorted(order):
                res.violation(rid, "reduce/order", "Reduce arm does not run pop_states -> goto -> push_state -> reduce_action -> "
                              "next_token in this order (%s)" % order, where)
                continue
            pop = p.events[order[0]]
            goto = p.events[order[1]]
            push = p.events[order[2]]
            red = p.events[order[3]]
            pop_t = ("call", pop[1], pop[2])
            checks = [
                ("reduce/pop-length", pop[2][2] == ln, "pop_states is called with %s, not the reduce length of the table action" % fmt(pop[2][2])[:100]),
                ("reduce/goto-from", goto[2][1] == ("field", pop_t, "0", "tuple") or (isinstance(goto[2][1], tuple) and goto[2][1][0] == "field"
                                                                                     and goto[2][1][2] == "0" and is_call(goto[2][1][1], "pop_states")),
                 "goto is computed from %s, not from the state uncovered by pop_states" % fmt(goto[2][1])[:100]),
                ("reduce/goto-prod", goto[2][2] == prod, "goto is computed for %s, not for the production of the table action" % fmt(goto[2][2])[:100]),
                ("reduce/push-state", is_call(push[2][2], "ParserDefinition::goto"), "the state pushed after a reduction is %s, not the goto result" % fmt(push[2][2])[:100]),
                ("reduce/builder-prod", red[2][2] == prod, "reduce_action gets production %s" % fmt(red[2][2])[:100]),
                ("reduce/builder-length", red[2][3] == ln, "reduce_action gets length %s" % fmt(red[2][3])[:100]),
            ]
            for key, ok, msg in checks:
                if ok:
                    res.ok(rid, key, where)
                else:
                    res.violation(rid, key, msg, where)
        elif kind == "Shift":
            order = [idx(p, "ParseStack::<S, I, C, TK>::push_state"), idx(p, "LRBuilder::shift_action"),
                     idx(p, "LRParser::<'i, C, S, P, TK, NTK, D, L, B, I>::next_token", 1)]
            if None in order or order != sorted(order):
                res.violation(rid, "shift/order", "Shift arm does not run push_state -> shift_action -> next_token (%s)" % order, where)
                continue
            push = p.events[order[0]]
            sh = p.events[order[1]]
            st = ("vfield", action, "Shift", "0")
            if push[2][2] == st:
                res.ok(rid, "shift/push-state", where)
            else:
                res.violation(rid, "shift/push-state", "the state pushed on Shift is %s, not the state of the table action" % fmt(push[2][2])[:100], where)
            if tok is not None and sh[2][2] == tok:
                res.ok(rid, "shift/token", where)
            else:
                res.violation(rid, "shift/token", "shift_action gets %s, not the token whose kind selected the action" % fmt(sh[2][2])[:100], where)
        elif kind == "Accept":
            rets = [e for e in p.events if e[0] == "return"]
            ok = p.end == "return" and rets and rets[0][1][0] == "agg" and rets[0][1][1].endswith("Result::Ok") and \
                has_call(rets[0][1], "Builder::get_result")
            if ok and not calls(p, "LRBuilder::reduce_action") and not calls(p, "LRBuilder::shift_action"):
                res.ok(rid, "accept/result", where)
            else:
                res.violation(rid, "accept/result", "Accept does not end the loop with Ok(builder.get_result())", where)
        elif kind == "Error":
            rets = [e for e in p.events if e[0] == "return"]
            if p.end == "return" and rets and rets[0][1][0] != "agg" or (rets and has_call(rets[0][1], "from_residual")) or \
                    (rets and rets[0][1][0] == "agg" and rets[0][1][1].endswith("Err")):
                res.ok(rid, "error/result", where)
            else:
                res.violation(rid, "error/result", "Action::Error does not return an error value (ends with %s)" % p.end, where)
    for k in ("Shift", "Reduce", "Accept", "Error"):
        if k not in seen:
            res.anchor_lost(rid, "no path of the LR loop for Action::%s" % k, where)
    # C12-R5: the only Ok exit is Accept; every next_token error is propagated
    ok_paths = [p for p in paths if p.end == "return" and any(
        e[0] == "return" and e[1][0] == "agg" and e[1][1].endswith("Result::Ok") for e in p.events)]
    bad = [p for p in ok_paths if lr_action_kind(p)[0] != "Accept"]
    return f, paths, bad


def lr_stacks(F, res, rid):
    """C02-R4: stacks pop what they are told, children keep their order."""
    REORDER = ("::reverse", "::sort", "::swap", "::rotate", "::dedup", "::retain", "::remove", "::insert", "::truncate", "::drain")
    f = F.one(r"^rustemo::lr::parser::ParseStack::<[^>]*>::pop_states$")
    tb = TermBuilder(f, F)
    ok = False
    for b, t in f.calls():
        c = callee(t)
        if c.endswith("Vec::<T, A>::split_off"):
            a = tb.operand(t["args"][1])
            ok = a[0] == "bin" and a[1] == "Sub" and is_call(a[2], "Vec::<T, A>::len") and a[3] == ("param", "states")
            if not ok:
                res.violation(rid, "pop_states/split", "pop_states splits the stack at %s, expected len - states" % fmt(a)[:120], f.loc())
        if any(x in c for x in REORDER) and "Vec" in c:
            res.violation(rid, "pop_states/reorder", "pop_states calls %s on the stack" % mir.short(c), f.loc())
    if ok:
        res.ok(rid, "pop_states/split", f.loc(), "split_off(len - states)")
    else:
        res.anchor_lost(rid, "split_off in pop_states not found", f.loc())
    g = F.one(r"^<rustemo::lr::builder::TreeBuilder<.*> as rustemo::lr::builder::LRBuilder<.*>>::reduce_action$")
    found = False
    for p in Sim(g, F).run():
        so = calls(p, "Vec::<T, A>::split_off")
        pushes = calls(p, "Vec::<T, A>::push")
        gt = [v for t, v in p.cond if t[0] == "bin" and t[1] == "Gt" and t[2] == ("param", "prod_len") and t[3] == ("const", 0)]
        for e in p.events:
            if e[0] == "call" and any(x in e[1] for x in REORDER) and "Vec" in e[1]:
                res.violation(rid, "tree-builder/reorder", "TreeBuilder::reduce_action calls %s (children would not be in input order)" % mir.short(e[1]), g.loc())
        if gt and gt[0] == 1:
            found = True
            a = so[0][2][1] if so else None
            if not (a and a[0] == "bin" and a[1] == "Sub" and is_call(a[2], "Vec::<T, A>::len") and a[3] == ("param", "prod_len")):
                res.violation(rid, "tree-builder/split", "TreeBuilder::reduce_action takes %s children, expected the last prod_len" % (fmt(a)[:100] if a else None), g.loc())
            else:
                res.ok(rid, "tree-builder/split", g.loc())
            node = pushes[-1][2][1] if pushes else None
            ch = dict(node[2]).get("children") if node and node[0] == "agg" else None
            if ch is None or not is_call(ch, "split_off"):
                res.violation(rid, "tree-builder/children", "the new node's children are %s, not the split-off part of the stack" % (fmt(ch)[:100] if ch else None), g.loc())
            else:
                res.ok(rid, "tree-builder/children", g.loc())
            pr = dict(node[2]).get("prod") if node and node[0] == "agg" else None
            if pr != ("param", "prod"):
                res.violation(rid, "tree-builder/prod", "the new node is labelled with %s" % (fmt(pr) if pr else None), g.loc())
            else:
                res.ok(rid, "tree-builder/prod", g.loc())
    if not found:
        res.anchor_lost(rid, "prod_len > 0 path of TreeBuilder::reduce_action not found", g.loc())
    h = F.one(r"^<rustemo::lr::builder::TreeBuilder<.*> as rustemo::lr::builder::LRBuilder<.*>>::shift_action$")
    for p in Sim(h, F).run():
        pushes = calls(p, "Vec::<T, A>::push")
        node = pushes[-1][2][1] if pushes else None
        tok = dict(node[2]).get("token") if node and node[0] == "agg" else None
        lay = dict(node[2]).get("layout") if node and node[0] == "agg" else None
        if tok == ("param", "token"):
            res.ok(rid, "tree-builder/shift-token", h.loc())
        else:
            res.violation(rid, "tree-builder/shift-token", "shift_action stores %s as the leaf's token" % (fmt(tok) if tok else None), h.loc())
        return lay
    # get_result returns the top of the stack
    return None


# ---------------------------------------------------------------- next_token decision table (LR)

def next_token_rows(F):
    """rows of the LR next_token table: (atoms dict, outcome, path)"""
    f, paths = cache(F).paths(LR_NEXT)
    rows = []
    for p in paths:
        a = {}
        for t, v in p.cond:
            s = fmt(t)
            if is_call(t, "ParserDefinition::longest_match"):
                a["longest_match"] = v
            elif t[0] == "discr" and is_call(t[1], "::next") and "token" not in a:
                a["token"] = val(v)
            elif t == ("discr", ("param", "layout_parser"), t[2] if len(t) > 2 else None):
                a["layout_parser"] = val(v)
            elif t[0] == "discr" and is_call(t[1], "parse_with_context"):
                a["layout_result"] = val(v)
            elif t[0] == "discr" and isinstance(t[1], tuple) and t[1][0] == "vfield" and has_call(t[1], "parse_with_context"):
                a["layout_some"] = val(v)
            elif _nonzero_len(t, "Input::len") is not None and v in (0, 1):
                # layout.len() > 0 in any spelling: 0 < len, len != 0, !(len == 0), len >= 1, !is_empty()
                a["layout_len>0"] = v if _nonzero_len(t, "Input::len") else 1 - v
            elif t[0] == "field" and t[2] == "partial_parse":
                a["partial_parse"] = v
            elif is_call(t, "contains"):
                a["stop_expected"] = v
                a["_contains"] = t
            elif t[0] == "bin" and t[1] == "Gt" and has_call(t[2], "Vec::<T, A>::len"):
                a["many"] = v
            else:
                a.setdefault("_unknown", []).append(s[:100])
        out = p.end
        if p.end == "return":
            r = [e for e in p.events if e[0] == "return"][0][1]
            if r[0] == "agg" and r[1].endswith("Result::Ok"):
                tok = dict(r[2])["0"]
                if tok[0] == "agg" and tok[1].endswith("Token::Token"):
                    out = "synthetic-stop"
                    a["_token"] = tok
                else:
                    out = "lexer-token"
            elif r[0] == "agg" and r[1].endswith("Result::Err"):
                out = "error"
                a["_err"] = dict(r[2])["0"]
        elif p.end == "backedge":
            out = "retry"
        rows.append((a, out, p))
    return f, rows


def _nonzero_len(t, lencall):
    """True if the comparison term t says `len > 0` when it is true, False if it says `len == 0` when true, None otherwise"""
    if not (isinstance(t, tuple) and t[0] == "bin"):
        if is_call(t, "::is_empty"):
            return False
        return None
    op, a, b = t[1], t[2], t[3]
    flip = {"Lt": "Gt", "Gt": "Lt", "Le": "Ge", "Ge": "Le", "Eq": "Eq", "Ne": "Ne"}
    if has_call(b, lencall) and a[0] == "const":
        op, a, b = flip.get(op), b, a
    if not (has_call(a, lencall) and b[0] == "const" and isinstance(b[1], int)):
        return None
    return {("Gt", 0): True, ("Ne", 0): True, ("Ge", 1): True, ("Eq", 0): False, ("Le", 0): False, ("Lt", 1): False}.get((op, b[1]))


def next_token_spec(a):
    if a.get("token") == "Some":
        return "lexer-token"
    if a.get("layout_parser") == "Some" and a.get("layout_result") == "Ok" and a.get("layout_some") == "Some" and a.get("layout_len>0") == 1:
        return "retry"
    if a.get("partial_parse") == 1 and a.get("stop_expected") == 1:
        return "synthetic-stop"
    return "error"


def lr_next_token_table(F, res, rid):
    f, rows = next_token_rows(F)
    where = f.loc()
    bad = 0
    for a, out, p in rows:
        if a.get("_unknown"):
            res.violation(rid, "next-token/unknown-guard", "anchor lost: unrecognised condition in LRParser::next_token: %s" % a["_unknown"][0], where)
            return f, rows
        if out != next_token_spec(a):
            bad += 1
            if bad <= 3:
                res.violation(rid, "next-token/%s" % next_token_spec(a),
                              "LRParser::next_token: with %s the parser does `%s`, documented: `%s`" % (
                                  {k: v for k, v in a.items() if not k.startswith("_")}, out, next_token_spec(a)), where)
    if not bad:
        res.ok(rid, "next-token/table", where, "%d rows: lexer token first; layout retry only on progress; synthetic STOP iff "
               "partial_parse and STOP expected; else error" % len(rows))
    return f, rows


def token_mutators(F, res, rid):
    """who may change the candidate tokens between the lexer and the parser (shared by C06-R4, C07-S4 and C03-R8)"""
    from .mir import TermBuilder, callee
    rid4 = rid
    for fn_rx, nm in ((GLR + "find_lookaheads$", "glr"), (LR_NEXT, "lr")):
        fx = F.one(fn_rx)
        tbx = TermBuilder(fx, F)
        extra = []
        for b, tm in fx.calls():
            c = callee(tm)
            if not tm["args"] or tm["args"][0]["k"] not in ("copy", "move"):
                continue
            ty = fx.local_ty(tm["args"][0]["p"]["l"])
            if not (ty.startswith("&mut") and "Vec<" in ty and "Token<" in ty):
                continue
            m = mir.strip_generics(c).rsplit("::", 1)[-1]
            if m in ("retain", "truncate", "iter_mut", "deref_mut", "as_mut_slice", "push", "extend", "reserve", "iter", "len", "is_empty", "deref"):
                continue
            extra.append("%s (%s:%s)" % (m, fx.file, tm.get("line")))
        if extra:
            res.violation(rid4, "%s/token-mutators" % nm, "the candidate tokens are also changed by %s: lexical alternatives are dropped or "
                          "reordered outside the documented strategies (longest match, grammar order)" % ", ".join(extra[:3]), fx.loc())
        else:
            res.ok(rid4, "%s/token-mutators" % nm, fx.loc(), "only retain / truncate take tokens out")


def layout_span_bracket(F, fn):
    """Every path of `fn` that runs the layout parser on the content context puts the context's span back afterwards: the
    argument of the first set_span after the call is the value a span() call returned BEFORE it (same term, same receiver
    epoch - a span() read after the layout parser is the layout's span). Returns (paths through the layout parser, list of
    (reason, path end) for the paths that do not)."""
    n, bad = 0, []
    for p in Sim(fn, F, max_paths=100000).run():
        i_lp = idx(p, "parse_with_context")
        if i_lp is None:
            continue
        n += 1
        ctx = p.events[i_lp][2][1] if len(p.events[i_lp][2]) > 1 else None
        reads = [e[5] for e in p.events[:i_lp] if e[0] == "call" and len(e) > 5 and mir.call_matches(e[1], "Context::span")
                 and e[2] and idiom_same(e[2][0], ctx)]
        sets = [e for e in p.events[i_lp + 1:] if e[0] == "call" and mir.call_matches(e[1], "Context::set_span")
                and e[2] and idiom_same(e[2][0], ctx)]
        if not sets:
            bad.append(("the span the layout parser left in the context is not replaced", p.end))
        elif not any(sets[0][2][1] == r for r in reads):
            bad.append(("set_span after the layout parser is given %s, not the span read before the layout parser ran"
                        % fmt(sets[0][2][1])[:60], p.end))
    return n, bad


def layout_position_bracket(F, fn):
    """Every path of `fn` that runs the layout parser on the content context and then does NOT take layout (no
    set_layout_ahead afterwards: the layout parser failed or found nothing) puts the context's position back: some
    set_position after the call is given the value a position() call returned BEFORE it (same receiver epoch). Otherwise
    what the layout parser consumed before it failed is skipped and the error is reported behind it. Returns
    (paths through the layout parser without layout, [(reason, path end)])."""
    n, bad = 0, []
    for p in Sim(fn, F, max_paths=100000).run():
        i_lp = idx(p, "parse_with_context")
        if i_lp is None:
            continue
        ctx = p.events[i_lp][2][1] if len(p.events[i_lp][2]) > 1 else None
        after = p.events[i_lp + 1:]
        if any(e[0] == "call" and mir.call_matches(e[1], "Context::set_layout_ahead") and e[2] and idiom_same(e[2][0], ctx)
               and not (len(e[2]) > 1 and mir.contains(e[2][1], lambda x: isinstance(x, tuple) and x[:2] == ("agg", "None")))
               for e in after):
            continue
        n += 1
        # a read counts when nothing between it and the layout attempt can have moved the position: no call that is handed
        # the context other than the context's own getters and the state/span/layout setters (the lexer of this round moves
        # it over white space; a position read before the lexer ran is where the PREVIOUS round started - seed C12-3)
        QUIET = ("Context::position", "Context::span", "Context::state", "Context::layout_ahead", "Context::token_ahead",
                 "Context::set_state", "Context::set_span", "Context::set_layout_ahead", "Context::location", "Context::range")
        reads = []
        for k_, e in enumerate(p.events[:i_lp]):
            if e[0] == "call" and len(e) > 5 and mir.call_matches(e[1], "Context::position") and e[2] and idiom_same(e[2][0], ctx):
                moved = any(x[0] == "call" and any(idiom_same(a_, ctx) for a_ in x[2]) and not any(mir.call_matches(x[1], q_) for q_ in QUIET)
                            for x in p.events[k_ + 1:i_lp])
                if not moved:
                    reads.append(e[5])
        sets = [e for e in after if e[0] == "call" and mir.call_matches(e[1], "Context::set_position")
                and e[2] and idiom_same(e[2][0], ctx)]
        if not sets:
            bad.append(("the position the layout parser reached before it failed stays in the context", p.end))
        elif not any(s[2][1] == r for s in sets for r in reads):
            bad.append(("set_position after the layout parser is given %s, not a position read between this round's lexer call and "
                        "the layout attempt" % fmt(sets[0][2][1])[:60], p.end))
    return n, bad


def idiom_same(a, b):
    from . import idiom
    return a is not None and b is not None and idiom.same(a, b)
