"""Loader and analyses over mirfacts JSON: CFG, dominators, call graph,
terms, and the path simulator (families F2-F5 of DESIGN.md)."""
import glob
import copy
import json
import os
import re
import sys

# ---------------------------------------------------------------- loading


class Fn:
    __slots__ = ("d", "path", "crate", "blocks", "_succ", "_pred", "_dom", "_defs", "_varname",
                 "_idom")

    def __init__(self, d, crate):
        self.d = d
        self.path = d["path"]
        self.crate = crate
        self.blocks = d.get("blocks")
        self._succ = None
        self._pred = None
        self._dom = None
        self._defs = None
        self._varname = None

    # -- basic info
    @property
    def file(self):
        return self.d["file"]

    @property
    def line(self):
        return self.d["line"]

    @property
    def kind(self):
        return self.d["kind"]

    @property
    def argc(self):
        return self.d["argc"]

    def loc(self):
        return "%s:%d" % (self.d["file"], self.d["line"])

    def has_body(self):
        return self.blocks is not None

    # -- CFG (unwind edges are not exported; cleanup blocks are unreachable)
    def succ(self, b):
        if self._succ is None:
            self._succ = [term_targets(bl["term"]) for bl in self.blocks]
        return self._succ[b]

    def pred(self, b):
        if self._pred is None:
            self._pred = [[] for _ in self.blocks]
            for i in range(len(self.blocks)):
                for s in self.succ(i):
                    self._pred[s].append(i)
        return self._pred[b]

    def reachable(self):
        seen = {0}
        st = [0]
        while st:
            b = st.pop()
            for s in self.succ(b):
                if s not in seen:
                    seen.add(s)
                    st.append(s)
        return seen

    def dominators(self):
        """dom[b] = set of blocks dominating b (iterative)."""
        if self._dom is not None:
            return self._dom
        reach = self.reachable()
        order = sorted(reach)
        allb = set(order)
        dom = {b: set(allb) for b in order}
        dom[0] = {0}
        changed = True
        while changed:
            changed = False
            for b in order:
                if b == 0:
                    continue
                ps = [p for p in self.pred(b) if p in reach]
                if not ps:
                    continue
                new = set.intersection(*(dom[p] for p in ps)) | {b}
                if new != dom[b]:
                    dom[b] = new
                    changed = True
        self._dom = dom
        return dom

    def dominates(self, a, b):
        return a in self.dominators().get(b, ())

    def back_edges(self):
        res = []
        dom = self.dominators()
        for b in dom:
            for s in self.succ(b):
                if s in dom[b]:
                    res.append((b, s))
        return res

    def loop_blocks(self, header):
        """Natural loop of all back edges into header."""
        body = {header}
        st = [b for (b, h) in self.back_edges() if h == header]
        while st:
            b = st.pop()
            if b in body:
                continue
            body.add(b)
            st.extend(self.pred(b))
        return body

    # -- iteration helpers
    def terms(self):
        for i, bl in enumerate(self.blocks):
            if bl.get("cleanup"):
                continue
            yield i, bl["term"]

    def calls(self):
        """(block index, terminator) of every call (bodies) or summary."""
        if self.blocks is None:
            for c in self.d.get("calls", []):
                yield None, c
            return
        for i, t in self.terms():
            if t["k"] == "call":
                yield i, t

    def stmts(self):
        for i, bl in enumerate(self.blocks):
            if bl.get("cleanup"):
                continue
            for j, s in enumerate(bl["stmts"]):
                yield i, j, s

    def var_name(self, local):
        if self._varname is None:
            self._varname = {}
            for v in self.d.get("vars", []):
                p = v.get("place")
                if p and not p["proj"]:
                    self._varname.setdefault(p["l"], v["name"])
        return self._varname.get(local)

    def local_of_var(self, name):
        for v in self.d.get("vars", []):
            p = v.get("place")
            if v["name"] == name and p and not p["proj"]:
                return p["l"]
        return None

    def local_ty(self, l):
        return self.d["locals"][l]["ty"]

    def defs(self):
        """local -> list of ('assign', bb, idx, stmt) / ('call', bb, term)
        whole-local definitions; partial (projected) stores are listed under
        key (local, 'partial')."""
        if self._defs is None:
            d = {}
            for i, j, s in self.stmts():
                dst = s["dst"]
                key = dst["l"] if not dst["proj"] else (dst["l"], "partial")
                d.setdefault(key, []).append(("assign", i, j, s))
            for i, t in self.terms():
                if t["k"] == "call":
                    dst = t["dst"]
                    key = dst["l"] if not dst["proj"] else (dst["l"], "partial")
                    d.setdefault(key, []).append(("call", i, None, t))
            self._defs = d
        return self._defs


def term_targets(t):
    k = t["k"]
    if k == "goto":
        return [t["t"]]
    if k == "switch":
        res = []
        for _, b in t["targets"]:
            if b not in res:
                res.append(b)
        if t["otherwise"] not in res:
            res.append(t["otherwise"])
        return res
    if k in ("drop", "assert"):
        return [t["t"]]
    if k == "call":
        return [t["t"]] if t["t"] is not None else []
    return []


class Crate:
    def __init__(self, d, file):
        self.d = d
        self.file = file
        self.name = d["crate"]
        self.test = d.get("test", False)
        self.fns = {}
        for f in d["fns"]:
            self.fns[f["path"]] = Fn(f, self.name)
        self.adts = {a["path"]: a for a in d["adts"]}
        self.statics = d["statics"]
        self.impls = d["impls"]
        self.traits = d["traits"]


class Facts:
    """All crates of one fact set."""

    def __init__(self, directory, only=None):
        self.crates = []
        for p in sorted(glob.glob(os.path.join(directory, "mir", "*.mir.json"))):
            base = os.path.basename(p)
            cname = base.rsplit("-", 1)[0]
            if only and cname.replace("-test", "") not in only:
                continue
            self.crates.append(Crate(json.load(open(p)), p))
        self.fns = {}
        self.adts = {}
        for c in self.crates:
            for k, f in c.fns.items():
                # several targets of one package may define the same path
                self.fns.setdefault(k, f)
            self.adts.update(c.adts)
        # splicing is a convenience for the rules; if it trips over an unforeseen body the rules still run, on the
        # unspliced functions
        self.closure_calls_inlined, self.inlined = 0, {}
        try:
            self.closure_calls_inlined = inline_direct_closure_calls(self)
            self.inlined = inline_new_helpers(self)
        except Exception as e:      # noqa
            print("[facts] helper inlining skipped: %s: %s" % (type(e).__name__, e), file=sys.stderr)

    def owner_root(self, path):
        """the function a (possibly inlined helper's or closure's) path is accounted to"""
        seen = set()
        while True:
            root = path.split("::{closure")[0]
            tgt = self.inlined.get(root)
            if not tgt or len(set(tgt)) != 1 or root in seen:
                return root
            seen.add(root)
            path = tgt[0]

    def crate(self, name):
        for c in self.crates:
            if c.name == name and not c.test:
                return c
        return None

    def fn(self, path):
        return self.fns.get(path)

    def find(self, regex):
        r = re.compile(regex)
        return [f for p, f in self.fns.items() if r.search(p)]

    def one(self, regex):
        fs = self.find(regex)
        if len(fs) != 1:
            raise AnchorLost("function anchor /%s/ matched %d functions" % (regex, len(fs)))
        return fs[0]

    def closures_of(self, f):
        owners, grew = {f.path}, True
        while grew:
            grew = False
            for h, cs in self.inlined.items():
                if h not in owners and owners & set(cs):
                    owners.add(h)
                    grew = True
        pres = [o + "::{closure#" for o in owners]
        return [g for p, g in self.fns.items() if any(p.startswith(pre) for pre in pres)]

    all_nested_closures = closures_of


class AnchorLost(Exception):
    pass


# ---------------------------------------------------------------- helper inlining
# The rules were written against a frozen list of functions (tables/known_fns.json). A private function that is not in
# the list is a helper somebody extracted later; every rule sees it inlined at its call sites (MIR-level splice), so that
# `extract function` refactorings are neutral for path, term, guard and census rules alike.

KNOWN_FNS = os.path.join(os.path.dirname(os.path.abspath(__file__)), "tables", "known_fns.json")
INLINE_MAX_BLOCKS = 600


def _shift(node, off_l):
    """deep copy with every local index shifted"""
    if isinstance(node, dict):
        out = {}
        for k, v in node.items():
            if k == "l" and isinstance(v, int):
                out[k] = v + off_l
            else:
                out[k] = _shift(v, off_l)
        return out
    if isinstance(node, list):
        return [_shift(x, off_l) for x in node]
    return node


def inline_call(caller, bi, callee, spread=False):
    """Splices the body of `callee` (fn dict) over the call terminator of block `bi` of `caller` (fn dict, modified)."""
    call = caller["blocks"][bi]["term"]
    off_l = len(caller["locals"])
    off_b = len(caller["blocks"])
    caller["locals"] = caller["locals"] + copy.deepcopy(callee["locals"])
    for v in callee.get("vars") or []:
        v2 = _shift(v, off_l)
        v2["arg"] = None
        v2["inlined_from"] = callee["path"]
        caller.setdefault("vars", []).append(v2)
    line = call.get("line")
    blk = caller["blocks"][bi]
    args = list(call["args"])
    if spread and len(args) == 2:
        # closure call: (closure, (a, b, ..)) -> _1 = closure, _2 = tuple.0, _3 = tuple.1, ..
        tup = args[1]
        args = args[:1]
        for j in range(callee["argc"] - 1):
            if tup["k"] in ("copy", "move"):
                args.append({"k": tup["k"], "p": {"l": tup["p"]["l"], "proj": tup["p"]["proj"] + [
                    {"k": "field", "i": j, "ty": callee["locals"][j + 2]["ty"]}]}})
            else:
                args.append(tup)
    for i, a in enumerate(args):
        blk["stmts"].append({"k": "assign", "dst": {"l": off_l + i + 1, "proj": []}, "rv": {"k": "use", "op": a},
                             "exp": call.get("exp", False), "line": line, "inl": True})
    blk["term"] = {"k": "goto", "t": off_b, "inlined_call": callee["path"], "line": line}
    for b in callee["blocks"]:
        nb = _shift(b, off_l)
        tm = nb["term"]
        k = tm["k"]
        if k == "return":
            nb["stmts"].append({"k": "assign", "dst": call["dst"], "rv": {"k": "use", "op": {
                "k": "move", "p": {"l": off_l, "proj": []}}}, "exp": call.get("exp", False), "line": line, "inl": True})
            nb["term"] = {"k": "goto", "t": call["t"], "line": line} if call.get("t") is not None else {"k": "unreachable"}
        else:
            if tm.get("t") is not None and k in ("goto", "drop", "call", "assert"):
                tm["t"] = tm["t"] + off_b
            if k == "switch":
                tm["targets"] = [[v, tgt + off_b] for v, tgt in tm["targets"]]
                tm["otherwise"] = tm["otherwise"] + off_b
        if "{closure#" not in (nb.get("inl_from") or ""):
            nb["inl_from"] = callee["path"]
        caller["blocks"].append(nb)


def inline_new_helpers(facts, local_crates=("rustemo", "rustemo_compiler", "rcomp")):
    if not os.path.exists(KNOWN_FNS) or os.environ.get("VERIF_NO_INLINE"):
        return {}
    known = set(json.load(open(KNOWN_FNS))["fns"])
    def is_new(f):
        p = strip_generics(f.path)
        return (f.crate in local_crates and "{closure" not in p and f.has_body() and p not in known
                and not f.d.get("pub") and f.kind in ("Fn", "AssocFn") and not p.startswith("<")
                and len(f.blocks) <= INLINE_MAX_BLOCKS)
    new = {strip_generics(f.path): f for f in facts.fns.values() if is_new(f)}
    if not new:
        return {}
    def local_callee(term):
        if term["k"] != "call" or term["f"]["k"] != "fn":
            return None
        return strip_generics(term["f"].get("resolved") or term["f"]["def"])
    calls = {}
    for p, f in new.items():
        calls[p] = {local_callee(b["term"]) for b in f.blocks} & set(new)
    # helpers on a cycle stay as they are
    def reaches(a, b, seen):
        for c in calls[a]:
            if c == b or (c not in seen and not seen.add(c) and reaches(c, b, seen)):
                return True
        return False
    new = {p: f for p, f in new.items() if not reaches(p, p, set())}
    order, done = [], set()
    def visit(p):
        if p in done:
            return
        done.add(p)
        for c in sorted(calls[p]):
            if c in new:
                visit(c)
        order.append(p)
    for p in sorted(new):
        visit(p)
    inlined = {}
    for p in order:
        g = facts.fns[new[p].path]      # may already carry its own inlined helpers
        for cp in sorted(facts.fns):
            f = facts.fns[cp]
            if f is g or not f.has_body() or f.crate not in local_crates:
                continue
            sites = [i for i, b in enumerate(f.blocks) if local_callee(b["term"]) == p and b["term"].get("t") is not None]
            if not sites:
                continue
            d = copy.deepcopy(f.d)
            for i in sites:
                inline_call(d, i, g.d)
            nf = Fn(d, f.crate)
            facts.fns[cp] = nf
            for c in facts.crates:
                if cp in c.fns and c.fns[cp] is f:
                    c.fns[cp] = nf
            inlined.setdefault(g.path, []).append(cp)
    for gp, callers in inlined.items():
        facts.fns[gp].d["inlined_into"] = callers
    return inlined


def inline_direct_closure_calls(facts, local_crates=("rustemo", "rustemo_compiler", "rcomp")):
    """`let f = |x| ..; f(a)`: a closure called by name in the function that defines it is spliced in like a helper."""
    if os.environ.get("VERIF_NO_INLINE") or not os.path.exists(KNOWN_FNS):
        return 0
    # closures that today's tree already calls by name stay calls (the rules were written against them)
    keep = set(json.load(open(KNOWN_FNS))["direct_closures"])
    n = 0
    for cp in sorted(facts.fns):
        f = facts.fns[cp]
        if not f.has_body() or f.crate not in local_crates:
            continue
        d = None
        for _round in range(4):
            blocks = (d or f.d)["blocks"]
            sites = []
            for i, b in enumerate(blocks):
                tm = b["term"]
                if tm["k"] != "call" or tm["f"]["k"] != "fn" or tm.get("t") is None:
                    continue
                r = tm["f"].get("resolved") or ""
                if tm["f"].get("method") in ("call", "call_mut", "call_once") and "{closure#" in r \
                        and r.split("::{closure#")[0] in (cp, cp.split("::{closure#")[0]):
                    g = facts.fns.get(r)
                    if strip_generics(r) in keep:
                        continue
                    if g is not None and g.has_body() and g.path != cp and len(g.blocks) <= INLINE_MAX_BLOCKS:
                        sites.append((i, g))
            if not sites:
                break
            if d is None:
                d = copy.deepcopy(f.d)
            for i, g in sites:
                inline_call(d, i, g.d, spread=True)
                n += 1
        if d is not None:
            nf = Fn(d, f.crate)
            facts.fns[cp] = nf
            for c in facts.crates:
                if cp in c.fns and c.fns[cp] is f:
                    c.fns[cp] = nf
    return n


# ---------------------------------------------------------------- callees

def callee(t):
    """Canonical callee name of a call terminator/summary."""
    f = t["f"]
    if f["k"] != "fn":
        return "<indirect>"
    return f.get("resolved") or f["def"]


def callee_def(t):
    f = t["f"]
    if f["k"] != "fn":
        return "<indirect>"
    return f["def"]


_GENERIC = re.compile(r"::<[^<>]*(?:<[^<>]*(?:<[^<>]*>[^<>]*)*>[^<>]*)*>")


def strip_generics(path):
    """`alloc::vec::Vec::<T, A>::push` -> `alloc::vec::Vec::push`."""
    prev = None
    while prev != path:
        prev = path
        path = _GENERIC.sub("", path)
    return path


def short(path):
    """Human-friendly short callee: last two path segments without generics."""
    p = strip_generics(path)
    if p.startswith("<"):
        return p
    parts = p.split("::")
    return "::".join(parts[-2:])


# ---------------------------------------------------------------- terms

TRANSPARENT = [
    "core::ops::deref::Deref::deref", "core::ops::deref::DerefMut::deref_mut",
    "as core::ops::deref::Deref>::deref", "as core::ops::deref::DerefMut>::deref_mut",
    "core::borrow::Borrow::borrow", "core::borrow::BorrowMut::borrow_mut",
    "as core::borrow::Borrow<", "as core::borrow::BorrowMut<",
    "core::convert::AsRef::as_ref", "as core::convert::AsRef<",
    "core::convert::AsMut::as_mut", "as core::convert::AsMut<",
    "core::cell::RefCell::<T>::borrow", "core::cell::RefCell::<T>::borrow_mut",
    "core::option::Option::<T>::as_ref", "core::option::Option::<T>::as_mut",
    "core::option::Option::<T>::as_deref",
    "as core::clone::Clone>::clone", "core::clone::Clone::clone",
    "as core::iter::traits::collect::IntoIterator>::into_iter",
    "core::iter::traits::collect::IntoIterator::into_iter",
    "alloc::rc::Rc::<T, A>::clone", "core::cell::Cell::<T>::get",
    "as core::convert::Into<", "core::convert::Into::into",
    "as core::convert::From<", "core::convert::From::from",
    "alloc::borrow::ToOwned::to_owned", "as alloc::borrow::ToOwned>::to_owned",
    "alloc::string::ToString::to_string", "as alloc::string::ToString>::to_string",
    "core::iter::traits::iterator::Iterator::by_ref",
    "alloc::vec::Vec::<T, A>::as_slice", "alloc::string::String::as_str",
    "alloc::vec::Vec::<T, A>::as_mut_slice",
]


def is_transparent(name):
    for t in TRANSPARENT:
        if t in name:
            return True
    return False


def fmt(t, depth=0):
    """Readable rendering of a term."""
    if not isinstance(t, tuple):
        return repr(t)
    k = t[0]
    if depth > 12:
        return "…"
    d = depth + 1
    if k == "const":
        return "%s" % (t[1],)
    if k == "param":
        return "param(%s)" % t[1]
    if k == "upvar":
        return "upvar(%s)" % t[1]
    if k == "var":
        return "var(%s)" % t[1]
    if k == "local":
        return "_%s" % t[1]
    if k == "call":
        tag = ""
        if len(t) > 3 and isinstance(t[3], tuple) and t[3][0] == "as":
            tag = "#" + t[3][1]
        return "%s(%s)%s" % (short(t[1]), ", ".join(fmt(a, d) for a in t[2]), tag)
    if k == "field":
        return "%s.%s" % (fmt(t[1], d), t[2])
    if k == "vfield":
        return "(%s as %s).%s" % (fmt(t[1], d), t[2], t[3])
    if k == "discr":
        return "discr(%s)" % fmt(t[1], d)
    if k == "bin":
        return "%s(%s, %s)" % (t[1], fmt(t[2], d), fmt(t[3], d))
    if k == "un":
        return "%s(%s)" % (t[1], fmt(t[2], d))
    if k == "cast":
        return "(%s as %s)" % (fmt(t[1], d), t[2])
    if k == "index":
        return "%s[%s]" % (fmt(t[1], d), fmt(t[2], d))
    if k == "agg":
        return "%s{%s}" % (t[1], ", ".join("%s: %s" % (n, fmt(v, d)) for n, v in t[2]))
    if k == "closure":
        return "closure(%s)" % short(t[1])
    if k == "phi":
        return "phi(%s)" % " | ".join(sorted(fmt(x, d) for x in t[1]))
    if k == "fn":
        return "fn(%s)" % short(t[1])
    return "%s(%s)" % (k, ", ".join(fmt(x, d) if isinstance(x, tuple) else str(x) for x in t[1:]))


def const_str(t):
    """The string of a string-literal constant term / operand, else None."""
    d = None
    if isinstance(t, tuple) and t[0] == "const" and isinstance(t[1], str):
        d = t[1]
    elif isinstance(t, dict) and t.get("k") == "const" and "str" in t.get("ty", ""):
        d = t.get("disp")
    if d is None:
        return None
    if d.startswith("const "):
        d = d[6:]
    if len(d) >= 2 and d[0] == '"' and d[-1] == '"':
        return d[1:-1]
    return None


def walk(t):
    """All subterms, pre-order."""
    yield t
    if isinstance(t, tuple):
        k = t[0]
        if k == "call":
            for a in t[2]:
                yield from walk(a)
        elif k == "agg":
            for _, v in t[2]:
                yield from walk(v)
        elif k == "closure":
            for v in t[2]:
                yield from walk(v)
        elif k == "phi":
            for v in t[1]:
                yield from walk(v)
        else:
            # a bare tuple of terms (an argument list) has a term, not a tag, in front
            for x in (t if isinstance(k, tuple) else t[1:]):
                if isinstance(x, tuple):
                    yield from walk(x)


def contains(t, pred):
    return any(pred(x) for x in walk(t))


def has_field(t, name, adt=None):
    def p(x):
        return isinstance(x, tuple) and x[0] == "field" and x[2] == name and (adt is None or x[3].endswith(adt))
    return contains(t, p)


def call_matches(name, sub):
    """`sub` in name; `Trait::method` also matches a resolved `<T as path::Trait<..>>::method`"""
    if sub in name:
        return True
    if "::" in sub and name.endswith(">::" + sub.rsplit("::", 1)[1]):
        tr = sub.rsplit("::", 1)[0].split("::")[-1]
        return ("::" + tr + "<") in name or ("::" + tr + ">") in name or (" " + tr + "<") in name or (" " + tr + ">") in name
    return False


def has_call(t, sub):
    def p(x):
        return isinstance(x, tuple) and x[0] == "call" and call_matches(x[1], sub)
    return contains(t, p)


def calls_in(t):
    return [x for x in walk(t) if isinstance(x, tuple) and x[0] == "call"]


def fields_in(t):
    return [x[2] for x in walk(t) if isinstance(x, tuple) and x[0] == "field"]


class TermBuilder:
    """Flow-insensitive term construction (F3): a local with exactly one whole
    definition in the function is replaced by the term of that definition;
    locals with several definitions become phi(set of terms) (bounded)."""

    def __init__(self, fn, facts=None, upvars=None, params=None, depth=40):
        self.fn = fn
        self.facts = facts
        self.upvars = upvars
        self.params = params
        self.maxdepth = depth
        self._memo = {}

    # places
    def place(self, p, stack=()):
        base = self.local(p["l"], stack)
        return apply_proj(self, base, p["proj"], stack, self.fn)

    def local(self, l, stack=()):
        if l in self._memo:
            return self._memo[l]
        fn = self.fn
        if l in stack or len(stack) > self.maxdepth:
            return ("var", fn.var_name(l) or "_%d" % l)
        if 1 <= l <= fn.argc:
            name = fn.var_name(l) or "arg%d" % l
            if fn.kind == "Closure" and l == 1:
                t = ("closure_env",)
            elif self.params and (l - 1) < len(self.params) and self.params[l - 1] is not None:
                t = self.params[l - 1]
            else:
                t = ("param", name)
            self._memo[l] = t
            return t
        ds = fn.defs().get(l, [])
        st = stack + (l,)
        if len(ds) == 1:
            t = self.def_term(ds[0], st)
        elif len(ds) == 0:
            t = ("var", fn.var_name(l) or "_%d" % l)
        else:
            name = fn.var_name(l)
            if name:
                t = ("var", name)
            else:
                alts = frozenset(self.def_term(d, st) for d in ds[:6])
                t = next(iter(alts)) if len(alts) == 1 else ("phi", alts)
        if not stack:
            self._memo[l] = t
        return t

    def def_term(self, d, stack):
        if d[0] == "assign":
            return self.rvalue(d[3]["rv"], stack)
        return self.call_term(d[3], stack)

    def call_term(self, t, stack):
        name = callee(t)
        args = tuple(self.operand(a, stack) for a in t["args"])
        return tag_ctor(self.fn, t, simplify_call(name, args, t))

    def operand(self, op, stack=()):
        k = op["k"]
        if k in ("copy", "move"):
            return self.place(op["p"], stack)
        if k == "const":
            if "int" in op:
                return ("const", op["int"])
            if "promoted" in op:
                pr = self.fn.d.get("promoted") or []
                i = op["promoted"]
                if i < len(pr) and len(pr[i]) == 1:
                    return ("const", pr[i][0])
            return ("const", op.get("disp"))
        if k == "fn":
            return ("fn", op.get("resolved") or op["def"])
        return ("unknown",)

    def rvalue(self, rv, stack=()):
        return rvalue_term(self, rv, stack)


def tag_ctor(fn, t, val):
    """A zero-argument call (constructor) assigned to a user variable is a
    distinct object per variable: `BTreeSet::new()` for `type_names` is not
    the one for `action_names`."""
    if isinstance(val, tuple) and val[0] == "call" and not val[2] and not t["dst"]["proj"]:
        nm = fn.var_name(t["dst"]["l"])
        if nm:
            return ("call", val[1], (), ("as", nm))
    return val


def simplify_call(name, args, t=None):
    if is_transparent(name) and args:
        return args[0]
    # Option / Result methods on a value this path has just built: the answer is known
    if args and isinstance(args[0], tuple) and args[0][0] == "agg" and args[0][1].startswith(("core::option::Option::", "core::result::Result::")):
        variant = args[0][1].rsplit("::", 1)[-1]
        m = strip_generics(name).rsplit("::", 1)[-1]
        if name.startswith(("core::option::Option", "core::result::Result")):
            if m in ("is_some", "is_ok"):
                return ("const", 1 if variant in ("Some", "Ok") else 0)
            if m in ("is_none", "is_err"):
                return ("const", 1 if variant in ("None", "Err") else 0)
            if m in ("unwrap_or", "unwrap_or_default") and variant in ("Some", "Ok"):
                return dict(args[0][2]).get("0", ("call", name, args))
            if m == "unwrap_or" and variant in ("None", "Err") and len(args) > 1:
                return args[1]
            if m in ("unwrap", "expect") and variant in ("Some", "Ok"):
                return dict(args[0][2]).get("0", ("call", name, args))
    return ("call", name, args)


def rvalue_term(tb, rv, stack):
    k = rv["k"]
    if k == "use":
        return tb.operand(rv["op"], stack)
    if k in ("ref", "rawptr"):
        return tb.place(rv["p"], stack)
    if k == "discr":
        return ("discr", tb.place(rv["p"], stack), place_ty(tb, rv["p"]))
    if k == "bin":
        return ("bin", rv["op"], tb.operand(rv["l"], stack), tb.operand(rv["r"], stack))
    if k == "un":
        return ("un", rv["op"], tb.operand(rv["x"], stack))
    if k == "cast":
        inner = tb.operand(rv["op"], stack)
        if rv["ck"].startswith("IntToInt") or rv["ck"].startswith("FloatToInt") or rv["ck"].startswith("IntToFloat"):
            return ("cast", inner, rv["ty"])
        return inner
    if k == "agg":
        ops = [tb.operand(o, stack) for o in rv["ops"]]
        if "closure" in rv:
            return ("closure", rv["closure"], tuple(ops))
        if "adt" in rv:
            names = rv.get("names") or [str(i) for i in range(len(ops))]
            if len(names) != len(ops):
                names = [str(i) for i in range(len(ops))]
            return ("agg", rv["adt"] + "::" + rv["variant"], tuple(zip(names, ops)))
        if rv.get("tuple"):
            return ("agg", "tuple", tuple((str(i), o) for i, o in enumerate(ops)))
        if "array" in rv:
            return ("agg", "array", tuple((str(i), o) for i, o in enumerate(ops)))
        return ("agg", "other", tuple((str(i), o) for i, o in enumerate(ops)))
    if k == "repeat":
        return ("repeat", tb.operand(rv["op"], stack), rv["n"])
    return ("other", rv.get("dbg", ""))


def place_ty(tb, p):
    """Type string of a place (ADT path without generic arguments, refs stripped)."""
    fn = tb.fn if hasattr(tb, "fn") else tb.sim.fn
    ty = fn.local_ty(p["l"])
    for e in p["proj"]:
        if e["k"] == "field" and "ty" in e:
            ty = e["ty"]
        elif e["k"] == "deref":
            ty = ty.lstrip("&").replace("mut ", "", 1) if ty.startswith("&") else ty
    ty = ty.lstrip("&")
    if ty.startswith("mut "):
        ty = ty[4:]
    ty = re.sub(r"^'[a-z_]+ ", "", ty)
    return strip_type_args(ty)


def strip_type_args(ty):
    depth = 0
    out = []
    for ch in ty:
        if ch == "<":
            depth += 1
        elif ch == ">":
            depth -= 1
        elif depth == 0:
            out.append(ch)
    return "".join(out)


BUILTIN_VARIANTS = {
    "core::option::Option": [("None", 0), ("Some", 1)],
    "core::result::Result": [("Ok", 0), ("Err", 1)],
    "core::cmp::Ordering": [("Less", -1), ("Equal", 0), ("Greater", 1)],
    "core::ops::control_flow::ControlFlow": [("Continue", 0), ("Break", 1)],
}


def apply_proj(tb, base, proj, stack, fn):
    t = base
    i = 0
    n = len(proj)
    while i < n:
        e = proj[i]
        k = e["k"]
        if k == "deref":
            pass
        elif k == "field":
            if isinstance(t, tuple) and t[0] == "closure" and "closure" in e and e["i"] < len(t[2]):
                # environment of a closure that was spliced into its caller: the captured value itself
                t = t[2][e["i"]]
            elif t == ("closure_env",) or "closure" in e:
                # closure environment field -> upvar
                idx = e["i"]
                ups = fn.d.get("upvars") or []
                other = None
                if e.get("closure") and e["closure"] != fn.d.get("path") and tb is not None and getattr(tb, "facts", None) is not None:
                    # the environment of ANOTHER closure (one that was spliced into this function and is reached through a
                    # captured reference): its own capture list names the field
                    other = tb.facts.fns.get(e["closure"])
                if other is not None and other.d.get("upvars") and idx < len(other.d["upvars"]) and not (
                        isinstance(t, tuple) and t == ("closure_env",)):
                    t = ("upvar", other.d["upvars"][idx]["name"].lstrip("*"))
                elif tb is not None and tb.upvars is not None and idx < len(tb.upvars):
                    t = tb.upvars[idx]
                else:
                    nm = ups[idx]["name"] if idx < len(ups) else "up%d" % idx
                    t = ("upvar", nm.lstrip("*"))
            elif isinstance(t, tuple) and t[0] == "bin" and t[1].endswith("WithOverflow"):
                # (value, overflowed) pair of a checked arithmetic operation
                if e["i"] == 0:
                    t = ("bin", t[1][:-len("WithOverflow")], t[2], t[3])
                else:
                    t = ("overflowed", t)
            elif isinstance(t, tuple) and t[0] == "agg" and t[1] != "array":
                nm = e.get("name") if "adt" in e else str(e["i"])
                hit = [v for (fname, v) in t[2] if fname == nm]
                if hit:
                    t = hit[0]
                else:
                    t = ("field", t, nm, e.get("adt", "tuple"))
            else:
                nm = e.get("name") if "adt" in e else str(e["i"])
                t = ("field", t, nm, e.get("adt", "tuple"))
        elif k == "downcast":
            # followed by a field
            if i + 1 < n and proj[i + 1]["k"] == "field":
                f = proj[i + 1]
                if isinstance(t, tuple) and t[0] == "agg" and t[1].endswith("::" + str(e["variant"])):
                    nm = f.get("name", str(f["i"]))
                    hit = [v for (fname, v) in t[2] if fname == nm]
                    t = hit[0] if hit else ("vfield", t, e["variant"], f.get("name", str(f["i"])))
                elif isinstance(t, tuple) and t[0] == "call" and e["variant"] == "Continue" and t[2] and \
                        (t[1].endswith("Try>::branch") or t[1].endswith("Try::branch")):
                    # `x?`: the Continue payload of branch(x) is the Ok / Some payload of x
                    inner, vn = t[2][0], ("Some" if "option::Option" in t[1] else "Ok")
                    if isinstance(inner, tuple) and inner[0] == "agg" and inner[1].endswith("::" + vn) and dict(inner[2]).get("0") is not None:
                        t = dict(inner[2])["0"]
                    else:
                        t = ("vfield", inner, vn, "0")
                else:
                    t = ("vfield", t, e["variant"], f.get("name", str(f["i"])))
                i += 1
            else:
                t = ("downcast", t, e["variant"])
        elif k == "index":
            idx = tb.local(e["l"], stack) if tb is not None else ("local", e["l"])
            t = ("index", t, idx)
        elif k == "cindex":
            t = ("index", t, ("const", ("end-%d" % e["i"]) if e["from_end"] else e["i"]))
        elif k == "subslice":
            t = ("subslice", t, e["from"], e["to"], e["from_end"])
        i += 1
    return t


# ---------------------------------------------------------------- path simulator

class Path:
    __slots__ = ("cond", "events", "env", "end", "blocks")

    def __init__(self):
        self.cond = []      # list of (term, value) in order met
        self.events = []    # list of event tuples
        self.env = {}
        self.end = None     # 'return' | 'backedge' | 'stop' | 'unreachable' | 'diverge' | 'panic'
        self.blocks = []

    def cond_dict(self):
        """term -> value; for enum discriminants the value is the (refined)
        frozenset of variant names still possible on this path."""
        return dict(self.cond)

    def calls(self, sub=None):
        return [e for e in self.events if e[0] == "call" and (sub is None or sub in e[1])]

    def has_call(self, sub):
        return any(e[0] == "call" and sub in e[1] for e in self.events)

    def call_index(self, sub):
        for i, e in enumerate(self.events):
            if e[0] == "call" and sub in e[1]:
                return i
        return None


NON_MUTATING_MUT = ("index_mut", "iter_mut", "borrow_mut", "deref_mut", "as_mut", "get_mut", "last_mut",
                    "first_mut", "into_iter", "::next", "by_ref")


class PathLimit(Exception):
    pass


LOG_MACS = ("log!", "logn!", "log", "logn")


def is_log(t):
    mac = t.get("mac") or []
    return any(m.strip("`").startswith(("log!", "logn!")) or " log!" in m or m in ("log", "logn") for m in mac)


PANIC_FNS = ("core::panicking::", "std::rt::begin_panic", "core::option::unwrap_failed",
             "core::result::unwrap_failed", "core::option::expect_failed",
             "core::panicking::panic_fmt", "std::rt::panic_fmt")


def is_panic_callee(name):
    return any(name.startswith(p) for p in PANIC_FNS)


class Sim:
    """Enumerates the acyclic paths of a region of one function with
    syntactic path conditions (no solver): at a switch whose operand evaluates
    to a constant the branch is followed; otherwise the operand's term becomes
    an atom and the path forks once per target value (consistent with earlier
    decisions on the identical term)."""

    def __init__(self, fn, facts=None, upvars=None, params=None, max_paths=20000,
                 fixed=None, stop_calls=(), pure_atoms=True, inline=None):
        self.fn = fn
        self.facts = facts
        self.tb = TermBuilder(fn, facts, upvars=upvars, params=params)
        self.max_paths = max_paths
        self.fixed = fixed or (lambda term: None)
        self.stop_calls = stop_calls
        self.paths = []
        self._branchmap = {}
        self.inline = inline or (lambda name: None)

    # -- environment
    def get_local(self, env, l):
        if (l, ()) in env:
            return env[(l, ())]
        return self.tb.local(l)

    def place(self, env, p):
        key = (p["l"], projkey(p["proj"]))
        if key in env:
            return env[key]
        # longest stored prefix
        proj = p["proj"]
        for cut in range(len(proj) - 1, 0, -1):
            k2 = (p["l"], projkey(proj[:cut]))
            if k2 in env:
                return apply_proj(_EnvTB(self, env), env[k2], proj[cut:], (), self.fn)
        base = self.get_local(env, p["l"])
        return apply_proj(_EnvTB(self, env), base, proj, (), self.fn)

    def operand(self, env, op):
        k = op["k"]
        if k in ("copy", "move"):
            return self.place(env, op["p"])
        return self.tb.operand(op)

    def rvalue(self, env, rv):
        return rvalue_term(_EnvTB(self, env), rv, ())

    # -- run
    def run(self, entry=0, stop_blocks=(), entry_env=None):
        self.paths = []
        p = Path()
        if entry_env:
            p.env.update(entry_env)
        self._go(entry, p, frozenset(), frozenset(stop_blocks))
        return self.paths

    def _finish(self, p, end):
        p.end = end
        self.paths.append(p)
        if len(self.paths) > self.max_paths:
            raise PathLimit("more than %d paths in %s" % (self.max_paths, self.fn.path))

    def _fork(self, p):
        q = Path()
        q.cond = list(p.cond)
        q.events = list(p.events)
        q.env = dict(p.env)
        q.blocks = list(p.blocks)
        return q

    def _go(self, b, p, visited, stops):
        fn = self.fn
        while True:
            if b in stops:
                p.blocks.append(b)
                return self._finish(p, "stop")
            if b in visited:
                p.events.append(("backedge", b))
                return self._finish(p, "backedge")
            visited = visited | {b}
            p.blocks.append(b)
            bl = fn.blocks[b]
            env = p.env
            for s in bl["stmts"]:
                if s["k"] == "assign":
                    val = self.rvalue(env, s["rv"])
                    val = fold(val)
                    dst = s["dst"]
                    pname = self.place_name(env, dst) if dst["proj"] else None
                    env[(dst["l"], projkey(dst["proj"]))] = val
                    if not dst["proj"]:
                        # forget stale projections of the overwritten local
                        for key in [k for k in env if k[0] == dst["l"] and k[1] != ()]:
                            del env[key]
                    name = fn.var_name(dst["l"]) if not dst["proj"] else None
                    if name:
                        p.events.append(("set", name, val, s.get("line")))
                    elif dst["proj"]:
                        p.events.append(("store", pname, val, s.get("line")))
                elif s["k"] == "setdiscr":
                    pass
            t = bl["term"]
            k = t["k"]
            if k == "goto":
                b = t["t"]
                continue
            if k == "drop":
                b = t["t"]
                continue
            if k == "return":
                p.events.append(("return", self.get_local(env, 0)))
                return self._finish(p, "return")
            if k == "unreachable":
                return self._finish(p, "unreachable")
            if k == "assert":
                p.events.append(("assert", t.get("kind"), t.get("line")))
                b = t["t"]
                continue
            if k == "call":
                name = callee(t)
                args = tuple(self.operand(env, a) for a in t["args"])
                val = tag_ctor(fn, t, simplify_call(name, args, t))
                # value-producing calls on a receiver that was mutated earlier on
                # this path are distinct atoms (epoch of the receiver)
                if args and val and val[0] == "call":
                    ep = p.env.get(("#epoch", args[0]), 0)
                    if ep and val[1] == name:      # (a transparent call stays its argument)
                        val = ("call", name, args, ep)
                    a0 = t["args"][0]
                    if a0["k"] in ("copy", "move") and not a0["p"]["proj"] \
                            and fn.local_ty(a0["p"]["l"]).startswith("&mut") \
                            and not any(x in name for x in NON_MUTATING_MUT):
                        p.env[("#epoch", args[0])] = ep + 1
                if is_panic_callee(name):
                    p.events.append(("panic", name, t.get("line"), tuple(t.get("mac") or ())))
                    return self._finish(p, "panic")
                if not (is_transparent(name) and args) and not is_log(t):
                    p.events.append(("call", name, args, t.get("line"), b, val))
                dst = t["dst"]
                env[(dst["l"], projkey(dst["proj"]))] = val
                if not dst["proj"]:
                    for key in [kk for kk in env if kk[0] == dst["l"] and kk[1] != ()]:
                        del env[key]
                    nm = fn.var_name(dst["l"])
                    if nm:
                        p.events.append(("set", nm, val, t.get("line")))
                if t["t"] is None:
                    return self._finish(p, "diverge")
                if any(sc in name for sc in self.stop_calls):
                    p.blocks.append(t["t"])
                    return self._finish(p, "stop")
                b = t["t"]
                continue
            if k == "switch":
                opv = fold(self.operand(env, t["op"]))
                targets = t["targets"]
                # log!/logn! guards are fixed to "off"
                if is_log(t):
                    # the guard is `is_some()` of the env var: take the branch for false
                    tgt = dict((v, bb) for v, bb in targets).get(0, t["otherwise"])
                    b = tgt
                    continue
                if opv[0] == "const" and isinstance(opv[1], int):
                    tgt = None
                    for v, bb in targets:
                        if v == opv[1]:
                            tgt = bb
                    if tgt is None:
                        tgt = t["otherwise"]
                    b = tgt
                    continue
                # switch on Not(x): decide on x with inverted targets
                if opv[0] == "un" and opv[1] == "Not" and t.get("ty") == "bool":
                    nots = 0
                    base = opv
                    while isinstance(base, tuple) and base[0] == "un" and base[1] == "Not":
                        base = base[2]
                        nots += 1
                    opv = base
                    if nots % 2:
                        tm = dict((v, bb) for v, bb in targets)
                        f_bb = tm.get(0, t["otherwise"])
                        t_bb = t["otherwise"] if 0 in tm else tm.get(1, t["otherwise"])
                        targets = [[0, t_bb]]
                        t = dict(t, targets=targets, otherwise=f_bb)
                fx = self.fixed(opv)
                if fx is not None:
                    tgt = dict((v, bb) for v, bb in targets).get(fx, t["otherwise"])
                    p.cond.append((opv, fx))
                    p.events.append(("cond", opv, fx))
                    b = tgt
                    continue
                vs = self.variants_of(opv)
                if vs and isinstance(opv[1], tuple) and opv[1][0] == "agg" and "::" in opv[1][1]:
                    # the discriminant of a value this path has just built (`x = Some(..); match x { .. }`): one variant
                    vname = opv[1][1].rsplit("::", 1)[-1]
                    dv = [d for nm, d in vs if nm == vname]
                    if dv:
                        tgt = None
                        for v, bb in targets:
                            if v == dv[0] or (dv[0] < 0 and v in (dv[0] + (1 << 64), dv[0] + (1 << 8))):
                                tgt = bb
                        b = tgt if tgt is not None else t["otherwise"]
                        continue
                if vs:
                    # enum discriminant: refine the set of possible variants
                    possible = None
                    for (ct, cv) in p.cond:
                        if ct == opv and isinstance(cv, frozenset):
                            possible = cv
                    if possible is None:
                        possible = frozenset(nm for nm, _ in vs)
                    taken = set()
                    branches = []
                    for v, bb in targets:
                        nm = self.variant_name(opv, v)
                        taken.add(nm)
                        if nm in possible:
                            branches.append((frozenset([nm]), bb))
                    rest = frozenset(x for x in possible if x not in taken)
                    ow = t["otherwise"]
                    if rest and fn.blocks[ow]["term"]["k"] != "unreachable":
                        branches.append((rest, ow))
                    if not branches:
                        return self._finish(p, "infeasible")
                    for (v, bb) in branches[1:]:
                        q = self._fork(p)
                        if v != possible:
                            q.cond.append((opv, v))
                            q.events.append(("cond", opv, v))
                        self._go(bb, q, visited, stops)
                    v, bb = branches[0]
                    if v != possible:
                        p.cond.append((opv, v))
                        p.events.append(("cond", opv, v))
                    b = bb
                    continue
                # earlier decision on the identical term?
                prev = None
                for (ct, cv) in p.cond:
                    if ct == opv:
                        prev = cv
                tmap = dict((v, bb) for v, bb in targets)
                if prev is not None:
                    if prev == "other":
                        b = t["otherwise"]
                    elif t.get("ty") == "bool" and prev == 1 and 1 not in tmap:
                        b = t["otherwise"]
                    else:
                        b = tmap.get(prev, t["otherwise"])
                    continue
                # fork
                ow = t["otherwise"]
                ow_live = fn.blocks[ow]["term"]["k"] != "unreachable"
                branches = list(targets) + ([("other", ow)] if ow_live else [])
                if t.get("ty") == "bool":
                    branches = [((1 if v == "other" else v), bb) for v, bb in branches]
                for (v, bb) in branches[1:]:
                    q = self._fork(p)
                    q.cond.append((opv, v))
                    q.events.append(("cond", opv, v))
                    self._go(bb, q, visited, stops)
                v, bb = branches[0]
                p.cond.append((opv, v))
                p.events.append(("cond", opv, v))
                b = bb
                continue
            # other terminators end the path
            return self._finish(p, "otherterm")

    def variants_of(self, opv):
        if not (isinstance(opv, tuple) and opv[0] == "discr" and len(opv) > 2):
            return None
        ty = opv[2]
        if ty in BUILTIN_VARIANTS:
            return BUILTIN_VARIANTS[ty]
        if self.facts is not None and ty in self.facts.adts:
            return [(v["name"], v["discr"]) for v in self.facts.adts[ty]["variants"]]
        return None

    def variant_name(self, opv, v):
        vs = self.variants_of(opv)
        if vs:
            for nm, d in vs:
                if d == v or (d < 0 and v == d + (1 << 64)) or (d < 0 and v == d + (1 << 8)):
                    return nm
        return v

    def other_name(self, opv, taken):
        vs = self.variants_of(opv)
        if vs:
            rest = [nm for nm, d in vs if d not in taken and not (d < 0 and (d + (1 << 8)) in taken)]
            if len(rest) == 1:
                return rest[0]
            if rest:
                return "other(" + "|".join(rest) + ")"
        return "other"

    def place_name(self, env, p):
        """Term naming the place itself (not the value stored in it)."""
        proj = p["proj"]
        for cut in range(len(proj) - 1, 0, -1):
            k2 = (p["l"], projkey(proj[:cut]))
            if k2 in env:
                return apply_proj(_EnvTB(self, env), env[k2], proj[cut:], (), self.fn)
        nm = self.fn.var_name(p["l"])
        base = self.get_local(env, p["l"])
        if nm and isinstance(base, tuple) and base[0] == "agg":
            # a field of a local aggregate is named by the variable, not by the value it was built from
            base = ("var", nm)
        return apply_proj(_EnvTB(self, env), base, proj, (), self.fn)


class _EnvTB:
    """TermBuilder facade that reads locals through a path environment."""

    def __init__(self, sim, env):
        self.sim = sim
        self.env = env
        self.upvars = sim.tb.upvars
        self.facts = sim.facts

    def local(self, l, stack=()):
        return self.sim.get_local(self.env, l)

    def place(self, p, stack=()):
        return self.sim.place(self.env, p)

    def operand(self, op, stack=()):
        return self.sim.operand(self.env, op)


def projkey(proj):
    res = []
    for e in proj:
        k = e["k"]
        if k == "deref":
            res.append("*")
        elif k == "field":
            res.append("." + str(e.get("name", e["i"])))
        elif k == "downcast":
            res.append("as " + str(e.get("variant")))
        elif k == "index":
            res.append("[_%d]" % e["l"])
        elif k == "cindex":
            res.append("[%s%d]" % ("-" if e["from_end"] else "", e["i"]))
        else:
            res.append(k)
    return tuple(res)


_CMP = {"Eq": lambda a, b: a == b, "Ne": lambda a, b: a != b, "Lt": lambda a, b: a < b,
        "Le": lambda a, b: a <= b, "Gt": lambda a, b: a > b, "Ge": lambda a, b: a >= b}


def fold(t):
    """Constant folding on the outermost constructor only."""
    if not isinstance(t, tuple):
        return t
    if t[0] == "un" and t[1] == "Not" and t[2][0] == "const" and isinstance(t[2][1], int):
        return ("const", 0 if t[2][1] else 1)
    if t[0] == "bin" and t[2][0] == "const" and t[3][0] == "const" \
            and isinstance(t[2][1], int) and isinstance(t[3][1], int):
        a, b = t[2][1], t[3][1]
        if t[1] in _CMP:
            return ("const", 1 if _CMP[t[1]](a, b) else 0)
        if t[1] in ("Add", "AddWithOverflow", "AddUnchecked"):
            return ("const", a + b)
        if t[1] in ("Sub", "SubWithOverflow", "SubUnchecked"):
            return ("const", a - b)
        if t[1] in ("BitAnd",):
            return ("const", a & b)
        if t[1] in ("BitOr",):
            return ("const", a | b)
    if t[0] == "cast" and t[1][0] == "const":
        return t[1]
    return t


# ---------------------------------------------------------------- call graph

class CallGraph:
    """Call graph over one Facts object with class-hierarchy resolution of
    unresolved trait-method calls (all impls found in the analysed crates) and
    "every closure created in a reachable body is reachable"."""

    def __init__(self, facts):
        self.facts = facts
        self.impls_of = {}   # trait method def path -> [impl fn path]
        for f in facts.fns.values():
            tm = f.d.get("implements")
            if tm:
                self.impls_of.setdefault(tm, []).append(f.path)
        self._edges = {}

    def edges(self, f):
        if f.path in self._edges:
            return self._edges[f.path]
        out = []
        for _, t in f.calls():
            fo = t["f"]
            if fo["k"] != "fn":
                continue
            r = fo.get("resolved")
            if r and r in self.facts.fns:
                out.append(r)
            elif r:
                out.append(r)
            else:
                d = fo["def"]
                out.append(d)
                for imp in self.impls_of.get(d, []):
                    out.append(imp)
            # closures / fn items passed as arguments
            for a in t.get("args", []):
                if a["k"] == "fn":
                    out.append(a.get("resolved") or a["def"])
        # closures created in the body
        if f.has_body():
            for _, _, s in f.stmts():
                rv = s.get("rv")
                if rv and rv["k"] == "agg" and "closure" in rv:
                    out.append(rv["closure"])
                if rv and rv["k"] in ("use", "cast"):
                    op = rv["op"]
                    if op["k"] == "fn":
                        out.append(op.get("resolved") or op["def"])
        else:
            pre = f.path + "::{closure#"
            for p in self.facts.fns:
                if p.startswith(pre):
                    out.append(p)
        self._edges[f.path] = out
        return out

    def reach(self, roots):
        seen = set()
        st = list(roots)
        while st:
            p = st.pop()
            if p in seen:
                continue
            seen.add(p)
            # a trait method (virtual or generic dispatch): every impl in the
            # analysed crates is a possible target (class-hierarchy analysis)
            for imp in self.impls_of.get(p, []):
                st.append(imp)
            f = self.facts.fns.get(p)
            if f is None:
                continue
            st.extend(self.edges(f))
        return seen

    def callers(self):
        rev = {}
        for f in self.facts.fns.values():
            for c in self.edges(f):
                rev.setdefault(c, set()).add(f.path)
        return rev
