"""C17 - generation is deterministic and the same through CLI and API."""
import json
import os
import re

from . import mir
from .mir import Sim, callee, fmt, strip_generics, walk

LEVEL = "other"
COMPILER_CRATES = ("rustemo_compiler", "rcomp")

HASH_ITER_TYPES = re.compile(
    r"(std::collections::hash::(map|set)|hashbrown::(map|set|raw))::"
    r"(Iter|IterMut|IntoIter|Keys|Values|ValuesMut|IntoKeys|IntoValues|Drain|ExtractIf|"
    r"Difference|Union|Intersection|SymmetricDifference|RawIter|RawDrain)\b")
HASH_ITER_CALLS = re.compile(
    r"(std::collections::hash::(map|set)::Hash(Map|Set)|hashbrown::(map|set)::Hash(Map|Set))"
    r"::<[^>]*>::(retain|extract_if|drain)$")

ORDER_INSENSITIVE_SINKS = (
    "core::iter::traits::iterator::Iterator::count", "core::iter::traits::iterator::Iterator::sum",
    "core::iter::traits::iterator::Iterator::min", "core::iter::traits::iterator::Iterator::max",
    "core::iter::traits::iterator::Iterator::any", "core::iter::traits::iterator::Iterator::all",
    "core::iter::traits::iterator::Iterator::product",
)
ORDER_PRESERVING_ADAPTORS = (
    "core::iter::traits::iterator::Iterator::map", "core::iter::traits::iterator::Iterator::filter",
    "core::iter::traits::iterator::Iterator::filter_map", "core::iter::traits::iterator::Iterator::cloned",
    "core::iter::traits::iterator::Iterator::copied", "core::iter::traits::iterator::Iterator::flat_map",
    "core::iter::traits::iterator::Iterator::chain",
    "core::iter::traits::collect::IntoIterator::into_iter",
)
ORDERED_COLLECT = re.compile(r"(BTreeMap|BTreeSet|HashMap|HashSet|BinaryHeap)")

AMBIENT = [
    (re.compile(r"^std::time::(SystemTime|Instant)::now"), "clock"),
    (re.compile(r"^std::time::SystemTime::"), "clock"),
    (re.compile(r"^std::process::id$"), "process id"),
    (re.compile(r"^std::fs::Metadata::(modified|created|accessed)$"), "file time stamp (what is generated would depend on the history of the directory)"),
    (re.compile(r"^std::os::unix::fs::MetadataExt::|^<std::fs::Metadata as std::os::unix::fs::MetadataExt>::"), "file metadata (inode times, owner)"),
    (re.compile(r"^std::thread::"), "thread"),
    (re.compile(r"^(rand|getrandom|fastrand)::"), "random"),
    (re.compile(r"^std::hash::random::RandomState::new|^std::collections::hash::map::RandomState::new"), "random hash state"),
    (re.compile(r"^std::env::(var|var_os|vars|vars_os|args|args_os|current_dir|temp_dir|home_dir)$"), "environment"),
]
# functions that may read the environment, with the reason (exact function paths)
ENV_ALLOWED = {
    "<rustemo_compiler::settings::Settings as core::default::Default>::default":
        "OUT_DIR / CARGO_MANIFEST_DIR choose output *paths*, never content",
    "rustemo_compiler::settings::Settings::trace": "RUSTEMO_TRACE switches trace logging only",
}


def fns_of(F, crates=COMPILER_CRATES):
    return [f for f in F.fns.values() if f.crate in crates and f.has_body()]


# ---------------------------------------------------------------- R1

def uses_of_local(f, l):
    """(kind, bb, term/stmt) of every read of local l."""
    res = []
    for i, j, s in f.stmts():
        if mentions(s["rv"], l):
            res.append(("stmt", i, s))
    for i, t in f.terms():
        if t["k"] == "call":
            for ai, a in enumerate(t["args"]):
                if a["k"] in ("copy", "move") and a["p"]["l"] == l:
                    res.append(("arg", i, t, ai))
        elif t["k"] == "switch":
            a = t["op"]
            if a["k"] in ("copy", "move") and a["p"]["l"] == l:
                res.append(("switch", i, t))
    return res


def mentions(rv, l):
    def op_m(o):
        return o and o.get("k") in ("copy", "move") and o["p"]["l"] == l
    k = rv["k"]
    if k in ("use", "cast", "repeat"):
        return op_m(rv["op"])
    if k in ("ref", "rawptr", "discr"):
        return rv["p"]["l"] == l
    if k == "bin":
        return op_m(rv["l"]) or op_m(rv["r"])
    if k == "un":
        return op_m(rv["x"])
    if k == "agg":
        return any(op_m(o) for o in rv["ops"])
    return False


def hash_iteration_sites(f):
    """Sites in f that create an iterator over a hash collection."""
    sites = []
    for i, t in f.terms():
        if t["k"] != "call":
            continue
        name = callee(t)
        dst = t["dst"]
        dty = f.local_ty(dst["l"]) if not dst["proj"] else ""
        if HASH_ITER_TYPES.search(dty) and not any(
                HASH_ITER_TYPES.search(f.local_ty(a["p"]["l"])) for a in t["args"]
                if a["k"] in ("copy", "move") and not a["p"]["proj"]):
            sites.append((i, t, name, dst["l"]))
        elif HASH_ITER_CALLS.search(name):
            sites.append((i, t, name, None))
        elif "core::iter::traits::collect::Extend" in name or "::extend" in name:
            # extend *from* a hash collection
            gargs = " ".join(t["f"].get("gargs", [])[1:])
            if re.search(r"Hash(Map|Set)<", gargs) and not ORDERED_COLLECT.search(t["f"].get("gargs", [""])[0]):
                sites.append((i, t, name, None))
    return sites


def chain_ok(f, l, depth=0):
    """Does the iterator in local l flow only into order-insensitive consumers?"""
    if depth > 8:
        return False, "chain too long"
    uses = uses_of_local(f, l)
    if not uses:
        return True, "unused"
    for u in uses:
        if u[0] == "stmt":
            s = u[2]
            # moves/reborrows into another local: follow
            if s["rv"]["k"] in ("use", "ref", "cast") and not s["dst"]["proj"]:
                ok, why = chain_ok(f, s["dst"]["l"], depth + 1)
                if not ok:
                    return ok, why
                continue
            return False, "stored at line %s" % s.get("line")
        if u[0] == "switch":
            return False, "switched on"
        t = u[2]
        name = callee(t)
        dname = mir.callee_def(t)
        if any(name.startswith(s) or dname.startswith(s) for s in ORDER_INSENSITIVE_SINKS):
            continue
        if dname.startswith("core::iter::traits::iterator::Iterator::collect") or \
                dname.startswith("core::iter::traits::collect::FromIterator::from_iter"):
            gargs = t["f"].get("gargs", [])
            target = gargs[1] if len(gargs) > 1 else (gargs[0] if gargs else "")
            if ORDERED_COLLECT.search(target):
                continue
            return False, "collected into an ordered sequence (%s) at line %s" % (target, t.get("line"))
        if any(dname.startswith(s) or name.startswith(s) for s in ORDER_PRESERVING_ADAPTORS) or \
                "as core::iter::traits::collect::IntoIterator>::into_iter" in name:
            if t["dst"]["proj"]:
                return False, "adaptor result stored"
            ok, why = chain_ok(f, t["dst"]["l"], depth + 1)
            if not ok:
                return ok, why
            continue
        return False, "consumed by %s at line %s" % (mir.short(name), t.get("line"))
    return True, "order-insensitive consumers only"


def r1_hash_order(F, res, fns, rid="C17-R1"):
    res.rule(rid, "no iteration over a hash collection can influence output order (every hash-collection "
             "use in the compiler crates is classified: lookup-only or order-insensitive consumer)", floor=1)
    n_lookup = 0
    for f in fns:
        hash_locals = [i for i, l in enumerate(f.d["locals"]) if re.search(r"\bHash(Map|Set)<", l["ty"])]
        sites = hash_iteration_sites(f)
        if hash_locals and not sites:
            n_lookup += 1
            res.ok(rid, "%s/lookup-only" % f.path, f.loc(),
                   "hash collections are used for lookup only (no iterator over them is created)")
        for (bb, t, name, l) in sites:
            if l is not None:
                ok, why = chain_ok(f, l)
            else:
                ok, why = False, "order-dependent API"
            key = "%s/%s" % (f.path, strip_generics(mir.short(name)))
            if ok:
                res.ok(rid, key, "%s:%s" % (f.file, t.get("line")), why)
            else:
                res.violation(rid, key,
                              "iteration over a hash collection (%s) in %s: %s - hash order differs between "
                              "processes and can reach the generated files" % (mir.short(name), f.path, why),
                              "%s:%s" % (f.file, t.get("line")))
    return n_lookup


# ---------------------------------------------------------------- R2 / R3

def r2_ambient(F, res, fns, rid="C17-R2"):
    res.rule(rid, "no clock/random/pid/thread/environment input in the compiler outside the listed "
             "path-only and trace-only readers", floor=2)
    for f in fns:
        for bb, t in f.calls():
            name = callee(t)
            for rx, what in AMBIENT:
                if not rx.search(strip_generics(name)):
                    continue
                root = f.path.split("::{closure")[0]
                key = "%s/%s" % (root, mir.short(name))
                if what == "environment" and root in ENV_ALLOWED:
                    res.ok(rid, key, "%s:%s" % (f.file, t.get("line")), ENV_ALLOWED[root])
                elif what == "environment" and mir.is_log(t):
                    res.ok(rid, key + "/log", "%s:%s" % (f.file, t.get("line")), "log!/logn! trace guard")
                elif what == "environment" and root == "rcomp::main":
                    res.ok(rid, key, "%s:%s" % (f.file, t.get("line")), "command line of rcomp")
                else:
                    res.violation(rid, key, "ambient input (%s) %s read in %s" % (what, mir.short(name), f.path),
                                  "%s:%s" % (f.file, t.get("line")))


def r3_statics(F, res, rid="C17-R3"):
    res.rule(rid, "no mutable or interior-mutable static carries state between grammars "
             "(generated Lazy<Regex> recognisers and clap's default-value cells excepted)", floor=1)
    for c in F.crates:
        if c.name not in COMPILER_CRATES or c.test:
            continue
        for s in c.statics:
            key = s["path"]
            where = "%s:%s" % (s["loc"]["file"], s["loc"]["line"])
            if not s["mut"] and s["freeze"]:
                res.ok(rid, key, where, "immutable")
            elif not s["mut"] and ("once_cell::sync::Lazy<regex::" in s["ty"] or "TokenRecognizer" in s["ty"]
                                   or "Lazy<fancy_regex::" in s["ty"]):
                res.ok(rid, key, where, "lazily compiled recogniser regexes (write-once, content fixed by source)")
            elif not s["mut"] and s["path"].endswith("::DEFAULT_VALUE") and "OnceLock<alloc::string::String>" in s["ty"]:
                res.ok(rid, key, where, "clap derive default-value cell (write-once)")
            else:
                res.violation(rid, key, "static %s: %s is %s" % (
                    s["path"], s["ty"], "mutable" if s["mut"] else "interior-mutable"), where)
    # Settings is never written outside its own builder methods
    rid2 = res.rule("C17-R3b", "fields of Settings are assigned only inside impl Settings / Default", floor=20)
    for f in fns_of(F):
        for i, j, s in f.stmts():
            for e in s["dst"]["proj"]:
                if e["k"] == "field" and e.get("adt") == "rustemo_compiler::settings::Settings":
                    root = f.path.split("::{closure")[0]
                    key = "%s/%s" % (root, e["name"])
                    if root.startswith("rustemo_compiler::settings::Settings::") or \
                            root == "<rustemo_compiler::settings::Settings as core::default::Default>::default" or \
                            root == "<rustemo_compiler::settings::Settings as core::clone::Clone>::clone":
                        res.ok(rid2, key, "%s:%s" % (f.file, s.get("line")))
                    else:
                        res.violation(rid2, key, "Settings.%s is assigned outside impl Settings, in %s" % (
                            e["name"], f.path), "%s:%s" % (f.file, s.get("line")))
    # process_* take &self
    rid3 = res.rule("C17-R3c", "process_grammar / process_dir take Settings by shared reference", floor=2)
    for nm in ("process_grammar", "process_dir"):
        f = F.fn("rustemo_compiler::settings::Settings::" + nm)
        if f is None:
            res.anchor_lost(rid3, "Settings::%s not found" % nm)
            continue
        ty = f.local_ty(1)
        if ty.startswith("&") and not ty.startswith("&mut"):
            res.ok(rid3, nm, f.loc(), ty)
        else:
            res.violation(rid3, nm, "Settings::%s takes self as %s" % (nm, ty), f.loc())


# ---------------------------------------------------------------- R5 CLI wiring

CLI_TABLE = {
    # cli field -> (setter, polarity)   (only entries that differ from "same name, positive")
    "noactions": ("actions", -1),
    "no_shifts_over_empty": ("prefer_shifts_over_empty", -1),
    "no_skip_ws": ("skip_ws", -1),
    "outdir_root": ("out_dir_root", +1),
    "outdir_actions_root": ("out_dir_actions_root", +1),
}
CLI_UNUSED = {"verbosity": "declared, never read (recorded, not a wiring error)"}
CLI_SPECIAL = {"grammar_file_or_dir": ("process_grammar", "root_dir")}
SETTINGS = "rustemo_compiler::settings::Settings::"


def strip_not(t):
    n = 0
    while isinstance(t, tuple) and t[0] == "un" and t[1] == "Not":
        n += 1
        t = t[2]
    return t, n


def cli_field_of(t):
    """('field', cli, F, 'rcomp::Cli') possibly under (.. as Some).0"""
    if isinstance(t, tuple) and t[0] == "vfield" and t[2] == "Some":
        t = t[1]
    if isinstance(t, tuple) and t[0] == "field" and t[3] == "rcomp::Cli":
        return t[2]
    return None


def setter_effects(F):
    """For every `Settings::<name>(self, ..) -> Settings`: per path, the stores
    into fields of self. Returns {setter: [(cond, {field: value term})]}."""
    out = {}
    for f in F.find(r"^rustemo_compiler::settings::Settings::[a-z_]+$"):
        if f.d.get("ret") != "rustemo_compiler::settings::Settings" or f.argc < 1:
            continue
        if f.local_ty(1) != "rustemo_compiler::settings::Settings":
            continue
        rows = []
        for p in Sim(f, F).run():
            if p.end not in ("return",):
                rows.append((p.cond, None, p.end))
                continue
            stores = {}
            for e in p.events:
                if e[0] == "store" and isinstance(e[1], tuple) and e[1][0] == "field" \
                        and e[1][3] == "rustemo_compiler::settings::Settings":
                    stores[e[1][2]] = e[2]
            delegates = [mir.short(e[1]) for e in p.events if e[0] == "call" and e[1].startswith(SETTINGS)]
            rows.append((p.cond, stores, delegates))
        out[f.path[len(SETTINGS):]] = (f, rows)
    return out


def norm_val(v):
    return "|".join(sorted(v)) if isinstance(v, frozenset) else v


def tables_equal(exp, got):
    """Two condition/outcome tables describe the same function of their atoms (row order, atom order, merged or split
    rows do not matter): every valuation of the atoms is answered with the same outcome by both."""
    import itertools
    def alts(v):
        return set(v.split("|")) if isinstance(v, str) else {v}
    dom = {}
    for rows in (exp, got):
        for r in rows:
            for a, v in r["cond"]:
                dom.setdefault(a, set()).update(alts(v))
    for a, vs in dom.items():
        if vs <= {0, 1}:
            vs.update({0, 1})
        elif len(vs) < 2:
            # an enum atom of which only one variant is ever named: "any other variant" is a value of its own
            vs.add("<other>")
    atoms = sorted(dom)
    if len(atoms) > 12:
        return sorted(exp, key=lambda r: json.dumps(r, sort_keys=True)) == sorted(got, key=lambda r: json.dumps(r, sort_keys=True))
    def outcome(rows, val):
        outs = set()
        for r in rows:
            if all(val[a] in alts(v) for a, v in r["cond"]):
                outs.add(json.dumps({k: v for k, v in r.items() if k != "cond"}, sort_keys=True))
        return outs
    for combo in itertools.product(*[sorted(dom[a], key=str) for a in atoms]):
        val = dict(zip(atoms, combo))
        if outcome(exp, val) != outcome(got, val):
            return False
    return True


def setter_tables(F):
    """{setter: (fn, rows)}; a row is {"cond": [[term, value]...], "side": {field: value}, "delegates": [...]}
    or {"cond": [...], "end": "panic"}; `side` excludes the setter's own field."""
    out = {}
    for name, (f, rows) in setter_effects(F).items():
        trs = []
        for cond, stores, extra in rows:
            c = sorted([fmt(t), norm_val(v)] for t, v in cond)
            if stores is None:
                trs.append({"cond": c, "end": extra})
            else:
                trs.append({"cond": c, "side": {k: val_repr(v) for k, v in sorted(stores.items()) if k != name},
                            "delegates": extra})
        trs.sort(key=lambda r: json.dumps(r, sort_keys=True))
        out[name] = (f, trs)
    return out


def load_table(name):
    return json.load(open(os.path.join(os.path.dirname(__file__), "tables", name)))


def val_repr(t):
    if t[0] == "const":
        return t[1]
    if t[0] == "agg":
        return t[1].split("::", 1)[1] if t[1].startswith("rustemo_compiler::") else t[1]
    if t[0] == "param":
        return "param"
    return fmt(t)


def r5_cli(F, res):
    rid = res.rule("C17-R5", "every rcomp Cli field reaches the Settings setter of its meaning with the right "
                   "polarity, exactly once; order of setter calls relative to setters with side effects", floor=20)
    cli = F.adts.get("rcomp::Cli")
    main = F.fn("rcomp::main")
    if cli is None or main is None:
        res.anchor_lost(rid, "rcomp::Cli or rcomp::main not found")
        return
    fields = [fl["name"] for fl in cli["variants"][0]["fields"]]
    paths = Sim(main, F).run()
    effects = setter_effects(F)
    # per path: ordered setter calls
    used = {}          # field -> set of (setter, polarity)
    order_unc = None   # setters on every path, in order
    all_calls = []
    for p in paths:
        seq = []
        per_path_fields = {}
        for e in p.events:
            if e[0] != "call" or not e[1].startswith(SETTINGS):
                continue
            setter = e[1][len(SETTINGS):]
            args = e[2]
            fld = None
            pol = +1
            if len(args) > 1:
                base, nots = strip_not(args[1])
                fld = cli_field_of(base)
                pol = -1 if nots % 2 else +1
                if fld is None and setter not in ("new",):
                    # argument does not come straight from a Cli field
                    cf = [cli_field_of(x) for x in walk(args[1])]
                    cf = [c for c in cf if c]
                    fld = cf[0] if cf else None
                    if fld is None:
                        res.violation(rid, "main/%s/arg" % setter,
                                      "rcomp passes %s to Settings::%s, which is not a command-line field" % (
                                          fmt(args[1]), setter), "%s:%s" % (main.file, e[3]))
            seq.append((setter, fld, pol, e[3]))
            if fld:
                per_path_fields.setdefault(fld, []).append(setter)
                used.setdefault(fld, set()).add((setter, pol))
        for fld, ss in per_path_fields.items():
            if len(ss) > 1:
                res.violation(rid, "main/%s/twice" % fld, "Cli.%s is passed to %d setters on one path: %s" % (
                    fld, len(ss), ss), main.loc())
        names = [s[0] for s in seq]
        order_unc = names if order_unc is None else [n for n in order_unc if n in names]
        all_calls.append(seq)
    # field table
    for fld in fields:
        if fld in CLI_UNUSED:
            if fld in used:
                res.violation(rid, "field/%s" % fld, "Cli.%s was recorded as unused but now feeds %s" % (
                    fld, sorted(used[fld])), main.loc())
            else:
                res.ok(rid, "field/%s" % fld, main.loc(), CLI_UNUSED[fld])
            continue
        if fld in CLI_SPECIAL:
            got = {s for (s, _) in used.get(fld, set())}
            if got == set(CLI_SPECIAL[fld]):
                res.ok(rid, "field/%s" % fld, main.loc(), "-> %s" % sorted(got))
            else:
                res.violation(rid, "field/%s" % fld, "Cli.%s must feed %s, feeds %s" % (
                    fld, CLI_SPECIAL[fld], sorted(got)), main.loc())
            continue
        exp = CLI_TABLE.get(fld)
        if exp is None:
            # default rule: same name, positive; `no_x`/`nox` -> x, negative
            if fld.startswith("no_") and fld[3:] in effects:
                exp = (fld[3:], -1)
            elif fld.startswith("no") and fld[2:] in effects and fld not in effects:
                exp = (fld[2:], -1)
            else:
                exp = (fld, +1)
        got = used.get(fld, set())
        if got == {exp}:
            res.ok(rid, "field/%s" % fld, main.loc(), "Cli.%s -> Settings::%s(%s)" % (
                fld, exp[0], "+" if exp[1] > 0 else "negated"))
        elif not got:
            res.violation(rid, "field/%s" % fld, "Cli.%s never reaches a Settings setter (expected Settings::%s)" % (
                fld, exp[0]), main.loc())
        else:
            res.violation(rid, "field/%s" % fld,
                          "Cli.%s is wired to %s, expected Settings::%s with %s polarity" % (
                              fld, sorted(got), exp[0], "positive" if exp[1] > 0 else "negative"), main.loc())

    # R9: a command line without options equals an API call without setters. A `bool` Cli field is a clap flag
    # (absent = false); when it is passed to its setter on every path the flagless CLI stores (false, or true when
    # negated) where the API keeps the constant of `Settings::default()`.
    rid9 = res.rule("C17-R9", "flagless command line = API defaults: every bool flag that rcomp always passes to its "
                    "setter has, when absent, the value Settings::default() gives the field", floor=8)
    dflt = F.fn("<rustemo_compiler::settings::Settings as core::default::Default>::default")
    consts = None
    if dflt is not None:
        for _i, _j, s in dflt.stmts():
            rv = s["rv"]
            if rv.get("k") == "agg" and rv.get("adt") == "rustemo_compiler::settings::Settings":
                consts = {n: (o.get("int") if o.get("k") == "const" and o.get("ty") == "bool" else None)
                          for n, o in zip(rv["names"], rv["ops"])}
    if consts is None:
        res.anchor_lost(rid9, "the struct literal of <Settings as Default>::default not found")
    else:
        ftypes = {fl["name"]: fl.get("ty") for fl in cli["variants"][0]["fields"]}
        for fld in fields:
            if ftypes.get(fld) != "bool":
                continue
            for setter, pol in sorted(used.get(fld, set())):
                if setter not in (order_unc or []) or setter not in consts:
                    continue
                api = consts[setter]
                if api is None:
                    res.undecided(rid9, "Settings::default() does not give `%s` a constant" % setter, dflt.loc())
                    continue
                cli_absent = 0 if pol > 0 else 1
                if cli_absent == api:
                    res.ok(rid9, "default/%s" % setter, dflt.loc(), "absent --%s stores %s = default" % (
                        fld, bool(api)))
                else:
                    res.violation(rid9, "default/%s" % setter,
                                  "rcomp without --%s calls Settings::%s(%s) while Settings::default() has %s: the "
                                  "same grammar with no options is processed differently through the CLI and the "
                                  "API" % (fld.replace("_", "-"), setter, str(bool(cli_absent)).lower(),
                                           str(bool(api)).lower()), dflt.loc())

    # setters: own field := parameter on every returning path
    rid6 = res.rule("C17-R5b", "every Settings setter stores its parameter into the field of its own name; "
                    "side effects equal the documented table", floor=20)
    spec = load_table("settings_setters.json")
    tables = setter_tables(F)
    side = {}
    for name, (f, rows) in sorted(effects.items()):
        if f.argc < 2:
            # no-parameter methods (in_source_tree, actions_in_source_tree): side-effect table only
            pass
        table_rows = []
        for cond, stores, extra in rows:
            c = sorted((fmt(t), norm_val(v)) for t, v in cond)
            if stores is None:
                table_rows.append({"cond": c, "end": extra})
                continue
            st = {k: val_repr(v) for k, v in sorted(stores.items())}
            table_rows.append({"cond": c, "stores": st, "delegates": extra})
            if f.argc >= 2:
                pname = f.var_name(2)
                own = stores.get(name)
                def dep(t):
                    return mir.contains(t, lambda x: x == ("param", pname))
                if own is None:
                    res.violation(rid6, "setter/%s/own" % name,
                                  "Settings::%s does not store into field `%s` on a returning path (stores: %s)" % (
                                      name, name, sorted(stores)), f.loc())
                elif not (dep(own) or any(dep(t) for t, _ in cond)):
                    res.violation(rid6, "setter/%s/own" % name,
                                  "Settings::%s stores %s into `%s`, which does not depend on its parameter `%s`" % (
                                      name, fmt(own), name, pname), f.loc())
                else:
                    res.ok(rid6, "setter/%s/own" % name, f.loc(), "%s := %s" % (name, fmt(own)))
                # polarity: a bool parameter must arrive un-negated
                if own is not None and isinstance(own, tuple) and own[0] == "un" and own[1] == "Not":
                    res.violation(rid6, "setter/%s/polarity" % name,
                                  "Settings::%s stores the negation of its parameter" % name, f.loc())
        side[name] = table_rows
        got_side = tables[name][1]
        exp = spec.get(name)
        if exp is None:
            trivial = all(r.get("side") == {} and not r.get("delegates") for r in got_side)
            if trivial:
                res.ok(rid6, "setter/%s/side" % name, f.loc(), "no side effects")
            else:
                res.violation(rid6, "setter/%s/side" % name,
                              "Settings::%s has side effects that are not in the documented table: %s" % (
                                  name, json.dumps(got_side)), f.loc())
        else:
            exp_sorted = sorted(exp, key=lambda r: json.dumps(r, sort_keys=True))
            if tables_equal(exp_sorted, got_side):
                res.ok(rid6, "setter/%s/side" % name, f.loc(), json.dumps(got_side))
            else:
                res.violation(rid6, "setter/%s/side" % name,
                              "Settings::%s side-effect table differs from the documented one" % name, f.loc(),
                              {"expected": exp_sorted, "extracted": got_side})
    for name in spec:
        if name not in effects:
            res.anchor_lost(rid6, "Settings::%s (in the documented table) not found" % name)

    # order: CLI passes defaults unconditionally, so a setter S with side
    # effects on field g must come after the unconditional setter of g and
    # before the conditional (explicitly given) setter of g
    rid7 = res.rule("C17-R5c", "setter order in rcomp makes the CLI equivalent to the API "
                    "(unconditional setters before overriding presets, explicit optional ones after)", floor=3)
    side_fields = {}
    for name, rows in side.items():
        fs = set()
        for r in rows:
            fs |= {k for k in r.get("stores", {}) if k != name and k != "force_explicit"}
        if fs:
            side_fields[name] = fs
    for seq in all_calls[:1] + all_calls[-1:] + all_calls:
        names = [s[0] for s in seq]
        for S, fs in side_fields.items():
            if S not in names:
                continue
            iS = names.index(S)
            for g in fs:
                if g not in names:
                    continue
                ig = names.index(g)
                uncond = g in order_unc
                key = "order/%s/%s" % (S, g)
                if uncond and ig > iS:
                    res.violation(rid7, key,
                                  "rcomp calls Settings::%s (always, with the command-line default) after "
                                  "Settings::%s, which presets `%s`: the preset is overwritten, unlike "
                                  "Settings::new().%s(..) through the API" % (g, S, g, S), main.loc())
                elif (not uncond) and ig < iS:
                    res.violation(rid7, key,
                                  "rcomp calls the explicit optional Settings::%s before Settings::%s, which "
                                  "overrides `%s`: the user's explicit choice is lost" % (g, S, g), main.loc())
                else:
                    res.ok(rid7, key, main.loc(), "%s %s %s" % (g, "before" if ig < iS else "after", S))
    return side


def cond_key(c):
    return [[a, b] for a, b in c]


# ---------------------------------------------------------------- R6 consumers

def r6_consumers(F, res):
    rid = res.rule("C17-R6", "every Settings field is read by at least one consumer outside settings.rs "
                   "(an option that nothing reads is silently ignored)", floor=15)
    readers = {}
    for f in fns_of(F):
        root = f.path.split("::{closure")[0]
        def note(p):
            for e in p["proj"]:
                if e["k"] == "field" and e.get("adt") == "rustemo_compiler::settings::Settings":
                    readers.setdefault(e["name"], set()).add(root)
        for i, j, s in f.stmts():
            rv = s["rv"]
            for key in ("op", "l", "r", "x"):
                o = rv.get(key)
                if isinstance(o, dict) and o.get("k") in ("copy", "move"):
                    note(o["p"])
            if "p" in rv:
                note(rv["p"])
            for o in rv.get("ops", []):
                if o.get("k") in ("copy", "move"):
                    note(o["p"])
        for i, t in f.terms():
            if t["k"] == "call":
                for a in t["args"]:
                    if a.get("k") in ("copy", "move"):
                        note(a["p"])
            elif t["k"] == "switch" and t["op"].get("k") in ("copy", "move"):
                note(t["op"]["p"])
    adt = F.adts.get("rustemo_compiler::settings::Settings")
    if adt is None:
        res.anchor_lost(rid, "Settings ADT not found")
        return {}
    table = {}
    for fl in adt["variants"][0]["fields"]:
        name = fl["name"]
        rs = sorted(r for r in readers.get(name, ()) if not (
            r.startswith("<rustemo_compiler::settings::Settings as core::")))
        outside = [r for r in rs if not r.startswith("rustemo_compiler::settings::Settings::")
                   or r in ("rustemo_compiler::settings::Settings::process_grammar",
                            "rustemo_compiler::settings::Settings::process_dir",
                            "rustemo_compiler::settings::Settings::visit_dirs")]
        table[name] = rs
        if outside or name in ("force_explicit", "trace"):
            res.ok(rid, "field/%s" % name, None, "read by %s" % (outside or rs))
        else:
            res.violation(rid, "field/%s" % name, "Settings.%s is not read by any consumer" % name)
    return table


def r7_no_paths_in_output(ctx, res):
    """What is generated depends on the grammar and the settings, not on where the grammar lies or how its path was spelled:
    no generated file mentions a directory of the build it came from (CLI with a relative path, CLI with an absolute path and
    the API from a build script must write the same bytes)."""
    from . import gen, witness
    rid = res.rule("C17-R7", "no generated parser or actions file contains a file-system path of the build that produced it (the grammar's "
                   "directory, the scratch copy, the crate directory)", floor=40)
    sets = [gen.load_set(ctx.dir("gen-functions"))]
    try:
        sets.append([g for _e, g in witness.load(ctx)[0] if g is not None])
    except Exception:      # noqa - the witness set is an extra
        pass
    rx = re.compile(r"(/var/tmp/|/tmp/|/repo/|/home/|/root/|[A-Za-z]:\\\\)[^\s\"']*")
    for gs in sets:
        for g in gs:
            name = (g.name or "").replace("target:", "")
            for path in (g.parser_path, g.actions_path):
                if not path or not os.path.exists(path):
                    continue
                txt = open(path, errors="replace").read()
                m = rx.search(txt)
                if m:
                    res.violation(rid, "path-in-generated-file", "%s: the generated file contains the path `%s`: the bytes written depend "
                                  "on where the grammar lies and how its path was given" % (name, m.group(0)[:80]), g.entry.get("parser_file_rel"))
                    return
            res.ok(rid, name, g.entry.get("parser_file_rel"))


def r8_order_sensitive_setters(F, res):
    """`the same through CLI and API`: the CLI applies its options in ONE fixed order; the API in whatever order the caller
    writes. A setter that also overwrites fields other setters own makes the outcome depend on that order, and the CLI's
    fixed order then silently discards what the user gave (`rcomp -p glr --prefer-shifts`, `-p glr -t lalr`) (D43)."""
    rid = res.rule("C17-R8", "no Settings setter overwrites a field that another setter owns (the builder API is order-independent, so "
                   "the CLI's fixed order of calls cannot discard an option)", floor=1)
    setters = {}
    for path, f in F.fns.items():
        if f.crate != "rustemo_compiler" or not f.has_body() or "::settings::Settings::" not in path or "{closure" in path:
            continue
        name = path.rsplit("::", 1)[-1]
        stored = set()
        for _, _, st in f.stmts():
            d = st.get("dst") if st.get("k") == "assign" else None
            if d and d.get("proj"):
                for pr in d["proj"]:
                    if pr.get("k") == "field" and str(pr.get("adt", "")).endswith("settings::Settings"):
                        stored.add(pr.get("name"))
        if stored:
            setters[name] = stored
    own = {n: {n} & fs for n, fs in setters.items()}
    bad = {n: sorted(fs - {n}) for n, fs in setters.items() if n in fs and (fs - {n}) and any(x in setters for x in (fs - {n}))}
    if not setters:
        res.anchor_lost(rid, "no Settings setter with a field store found")
    elif bad:
        n = sorted(bad)[0]
        res.violation(rid, "setter-overwrites/" + n, "Settings::%s also overwrites %s, which have setters of their own: the outcome "
                      "depends on the order of calls; rcomp calls it after them, so `-p glr --prefer-shifts` and `-p glr -t lalr` are "
                      "silently the same as `-p glr`, while the API honours them when called afterwards" % (n, bad[n]),
                      "rustemo-compiler/src/settings.rs")
    else:
        res.ok(rid, "setter-overwrites", None, "%d setters, each stores its own field only" % len(setters))


def r10_whole_file(F, res):
    """The bytes of a generated file are the bytes the generator computed: every writer replaces the file as a whole
    (std::fs::write / File::create truncate). A writer that opens the existing file for update (OpenOptions without
    truncate) leaves the tail of a longer, older file in place - the same grammar and settings then give different bytes
    depending on what was generated there before."""
    rid = res.rule("C17-R10", "generated files are written whole: every file writer of the compiler is std::fs::write or File::create; none "
                   "opens the output for update", floor=2)
    n = 0
    for f in F.fns.values():
        if f.crate != "rustemo_compiler" or not f.has_body() or "::tests::" in f.path or f.d.get("inlined_into"):
            continue
        trunc = any((callee(t) or "").endswith("OpenOptions::truncate") and len(t.get("args", [])) > 1 and
                    t["args"][1].get("k") == "const" and t["args"][1].get("int") == 1 for _, t in f.calls())
        setlen = any((callee(t) or "").endswith("File::set_len") for _, t in f.calls())
        for b, t in f.calls():
            nm = callee(t) or ""
            where = "%s:%s" % (f.file, t.get("line"))
            root = f.path.split("::{closure")[0].rsplit("::", 1)[-1]
            if nm.startswith("std::fs::write") or nm.startswith("std::fs::File::create"):
                n += 1
                res.ok(rid, "writer/%s" % root, where, mir.short(nm))
            elif nm.endswith("OpenOptions::open") or nm.startswith("std::fs::File::options"):
                n += 1
                if trunc or setlen:
                    res.ok(rid, "writer/%s" % root, where, "OpenOptions with truncate/set_len")
                else:
                    res.violation(rid, "writer/%s/update-in-place" % root, "%s opens a file through OpenOptions without truncating it (no "
                                  "truncate(true), no set_len): what is left of a longer file that was there before stays behind "
                                  "the new content" % f.path.split("::{closure")[0], where)
    if n == 0:
        res.anchor_lost(rid, "no file writer found in rustemo_compiler")


def run(ctx, res):
    F = ctx.facts("core")
    r10_whole_file(F, res)
    r8_order_sensitive_setters(F, res)
    fns = fns_of(F)
    n_lookup = r1_hash_order(F, res, fns)
    r2_ambient(F, res, fns)
    r3_statics(F, res)
    side = r5_cli(F, res)
    consumers = r6_consumers(F, res)
    r7_no_paths_in_output(ctx, res)
    from . import controls
    controls.run(ctx, res, "C17")
    res.extra["functions_analysed"] = len(fns)
    res.extra["crates"] = list(COMPILER_CRATES)
    res.extra["hash_lookup_only_functions"] = n_lookup
    res.extra["settings_consumers"] = consumers
    res.extra["exhaustive"] = True
    res.explanation = (
        "Static analysis of MIR facts of rustemo_compiler and rcomp (all %d non-test function bodies). Decides: "
        "(R1) no iterator over a hash collection is created anywhere in the compiler unless it feeds only "
        "order-insensitive consumers; (R2) no clock/random/pid/thread input, environment reads only in the listed "
        "path/trace readers; (R3) no mutable/interior-mutable static besides write-once recogniser/clap cells, "
        "Settings fields assigned only by its own builder methods, process_* take &self; (R5) the complete "
        "Cli-field -> Settings-setter table with polarity, each setter stores its own parameter, setter side "
        "effects equal the documented table, and the order of calls in rcomp::main makes CLI and API agree; "
        "(R6) every Settings field has a consumer. Not decided: byte-stability of prettyplease/syn (third party), "
        "file-system enumeration order (each grammar writes its own files)." % len(fns))
    res.assumptions = ["prettyplease::unparse and syn are deterministic",
                       "std collections other than HashMap/HashSet iterate in a content-determined order"]
