"""May-panic census (family F7): every panic-capable construct in the functions
reachable from the entry points is enumerated from MIR, mechanically discharged
where a local guard dominates it, and otherwise must match a row of a
hand-audited triage table."""
import json
import os
import re

from . import mir
from .mir import TermBuilder, callee, fmt, strip_generics

PANIC_CALLS = [
    # (regex on generic-stripped callee, kind, receiver arg index or None)
    (r"^core::option::Option::(unwrap|expect)$", "unwrap", 0),
    (r"^core::result::Result::(unwrap|expect|unwrap_err|expect_err)$", "unwrap", 0),
    (r"^core::panicking::(panic|panic_fmt|panic_explicit|panic_display|unreachable_display|panic_nounwind|panic_str_2015)$", "panic", None),
    (r"^core::panicking::assert_failed", "assert", None),
    (r"^std::rt::(begin_panic|panic_fmt)", "panic", None),
    (r"^core::panicking::panic_const::", "panic-const", None),
    (r"^core::cell::RefCell::(borrow|borrow_mut)$", "refcell", 0),
    (r"^alloc::vec::Vec::(remove|insert|swap_remove|split_off|drain|truncate_front)$", "vec-op", 0),
    (r"^core::slice::<impl \[T\]>::(split_at|split_at_mut|copy_from_slice|swap|chunks|windows|rotate_left|rotate_right)$", "slice-op", 0),
    (r"^core::str::<impl str>::(split_at|split_at_mut)$", "str-op", 0),
    (r"^alloc::string::String::(remove|insert|insert_str|truncate|split_off|drain|replace_range)$", "string-op", 0),
    (r"^core::iter::traits::iterator::Iterator::step_by$", "step_by", 0),
    (r"^std::collections::hash::map::HashMap.*Index.*::index$", "map-index", 0),
    (r"^<alloc::collections::btree::map::BTreeMap as core::ops::index::Index>::index$", "map-index", 0),
    (r"^proc_macro2::Ident::new$", "ident-new", 0),
    (r"^quote::__private::mk_ident$", "ident-new", 0),
    (r"^syn::parse_quote::parse$", "parse-quote", 0),
    (r"^core::unicode|^core::char::methods::<impl char>::from_digit$", "char", 0),
]
INDEX_CALL = re.compile(r"(as core::ops::index::Index(Mut)?(<[^>]*>)?>::index(_mut)?$)|(::traits::<impl core::ops::index::Index(Mut)?<I> for str>::index(_mut)?$)")
_PC = [(re.compile(r), k, a) for r, k, a in PANIC_CALLS]


def classify_call(name):
    sn = strip_generics(name)
    for rx, kind, arg in _PC:
        if rx.search(sn):
            return kind, arg
    if INDEX_CALL.search(name) or sn.endswith("core::ops::index::Index::index") or sn.endswith("core::ops::index::IndexMut::index_mut"):
        return "index", 0
    return None, None


def short_term(t, n=70):
    s = fmt(t)
    s = re.sub(r"<[^<>]*(?:<[^<>]*>[^<>]*)*>", "", s)
    s = s.replace("core::iter::traits::iterator::", "").replace("core::", "").replace("alloc::", "")
    return s[:n]


class Site:
    __slots__ = ("fn", "bb", "kind", "producer", "line", "mac", "callee", "recv", "detail", "discharge", "alias")

    def __init__(self, fn, bb, kind, producer, line, mac, callee_name=None, recv=None, detail=None):
        self.fn = fn
        self.bb = bb
        self.kind = kind
        self.producer = producer
        self.line = line
        self.mac = mac
        self.callee = callee_name
        self.recv = recv
        self.detail = detail
        self.discharge = None
        self.alias = None     # (kind, producer) of an equivalent spelling of the same hazard (match-unwrap, first().unwrap())

    facts = None
    owner = None   # set by run_census: facts.owner_root (sites of an inlined helper's closures belong to the caller)

    def root(self):
        p = self.fn.path
        if Site.owner is not None:
            p = Site.owner(p)
        return strip_generics(p.split("::{closure")[0])

    def key(self, root=None):
        return norm_key("%s/%s/%s" % (root or self.root(), self.kind, self.producer))

    def roots(self):
        """the function the site is accounted to, then - for a helper shared by several callers - each of them"""
        out = [self.root()]
        facts = Site.facts
        if facts is not None:
            todo = [self.fn.path.split("::{closure")[0]]
            seen = set()
            while todo:
                h = todo.pop()
                if h in seen:
                    continue
                seen.add(h)
                for c in (facts.inlined.get(h) or []):
                    r = strip_generics(c.split("::{closure")[0])
                    if r not in out:
                        out.append(r)
                    todo.append(c.split("::{closure")[0])
        return out

    def where(self):
        return "%s:%s" % (self.fn.file, self.line)


_WRAP = re.compile(r"\b(?:upvar|param|var)\(([^()]*)\)")


def norm_key(k):
    """`upvar(x)`, `param(x)` and `var(x)` name the same thing wherever the site sits (closure or body)"""
    prev = None
    while prev != k:
        prev = k
        k = _WRAP.sub(r"\1", k)
    return k


def macro_kind(mac):
    for m in mac or []:
        mm = m.strip("`")
        for k in ("unreachable!", "todo!", "unimplemented!", "assert_eq!", "assert_ne!", "assert!", "debug_assert!",
                  "debug_assert_eq!", "panic!", "format_ident!", "parse_quote!", "log!", "logn!"):
            if mm.startswith(k):
                return k
    return None


def sites_of(f, facts):
    """Panic-capable sites of one function body."""
    out = []
    tb = TermBuilder(f, facts)
    for b, t in f.terms():
        if "{closure#" in (f.blocks[b].get("inl_from") or ""):
            # spliced copy of a closure body: the closure is censused as a function of its own
            continue
        if t["k"] == "assert":
            kind = t.get("kind", "")
            if kind == "Overflow(Add)":
                k = "overflow-add"
            elif kind.startswith("Overflow"):
                k = "overflow-" + kind[9:-1].lower()
            elif kind == "BoundsCheck":
                k = "bounds"
            elif kind in ("DivisionByZero", "RemainderByZero"):
                k = "div-zero"
            else:
                k = "assert-" + kind
            if k == "bounds":
                prod = short_term(tb.operand(t["index"])) + " in " + short_term(_len_base(tb, t["len"]), 50)
            elif k.startswith("overflow"):
                prod = short_term(tb.operand(t["l"]), 45) + "," + short_term(tb.operand(t["r"]), 30)
            else:
                prod = ""
            out.append(Site(f, b, k, prod, t.get("line"), t.get("mac"), detail=t))
        elif t["k"] == "call":
            name = callee(t)
            kind, argi = classify_call(name)
            if kind is None:
                continue
            mk = macro_kind(t.get("mac"))
            recv = None
            prod = ""
            alias = None
            if kind in ("panic", "assert", "panic-const"):
                kind = mk.rstrip("!") if mk else kind
                prod = _panic_guard(f, b, tb)
                # `match x { Some(v) => v, None => unreachable!()/panic!() }` is `x.unwrap()` spelled out: same hazard, same key
                gt = _panic_guard_term(f, b, tb)
                if kind in ("unreachable", "panic") and isinstance(gt, tuple) and gt[0] == "discr" and len(gt) > 2 and \
                        str(gt[2]) in ("core::option::Option", "core::result::Result"):
                    alias = ("unwrap", short_term(gt[1]))
            elif argi is not None and t["args"]:
                recv = tb.operand(t["args"][argi])
                prod = short_term(recv)
                if kind == "unwrap" and isinstance(recv, tuple) and recv[0] == "call" and recv[2] and \
                        mir.strip_generics(recv[1]).rsplit("::", 1)[-1] in ("first", "last", "front", "back", "first_mut", "last_mut") and \
                        ("slice" in recv[1] or "Vec" in recv[1] or "VecDeque" in recv[1]):
                    # c.first().unwrap() is c[0] spelled out (c.last().unwrap() is c[len-1]): the hazard is the same index
                    which = mir.strip_generics(recv[1]).rsplit("::", 1)[-1]
                    alias = ("index", short_term(recv[2][0]) + ("[0]" if which.startswith(("first", "front")) else "[last]"))
                if kind == "index" and len(t["args"]) > 1:
                    ix = tb.operand(t["args"][1])
                    prod += "[" + short_term(ix, 40) + "]"
                    if ix == ("const", 0):
                        # c[0] is c.first().unwrap() spelled out
                        alias = ("unwrap", short_term(("call", "core::slice::<impl [T]>::first", (recv,))))
            if mk in ("format_ident!", "parse_quote!") and kind in ("ident-new", "parse-quote"):
                pass
            st = Site(f, b, kind, prod, t.get("line"), t.get("mac"), name, recv, detail=t)
            st.alias = alias
            out.append(st)
    return out


def _panic_guard(f, b, tb):
    """The condition that leads into a panic block: operand of the nearest
    switch reached by walking single predecessors backwards (names the
    assertion: `Eq(len(actions), 1)`, `discr(x)` ...)."""
    seen = set()
    cur = b
    while cur not in seen:
        seen.add(cur)
        ps = f.pred(cur)
        if len(ps) != 1:
            return ""
        p = ps[0]
        t = f.blocks[p]["term"]
        if t["k"] == "switch":
            if mir.is_log(t):
                return ""
            return short_term(tb.operand(t["op"]), 60)
        cur = p
    return ""


def _panic_guard_term(f, b, tb):
    """like _panic_guard, the term itself"""
    seen = set()
    cur = b
    while cur not in seen:
        seen.add(cur)
        ps = f.pred(cur)
        if len(ps) != 1:
            return None
        p = ps[0]
        t = f.blocks[p]["term"]
        if t["k"] == "switch":
            if mir.is_log(t):
                return None
            return tb.operand(t["op"])
        cur = p
    return None


def _len_base(tb, op):
    t = tb.operand(op)
    # PtrMetadata / len of x
    if isinstance(t, tuple) and t[0] == "un":
        return t[2]
    if isinstance(t, tuple) and t[0] == "call" and t[2]:
        return t[2][0]
    return t


# ---------------------------------------------------------------- mechanical discharge

def dominating_guards(f, b, tb):
    """[(operand term, value, switch block)] for every switch edge that dominates block b."""
    res = []
    dom = f.dominators().get(b, set())
    for d in dom:
        t = f.blocks[d]["term"]
        if t["k"] != "switch":
            continue
        tmap = {}
        for v, bb in t["targets"]:
            tmap.setdefault(bb, []).append(v)
        succs = set(tmap) | {t["otherwise"]}
        for s in succs:
            if s == d:
                continue
            # the edge d->s dominates b when s dominates b and s's only predecessor is d
            if s in dom and f.pred(s) == [d] or (s == b and f.pred(s) == [d]):
                if s in tmap and s != t["otherwise"]:
                    vals = tuple(tmap[s])
                else:
                    vals = ("other", tuple(v for v, _ in t["targets"]))
                res.append((tb.operand(t["op"]), vals, d, t))
    return res


def closure_context(facts, f):
    """(parent fn, block that builds the closure, captured operand terms in the parent's vocabulary) for a closure that
    does not write to what it captured: a guard that dominates its creation also holds whenever it runs (captures by
    shared reference or by value cannot change while the closure is alive)."""
    if f.kind != "Closure" or facts is None:
        return None
    ppath = f.path.rsplit("::{closure#", 1)[0]
    cands = [facts.fns.get(c) for c in (getattr(facts, "inlined", {}) or {}).get(ppath, [])] + [facts.fns.get(ppath)]
    for b in f.blocks:
        for s in b["stmts"]:
            if s["k"] == "assign" and s["dst"]["proj"] and s["dst"]["l"] == 1:
                return None        # stores through the environment
    for par in cands:
        if par is None or not par.has_body():
            continue
        for bi, b in enumerate(par.blocks):
            for s in b["stmts"]:
                if s["k"] == "assign" and s["rv"]["k"] == "agg" and s["rv"].get("closure") == f.path:
                    ptb = TermBuilder(par, facts)
                    return par, bi, tuple(ptb.operand(o) for o in s["rv"]["ops"]), ptb
    return None


def all_guards(site, tb):
    gs = dominating_guards(site.fn, site.bb, tb)
    outer = getattr(tb, "outer", None)
    if outer:
        par, bi, _ops, ptb = outer
        gs = gs + dominating_guards(par, bi, ptb)
    return gs


def strip_not(t):
    n = 0
    while isinstance(t, tuple) and t[0] == "un" and t[1] == "Not":
        t = t[2]
        n += 1
    return t, n


def edge_true(vals, nots, is_bool=True):
    """is the (bool) operand true on this edge, accounting for Not()s"""
    if vals and vals[0] == "other":
        v = 0 if 1 in vals[1] else 1
    else:
        v = vals[0]
    if nots % 2:
        v = 1 - v if v in (0, 1) else v
    return v == 1


def try_discharge(site, tb):
    f = site.fn
    if site.kind == "unwrap" and site.recv is not None:
        r = site.recv
        # Q7: the value is a freshly built Some(..)/Ok(..)/Err(..)
        if isinstance(r, tuple) and r[0] == "agg" and r[1].split("::")[-1] in ("Some", "Ok", "Err"):
            want = "Err" if (site.callee and ("unwrap_err" in site.callee or "expect_err" in site.callee)) else None
            v = r[1].split("::")[-1]
            if (want is None and v in ("Some", "Ok")) or want == v:
                return "Q7: receiver is a just-built %s(..)" % v
        # Q1: dominated by is_some()/is_ok() true edge or a match arm on the same place
        for (op, vals, d, t) in all_guards(site, tb):
            base, nots = strip_not(op)
            if isinstance(base, tuple) and base[0] == "call" and base[2] and base[2][0] == r:
                m = base[1].rsplit("::", 1)[-1]
                if m in ("is_some", "is_ok") and edge_true(vals, nots):
                    return "Q1: dominated by %s() on the same value" % m
                if m in ("is_none", "is_err") and not edge_true(vals, nots):
                    return "Q1: dominated by !%s() on the same value" % m
            if isinstance(base, tuple) and base[0] == "discr" and base[1] == r:
                if vals and vals[0] != "other" and set(vals) == {1} and "Option" in str(base[2:]):
                    return "Q1: inside the Some arm of a match on the same value"
                if vals and vals[0] != "other" and set(vals) == {0} and "Result" in str(base[2:]):
                    return "Q1: inside the Ok arm of a match on the same value"
        # Q8: map.get(k).unwrap() dominated by contains_key(k) on the same map and key
        if isinstance(r, tuple) and r[0] == "call" and r[1].endswith("::get") and len(r[2]) > 1:
            for (op, vals, d, t) in all_guards(site, tb):
                base, nots = strip_not(op)
                if isinstance(base, tuple) and base[0] == "call" and base[1].endswith("::contains_key") \
                        and base[2][:2] == r[2][:2] and edge_true(vals, nots):
                    return "Q8: dominated by contains_key on the same map and key"
    if site.kind == "bounds":
        t = site.detail
        idx = tb.operand(t["index"])
        ln = tb.operand(t["len"])
        for (op, vals, d, sw) in all_guards(site, tb):
            base, nots = strip_not(op)
            # index < len on the same terms
            if isinstance(base, tuple) and base[0] == "bin" and base[1] in ("Lt", "Gt", "Le", "Ge", "Ne", "Eq"):
                a, c = base[2], base[3]
                truth = edge_true(vals, nots)
                if base[1] == "Lt" and a == idx and _same_len(c, ln) and truth:
                    return "Q2: dominated by index < len on the same collection"
                if base[1] == "Gt" and c == idx and _same_len(a, ln) and truth:
                    return "Q2: dominated by len > index on the same collection"
                if base[1] == "Ge" and a == idx and _same_len(c, ln) and not truth:
                    return "Q2: dominated by !(index >= len)"
                # constant index guarded by a length comparison with a constant
                if idx[0] == "const" and isinstance(idx[1], int) and _same_len(a, ln) and c[0] == "const" and isinstance(c[1], int):
                    k, n = idx[1], c[1]
                    if (base[1] == "Gt" and truth and n >= k) or (base[1] == "Ge" and truth and n > k) or \
                            (base[1] == "Eq" and truth and n > k) or (base[1] == "Ne" and not truth and n > k) or \
                            (base[1] == "Le" and not truth and n >= k) or (base[1] == "Lt" and not truth and n > k):
                        return "Q2: constant index %d under a length guard" % k
    if site.kind == "overflow-sub":
        t = site.detail
        l = tb.operand(t["l"])
        r = tb.operand(t["r"])
        for (op, vals, d, sw) in all_guards(site, tb):
            base, nots = strip_not(op)
            if isinstance(base, tuple) and base[0] == "bin":
                truth = edge_true(vals, nots)
                a, c = base[2], base[3]
                if base[1] in ("Ge", "Gt") and a == l and c == r and truth:
                    return "Q4: dominated by l >= r"
                if base[1] in ("Le", "Lt") and a == r and c == l and truth:
                    return "Q4: dominated by r <= l"
                if base[1] in ("Lt", "Le") and a == l and c == r and not truth:
                    return "Q4: dominated by !(l < r)"
                if base[1] in ("Gt", "Ge") and a == r and c == l and not truth:
                    return "Q4: dominated by !(r > l)"
                if r[0] == "const" and isinstance(r[1], int) and a == l and c[0] == "const" and isinstance(c[1], int):
                    n = c[1]
                    if (base[1] == "Gt" and truth and n + 1 >= r[1]) or (base[1] == "Ge" and truth and n >= r[1]) or \
                            (base[1] == "Eq" and not truth and n == 0 and r[1] == 1) or (base[1] == "Ne" and truth and n == 0 and r[1] == 1):
                        return "Q4: constant subtrahend under a magnitude guard"
    return None


def _same_len(t, ln):
    if t == ln:
        return True
    # len(x) call vs PtrMetadata(x)
    def base(u):
        if isinstance(u, tuple) and u[0] == "un":
            return u[2]
        if isinstance(u, tuple) and u[0] == "call" and u[1].rsplit("::", 1)[-1] == "len" and u[2]:
            return u[2][0]
        return None
    a, b = base(t), base(ln)
    return a is not None and a == b


# ---------------------------------------------------------------- census driver

def std_trait_impl_roots(facts, crates):
    roots = []
    for f in facts.fns.values():
        if f.crate not in crates:
            continue
        tm = f.d.get("implements")
        if tm and not any(tm.startswith(c + "::") for c in crates):
            roots.append(f.path)
    return roots


def load_triage(name):
    p = os.path.join(os.path.dirname(__file__), "tables", name)
    rows = json.load(open(p))
    table = {}
    for r in rows:
        table[norm_key(r["key"])] = r
    return table


def run_census(facts, res, rid, crates, roots, triage, class_rules, prop, finding_rule=None):
    """class_rules: list of fn(site) -> reason or None (class discharges)."""
    cg = mir.CallGraph(facts)
    reach = cg.reach(list(roots) + std_trait_impl_roots(facts, crates))
    # a helper that was spliced into its callers is accounted there
    fns = [facts.fns[p] for p in sorted(reach) if p in facts.fns and facts.fns[p].crate in crates and facts.fns[p].has_body()
           and not facts.fns[p].d.get("inlined_into")]
    Site.owner = staticmethod(facts.owner_root)
    Site.facts = facts
    stats = {"functions_reachable": len(fns), "sites": 0, "class": 0, "mechanical": 0, "invariant": 0, "finding": 0,
             "new": 0}
    used = set()
    by_key = {}
    pending = {}   # (root, kind) -> [sites] that need the triage table
    for f in fns:
        tb = None
        for s in sites_of(f, facts):
            stats["sites"] += 1
            reason = None
            if s.kind == "index" and s.detail is not None and s.detail.get("k") == "call" and \
                    "RangeFull" in " ".join(s.detail["f"].get("gargs") or []) + (s.detail["f"].get("inst") or ""):
                reason = "x[..] (Index<RangeFull>) cannot fail"
            for cr in ([] if reason else class_rules):
                reason = cr(s)
                if reason:
                    break
            if reason:
                stats["class"] += 1
                s.discharge = "class: " + reason
                by_key.setdefault(("class", reason), []).append(s)
                continue
            if tb is None:
                tb = TermBuilder(f, facts)
                cc = closure_context(facts, f)
                tb2 = None
                if cc:
                    # second attempt in the vocabulary of the function that builds the closure, with its guards
                    tb2 = TermBuilder(f, facts, upvars=cc[2])
                    tb2.outer = cc
            q = try_discharge(s, tb)
            if not q and tb2 is not None:
                recv0 = s.recv
                if s.recv is not None and s.detail is not None and s.detail.get("k") == "call":
                    _k, argi = classify_call(callee(s.detail))
                    if argi is not None and s.detail["args"]:
                        s.recv = tb2.operand(s.detail["args"][argi])
                q = try_discharge(s, tb2)
                s.recv = recv0
                if q:
                    q += " (guard in the function that builds the closure)"
            if q:
                stats["mechanical"] += 1
                s.discharge = q
                by_key.setdefault(("mech", q.split(":")[0]), []).append(s)
                continue
            pending.setdefault((s.root(), s.kind), []).append(s)
    # sites of a helper that several callers share are accounted to the first caller whose triage rows know them
    regrouped = {}
    for (root, kind), ss in sorted(pending.items()):
        for s in ss:
            chosen, ckind = root, kind
            hit = False
            for cand in s.roots():
                if s.key(cand) in triage or norm_key("%s/%s/*" % (cand, kind)) in triage:
                    chosen, hit = cand, True
                    break
            if not hit and s.alias:
                # the same hazard in another spelling: audited under the other kind
                ak, ap = s.alias
                for cand in s.roots():
                    if norm_key("%s/%s/%s" % (cand, ak, ap)) in triage or norm_key("%s/%s/*" % (cand, ak)) in triage:
                        chosen, ckind = cand, ak
                        s.kind, s.producer = ak, ap
                        break
            regrouped.setdefault((chosen, ckind), []).append(s)
    for (root, kind), ss in sorted(regrouped.items()):
        rest = []
        # exact rows first (groups with mixed statuses are triaged site by site)
        for s in ss:
            k = s.key(root)
            row = triage.get(k)
            if row is None:
                rest.append(s)
                continue
            used.add(k)
            if row["status"] == "finding":
                stats["finding"] += 1
                res.violation(row.get("rule", rid), row.get("finding_key", k), row["reason"], s.where())
            else:
                stats["invariant"] += 1
                res.ok(rid, k, s.where(), "%s: %s" % (row["status"], row["reason"]))
        if not rest:
            continue
        gk = norm_key("%s/%s/*" % (root, kind))
        row = triage.get(gk)
        if row is None:
            for s in rest:
                stats["new"] += 1
                res.violation(rid, s.key(root), "undischarged panic-capable construct (%s%s) in %s: not guarded locally and not in the "
                              "triage table" % (s.kind, (" on " + s.producer) if s.producer else "", s.fn.path), s.where())
            continue
        used.add(gk)
        n = row.get("count", 1)
        if len(rest) > n:
            stats["new"] += len(rest) - n
            res.violation(rid, gk + "+%d" % (len(rest) - n),
                          "%d undischarged `%s` site(s) in %s, %d were audited (%s): new panic-capable construct(s) among %s" % (
                              len(rest), kind, root, n, row["reason"][:80], [s.producer[:50] + " @" + str(s.line) for s in rest][:6]), rest[-1].where())
            continue
        if row["status"] == "finding":
            stats["finding"] += len(rest)
            res.violation(row.get("rule", rid), row.get("finding_key", gk), row["reason"], rest[0].where())
        else:
            stats["invariant"] += len(rest)
            for s in rest:
                res.ok(rid, gk, s.where(), "%s: %s" % (row["status"], row["reason"]))
    # mechanical / class groups as instances
    for (kind, why), ss in sorted(by_key.items(), key=str):
        res.rules[rid]["instances"] += len(ss)
        res.instances.append({"rule": rid, "instance": "%s/%s" % (kind, why), "ok": True,
                              "detail": "%d sites, e.g. %s" % (len(ss), ss[0].where())})
    stale = [k for k in triage if k not in used]
    return stats, stale, fns
