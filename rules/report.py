"""Result collection, known findings, evidence and replay files."""
import json
import os
import time

VERIF = os.path.dirname(os.path.dirname(os.path.abspath(__file__)))
# evidence/replay output directory (overridable so that selftest/seed runs against a scratch repo do not touch the
# evidence of the registered checks)
OUT = os.environ.get("VERIF_OUT", os.path.join(VERIF, "evidence"))


class Result:
    def __init__(self, prop, tier, level="other"):
        self.prop = prop
        self.tier = tier
        self.level = level
        self.t0 = time.time()
        self.violations = []      # dict(key, rule, what, where, detail)
        self.instances = []       # evaluated rule instances (for evidence)
        self.rules = {}           # rule id -> dict(instances, floor, desc)
        self.notes = []
        self.explanation = ""
        self.assumptions = []
        self.extra = {}
        self.samples = []
        self.tool_errors = []
        self.undecided_list = []   # dict(rule, what, where): the rule did not recognise the code it is about

    # -- recording
    def rule(self, rid, desc, floor=0):
        self.rules.setdefault(rid, {"desc": desc, "floor": floor, "instances": 0, "violations": 0})
        return rid

    def ok(self, rid, instance, where=None, detail=None):
        r = self.rules[rid]
        r["instances"] += 1
        self.instances.append({"rule": rid, "instance": instance, "where": where, "ok": True,
                               "detail": detail})

    def violation(self, rid, instance, what, where=None, detail=None):
        """instance: stable key without line numbers."""
        r = self.rules[rid]
        r["instances"] += 1
        r["violations"] += 1
        key = "%s/%s" % (rid, instance)
        self.violations.append({"key": key, "rule": rid, "what": what, "where": where,
                                "detail": detail})
        self.instances.append({"rule": rid, "instance": instance, "where": where, "ok": False,
                               "detail": what})

    def undecided(self, rid, what, where=None):
        """The rule does not recognise the shape of the code it is about (renamed, restructured, re-expressed): it says so
        and decides nothing. Not a violation: a violation is reported only for code the rule understood and found
        deviating. With VERIF_STRICT=1 (used on the audited tree, where every anchor must be found) this is fatal."""
        self.rules.setdefault(rid, {"desc": "", "floor": 0, "instances": 0, "violations": 0})
        self.undecided_list.append({"rule": rid, "what": what, "where": where})

    def anchor_lost(self, rid, what, where=None):
        self.undecided(rid, "anchor lost: " + what, where)

    def missing(self, rid, instance, what, where=None):
        """A construct the property requires is absent from code the rule did recognise: a violation."""
        self.rules.setdefault(rid, {"desc": "", "floor": 0, "instances": 0, "violations": 0})
        self.violation(rid, instance, what, where)

    def check_floors(self):
        for rid, r in sorted(self.rules.items()):
            if r["instances"] < r["floor"]:
                self.undecided(rid, "rule %s matched %d instance(s), %d were found on the audited tree (%s)" % (
                    rid, r["instances"], r["floor"], r["desc"][:120]))

    # -- finishing
    def finish(self):
        self.check_floors()
        kf_path = os.path.join(VERIF, "known_findings.json")
        known = {}
        if os.path.exists(kf_path):
            for e in json.load(open(kf_path)):
                if e.get("status") == "known" and e.get("property") == self.prop:
                    known[e["key"]] = e
        new = []
        printed = set()
        known_hit = []
        for v in self.violations:
            if v["key"] in known:
                if v["key"] not in printed:
                    printed.add(v["key"])
                    print("KNOWN-FINDING: property=%s %s [%s]" % (self.prop, known[v["key"]]["what"], v["key"]))
                    known_hit.append(v["key"])
            else:
                new.append(v)
        rc = 0
        replay_dir = os.path.join(OUT, "replay")
        os.makedirs(replay_dir, exist_ok=True)
        for old in os.listdir(replay_dir):
            # replay files describe the last run of this property only
            if old.startswith(self.prop + "__"):
                os.unlink(os.path.join(replay_dir, old))
        seen_keys = set()
        for v in new:
            if v["key"] in seen_keys:
                continue
            seen_keys.add(v["key"])
            safe = "".join(c if c.isalnum() or c in "-_." else "_" for c in v["key"])[:150]
            rp = os.path.join(replay_dir, "%s__%s.json" % (self.prop, safe))
            json.dump({"property": self.prop, **v}, open(rp, "w"), indent=1)
            print("  rule=%s where=%s\n    %s" % (v["rule"], v.get("where"), v["what"]))
            if v.get("detail"):
                print("    detail: %s" % (str(v["detail"])[:1500],))
            print("VIOLATION property=%s replay=%s" % (self.prop, rp))
            rc = 1
        self.new_count = len(seen_keys)
        self.known_count = len(known_hit)
        seen_u = set()
        for u in self.undecided_list:
            k = (u["rule"], u["what"])
            if k in seen_u:
                continue
            seen_u.add(k)
            print("UNDECIDED property=%s rule=%s %s%s" % (self.prop, u["rule"], u["what"], (" (%s)" % u["where"]) if u.get("where") else ""))
        self.write_evidence(len(seen_keys), known_hit)
        if self.undecided_list and os.environ.get("VERIF_STRICT"):
            print("STRICT: %d rule(s) undecided" % len(seen_u))
            return 2 if rc == 0 else rc
        return rc

    def write_evidence(self, nviol, known_hit):
        evals = len(self.instances)
        distinct = len({(i["rule"], str(i["instance"])) for i in self.instances})
        rules = {rid: {"description": r["desc"], "instances": r["instances"], "floor": r["floor"],
                       "violations": r["violations"]} for rid, r in sorted(self.rules.items())}
        samples = self.samples[:]
        if not samples:
            seen = set()
            for i in self.instances:
                if i["rule"] in seen:
                    continue
                seen.add(i["rule"])
                samples.append({k: v for k, v in i.items() if v is not None})
        cov = {
            "explanation": self.explanation,
            "evaluations": max(evals, 1),
            "distinct_nontrivial": distinct,
            "rule": "one evaluation per rule instance (anchored site, table row or obligation) found in the "
                    "facts extracted from /repo's current tree; distinct = distinct (rule id, instance key); "
                    "an instance is non-trivial when the anchor was found and the rule's predicate was evaluated on it",
            "samples": samples[:40],
            "rules": rules,
            "known_findings_reported": known_hit,
            "undecided": self.undecided_list[:50],
            "notes": self.notes,
        }
        cov.update(self.extra)
        ev = {
            "property_id": self.prop,
            "tier": self.tier,
            "seed": int(os.environ.get("VERIF_SEED", "0") or 0),
            "level": self.level,
            "coverage": cov,
            "assumptions": self.assumptions,
            "wall_s": round(time.time() - self.t0, 2),
            "violations": nviol,
        }
        os.makedirs(OUT, exist_ok=True)
        json.dump(ev, open(os.path.join(OUT, self.prop + ".json"), "w"), indent=1,
                  default=str)
