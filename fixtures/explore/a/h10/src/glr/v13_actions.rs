/// This file is maintained by rustemo but can be modified manually.
/// All manual changes will be preserved except non-doc comments.
use rustemo::Token as RustemoToken;
use super::v13::{TokenKind, Context};
pub type Input = str;
pub type Ctx<'i> = Context<'i, Input>;
#[allow(dead_code)]
pub type Token<'i> = RustemoToken<'i, Input, TokenKind>;
pub type Num = String;
pub fn num(_ctx: &Ctx, token: Token) -> Num {
    token.value.into()
}
pub type S = Box<E1>;
pub fn s_e1(_ctx: &Ctx, e1: E1) -> S {
    Box::new(e1)
}
pub type E1 = Vec<E>;
pub fn e1_c1(_ctx: &Ctx, mut e1: E1, e: E) -> E1 {
    e1.push(e);
    e1
}
pub fn e1_e(_ctx: &Ctx, e: E) -> E1 {
    vec![e]
}
#[derive(Debug, Clone)]
pub enum E {
    S(S),
    Num(Num),
}
pub fn e_s(_ctx: &Ctx, s: S) -> E {
    E::S(s)
}
pub fn e_num(_ctx: &Ctx, num: Num) -> E {
    E::Num(num)
}
