/// This file is maintained by rustemo but can be modified manually.
/// All manual changes will be preserved except non-doc comments.
use rustemo::Token as RustemoToken;
use super::v2::{TokenKind, Context};
pub type Input = str;
pub type Ctx<'i> = Context<'i, Input>;
#[allow(dead_code)]
pub type Token<'i> = RustemoToken<'i, Input, TokenKind>;
pub type Num = String;
pub fn num(_ctx: &Ctx, token: Token) -> Num {
    token.value.into()
}
pub type Minus = String;
pub fn minus(_ctx: &Ctx, token: Token) -> Minus {
    token.value.into()
}
#[derive(Debug, Clone)]
pub struct SC1 {
    pub neg: Minus,
    pub num: Num,
}
#[derive(Debug, Clone)]
pub enum S {
    C1(SC1),
    Num(Num),
}
pub fn s_c1(_ctx: &Ctx, neg: Minus, num: Num) -> S {
    S::C1(SC1 { neg, num })
}
pub fn s_num(_ctx: &Ctx, num: Num) -> S {
    S::Num(num)
}
