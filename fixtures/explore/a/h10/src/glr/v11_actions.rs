/// This file is maintained by rustemo but can be modified manually.
/// All manual changes will be preserved except non-doc comments.
use rustemo::Token as RustemoToken;
use super::v11::{TokenKind, Context};
pub type Input = str;
pub type Ctx<'i> = Context<'i, Input>;
#[allow(dead_code)]
pub type Token<'i> = RustemoToken<'i, Input, TokenKind>;
pub type Num = String;
pub fn num(_ctx: &Ctx, token: Token) -> Num {
    token.value.into()
}
pub type Id = String;
pub fn id(_ctx: &Ctx, token: Token) -> Id {
    token.value.into()
}
#[derive(Debug, Clone)]
pub struct S {
    pub num: Num,
    pub u: U,
}
pub fn s_c1(_ctx: &Ctx, num: Num, u: U) -> S {
    S { num, u }
}
pub type U = IdOpt;
pub fn u_id_opt(_ctx: &Ctx, id_opt: IdOpt) -> U {
    id_opt
}
pub type IdOpt = Option<Id>;
pub fn id_opt_id(_ctx: &Ctx, id: Id) -> IdOpt {
    Some(id)
}
pub fn id_opt_empty(_ctx: &Ctx) -> IdOpt {
    None
}
