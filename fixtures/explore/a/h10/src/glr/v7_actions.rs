/// This file is maintained by rustemo but can be modified manually.
/// All manual changes will be preserved except non-doc comments.
use rustemo::Token as RustemoToken;
use super::v7::{TokenKind, Context};
pub type Input = str;
pub type Ctx<'i> = Context<'i, Input>;
#[allow(dead_code)]
pub type Token<'i> = RustemoToken<'i, Input, TokenKind>;
pub type Num = String;
pub fn num(_ctx: &Ctx, token: Token) -> Num {
    token.value.into()
}
pub type Id = String;
pub fn id(_ctx: &Ctx, token: Token) -> Id {
    token.value.into()
}
pub type L = Vec<Num>;
pub fn l_c1(_ctx: &Ctx, mut l: L, num: Num) -> L {
    l.push(num);
    l
}
pub fn l_id(_ctx: &Ctx, id: Id) -> L {
    vec![id]
}
pub fn l_num(_ctx: &Ctx, num: Num) -> L {
    vec![num]
}
