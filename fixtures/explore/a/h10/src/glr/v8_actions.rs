/// This file is maintained by rustemo but can be modified manually.
/// All manual changes will be preserved except non-doc comments.
use rustemo::Token as RustemoToken;
use super::v8::{TokenKind, Context};
pub type Input = str;
pub type Ctx<'i> = Context<'i, Input>;
#[allow(dead_code)]
pub type Token<'i> = RustemoToken<'i, Input, TokenKind>;
pub type Num = String;
pub fn num(_ctx: &Ctx, token: Token) -> Num {
    token.value.into()
}
pub type Id = String;
pub fn id(_ctx: &Ctx, token: Token) -> Id {
    token.value.into()
}
pub type Str = String;
pub fn str(_ctx: &Ctx, token: Token) -> Str {
    token.value.into()
}
#[derive(Debug, Clone)]
pub struct S {
    pub a: NumOpt,
    pub b: IdOpt,
    pub c: StrOpt,
}
pub fn s_c1(_ctx: &Ctx, a: NumOpt, b: IdOpt, c: StrOpt) -> S {
    S { a, b, c }
}
pub type NumOpt = Option<Num>;
pub fn num_opt_num(_ctx: &Ctx, num: Num) -> NumOpt {
    Some(num)
}
pub fn num_opt_empty(_ctx: &Ctx) -> NumOpt {
    None
}
pub type IdOpt = Option<Id>;
pub fn id_opt_id(_ctx: &Ctx, id: Id) -> IdOpt {
    Some(id)
}
pub fn id_opt_empty(_ctx: &Ctx) -> IdOpt {
    None
}
pub type StrOpt = Option<Str>;
pub fn str_opt_str(_ctx: &Ctx, str: Str) -> StrOpt {
    Some(str)
}
pub fn str_opt_empty(_ctx: &Ctx) -> StrOpt {
    None
}
