/// This file is maintained by rustemo but can be modified manually.
/// All manual changes will be preserved except non-doc comments.
use rustemo::Token as RustemoToken;
use super::v15::{TokenKind, Context};
pub type Input = str;
pub type Ctx<'i> = Context<'i, Input>;
#[allow(dead_code)]
pub type Token<'i> = RustemoToken<'i, Input, TokenKind>;
pub type Num = String;
pub fn num(_ctx: &Ctx, token: Token) -> Num {
    token.value.into()
}
pub type Id = String;
pub fn id(_ctx: &Ctx, token: Token) -> Id {
    token.value.into()
}
#[derive(Debug, Clone)]
pub struct S {
    pub x: Num1,
    pub y: Id0,
}
pub fn s_c1(_ctx: &Ctx, x: Num1, y: Id0) -> S {
    S { x, y }
}
pub type Num1 = Vec<Num>;
pub fn num1_c1(_ctx: &Ctx, mut num1: Num1, num: Num) -> Num1 {
    num1.push(num);
    num1
}
pub fn num1_num(_ctx: &Ctx, num: Num) -> Num1 {
    vec![num]
}
pub type Id1 = Vec<Id>;
pub fn id1_c1(_ctx: &Ctx, mut id1: Id1, id: Id) -> Id1 {
    id1.push(id);
    id1
}
pub fn id1_id(_ctx: &Ctx, id: Id) -> Id1 {
    vec![id]
}
pub type Id0 = Option<Id1>;
pub fn id0_id1(_ctx: &Ctx, id1: Id1) -> Id0 {
    Some(id1)
}
pub fn id0_empty(_ctx: &Ctx) -> Id0 {
    None
}
