/// This file is maintained by rustemo but can be modified manually.
/// All manual changes will be preserved except non-doc comments.
use rustemo::Token as RustemoToken;
use super::v5::{TokenKind, Context};
pub type Input = str;
pub type Ctx<'i> = Context<'i, Input>;
#[allow(dead_code)]
pub type Token<'i> = RustemoToken<'i, Input, TokenKind>;
pub type Num = String;
pub fn num(_ctx: &Ctx, token: Token) -> Num {
    token.value.into()
}
#[derive(Debug, Clone)]
pub struct LNoO {
    pub num: Num,
    pub l: Box<L>,
}
pub type L = Option<LNoO>;
pub fn l_c1(_ctx: &Ctx, num: Num, l: L) -> L {
    Some(LNoO { num, l: Box::new(l) })
}
pub fn l_empty(_ctx: &Ctx) -> L {
    None
}
