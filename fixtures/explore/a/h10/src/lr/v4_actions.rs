/// This file is maintained by rustemo but can be modified manually.
/// All manual changes will be preserved except non-doc comments.
use rustemo::Token as RustemoToken;
use super::v4::{TokenKind, Context};
pub type Input = str;
pub type Ctx<'i> = Context<'i, Input>;
#[allow(dead_code)]
pub type Token<'i> = RustemoToken<'i, Input, TokenKind>;
pub type Num = String;
pub fn num(_ctx: &Ctx, token: Token) -> Num {
    token.value.into()
}
pub type L = Vec<Num>;
pub fn l_c1(_ctx: &Ctx, num: Num, mut l: L) -> L {
    l.insert(0, num);
    l
}
pub fn l_num(_ctx: &Ctx, num: Num) -> L {
    vec![num]
}
