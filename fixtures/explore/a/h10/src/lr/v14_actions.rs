/// This file is maintained by rustemo but can be modified manually.
/// All manual changes will be preserved except non-doc comments.
use rustemo::Token as RustemoToken;
use super::v14::{TokenKind, Context};
pub type Input = str;
pub type Ctx<'i> = Context<'i, Input>;
#[allow(dead_code)]
pub type Token<'i> = RustemoToken<'i, Input, TokenKind>;
pub type Num = String;
pub fn num(_ctx: &Ctx, token: Token) -> Num {
    token.value.into()
}
pub type Id = String;
pub fn id(_ctx: &Ctx, token: Token) -> Id {
    token.value.into()
}
pub type Str = String;
pub fn str(_ctx: &Ctx, token: Token) -> Str {
    token.value.into()
}
#[derive(Debug, Clone)]
pub struct S {
    pub num0: Num0,
    pub id1: Id1,
    pub str_opt: StrOpt,
}
pub fn s_c1(_ctx: &Ctx, num0: Num0, id1: Id1, str_opt: StrOpt) -> S {
    S { num0, id1, str_opt }
}
pub type Num1 = Vec<Num>;
pub fn num1_c1(_ctx: &Ctx, mut num1: Num1, num: Num) -> Num1 {
    num1.push(num);
    num1
}
pub fn num1_num(_ctx: &Ctx, num: Num) -> Num1 {
    vec![num]
}
pub type Num0 = Option<Num1>;
pub fn num0_num1(_ctx: &Ctx, num1: Num1) -> Num0 {
    Some(num1)
}
pub fn num0_empty(_ctx: &Ctx) -> Num0 {
    None
}
pub type Id1 = Vec<Id>;
pub fn id1_c1(_ctx: &Ctx, mut id1: Id1, id: Id) -> Id1 {
    id1.push(id);
    id1
}
pub fn id1_id(_ctx: &Ctx, id: Id) -> Id1 {
    vec![id]
}
pub type StrOpt = Option<Str>;
pub fn str_opt_str(_ctx: &Ctx, str: Str) -> StrOpt {
    Some(str)
}
pub fn str_opt_empty(_ctx: &Ctx) -> StrOpt {
    None
}
