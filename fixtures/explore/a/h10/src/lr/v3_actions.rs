/// This file is maintained by rustemo but can be modified manually.
/// All manual changes will be preserved except non-doc comments.
use rustemo::Token as RustemoToken;
use super::v3::{TokenKind, Context};
pub type Input = str;
pub type Ctx<'i> = Context<'i, Input>;
#[allow(dead_code)]
pub type Token<'i> = RustemoToken<'i, Input, TokenKind>;
pub type Num = String;
pub fn num(_ctx: &Ctx, token: Token) -> Num {
    token.value.into()
}
#[derive(Debug, Clone)]
pub struct LNoO {
    pub l: Box<L>,
    pub num: Num,
}
pub type L = Option<LNoO>;
pub fn l_c1(_ctx: &Ctx, l: L, num: Num) -> L {
    Some(LNoO { l: Box::new(l), num })
}
pub fn l_empty(_ctx: &Ctx) -> L {
    None
}
