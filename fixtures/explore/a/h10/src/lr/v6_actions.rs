/// This file is maintained by rustemo but can be modified manually.
/// All manual changes will be preserved except non-doc comments.
use rustemo::Token as RustemoToken;
use super::v6::{TokenKind, Context};
pub type Input = str;
pub type Ctx<'i> = Context<'i, Input>;
#[allow(dead_code)]
pub type Token<'i> = RustemoToken<'i, Input, TokenKind>;
pub type Num = String;
pub fn num(_ctx: &Ctx, token: Token) -> Num {
    token.value.into()
}
pub type Id = String;
pub fn id(_ctx: &Ctx, token: Token) -> Id {
    token.value.into()
}
pub type Str = String;
pub fn str(_ctx: &Ctx, token: Token) -> Str {
    token.value.into()
}
#[derive(Debug, Clone)]
pub struct S {
    pub a0: A0,
    pub bopt: BOpt,
    pub c1: C1,
}
pub fn s_c1(_ctx: &Ctx, a0: A0, bopt: BOpt, c1: C1) -> S {
    S { a0, bopt, c1 }
}
pub type A1 = Vec<A>;
pub fn a1_c1(_ctx: &Ctx, mut a1: A1, a: A) -> A1 {
    a1.push(a);
    a1
}
pub fn a1_a(_ctx: &Ctx, a: A) -> A1 {
    vec![a]
}
pub type A0 = Option<A1>;
pub fn a0_a1(_ctx: &Ctx, a1: A1) -> A0 {
    Some(a1)
}
pub fn a0_empty(_ctx: &Ctx) -> A0 {
    None
}
pub type BOpt = Option<B>;
pub fn bopt_b(_ctx: &Ctx, b: B) -> BOpt {
    Some(b)
}
pub fn bopt_empty(_ctx: &Ctx) -> BOpt {
    None
}
pub type C1 = Vec<C>;
pub fn c1_c1(_ctx: &Ctx, mut c1: C1, c: C) -> C1 {
    c1.push(c);
    c1
}
pub fn c1_c(_ctx: &Ctx, c: C) -> C1 {
    vec![c]
}
pub type A = Num;
pub fn a_num(_ctx: &Ctx, num: Num) -> A {
    num
}
pub type B = Id;
pub fn b_id(_ctx: &Ctx, id: Id) -> B {
    id
}
pub type C = Str;
pub fn c_str(_ctx: &Ctx, str: Str) -> C {
    str
}
