/// This file is maintained by rustemo but can be modified manually.
/// All manual changes will be preserved except non-doc comments.
use rustemo::Token as RustemoToken;
use super::v1::{TokenKind, Context};
pub type Input = str;
pub type Ctx<'i> = Context<'i, Input>;
#[allow(dead_code)]
pub type Token<'i> = RustemoToken<'i, Input, TokenKind>;
pub type Num = String;
pub fn num(_ctx: &Ctx, token: Token) -> Num {
    token.value.into()
}
pub type Sep = String;
pub fn sep(_ctx: &Ctx, token: Token) -> Sep {
    token.value.into()
}
pub type S = Num1;
pub fn s_num1(_ctx: &Ctx, num1: Num1) -> S {
    num1
}
#[derive(Debug, Clone)]
pub struct Num1C1 {
    pub num1: Box<Num1>,
    pub sep: Sep,
    pub num: Num,
}
#[derive(Debug, Clone)]
pub enum Num1 {
    C1(Num1C1),
    Num(Num),
}
pub fn num1_c1(_ctx: &Ctx, num1: Num1, sep: Sep, num: Num) -> Num1 {
    Num1::C1(Num1C1 {
        num1: Box::new(num1),
        sep,
        num,
    })
}
pub fn num1_num(_ctx: &Ctx, num: Num) -> Num1 {
    Num1::Num(num)
}
