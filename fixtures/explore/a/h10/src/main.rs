#![allow(dead_code, unused_imports, non_snake_case, non_camel_case_types, unused_variables, unused_mut)]
use rustemo::Parser;
mod lr { pub mod v1; pub mod v1_actions; pub mod v2; pub mod v2_actions; pub mod v3; pub mod v3_actions; pub mod v4; pub mod v4_actions; pub mod v5; pub mod v5_actions; pub mod v6; pub mod v6_actions; pub mod v7; pub mod v7_actions; pub mod v8; pub mod v8_actions; pub mod v9; pub mod v9_actions; pub mod v11; pub mod v11_actions; pub mod v13; pub mod v13_actions; pub mod v14; pub mod v14_actions; pub mod v15; pub mod v15_actions; pub mod v16; pub mod v16_actions; }
mod glr { pub mod v1; pub mod v1_actions; pub mod v2; pub mod v2_actions; pub mod v3; pub mod v3_actions; pub mod v4; pub mod v4_actions; pub mod v5; pub mod v5_actions; pub mod v6; pub mod v6_actions; pub mod v7; pub mod v7_actions; pub mod v8; pub mod v8_actions; pub mod v9; pub mod v9_actions; pub mod v11; pub mod v11_actions; pub mod v13; pub mod v13_actions; pub mod v14; pub mod v14_actions; pub mod v15; pub mod v15_actions; pub mod v16; pub mod v16_actions; }
fn strs(s:&str)->Vec<String>{ let mut v=vec![]; let b:Vec<char>=s.chars().collect(); let mut i=0; while i<b.len(){ if b[i]=='"' { let mut j=i+1; let mut t=String::new(); while j<b.len() && b[j]!='"' { if b[j]=='\\' { j+=1; } t.push(b[j]); j+=1;} v.push(t); i=j+1;} else {i+=1;} } v }
fn main(){
  { let inp="1,2;3";
    let l = lr::v1::V1Parser::new().parse(inp).map(|v| format!("{:?}", v)).unwrap_or_else(|e| format!("ERR {}", format!("{e:?}").chars().take(80).collect::<String>()));
    let g = match glr::v1::V1Parser::new().parse(inp) { Ok(f) => { let n=f.solutions(); let mut b = glr::v1::DefaultBuilder::new(); (0..n).map(|i| format!("{:?}", f.get_tree(i).unwrap().build(&mut b))).collect::<Vec<_>>() }, Err(e) => vec![format!("ERR {}", format!("{e:?}").chars().take(80).collect::<String>())] };
    let same = g.len()==1 && g[0]==l;
    println!("v1 {:?}\n   LR : {}\n   GLR: {:?} {}\n   toks LR: {:?}", inp, l, g, if same {"same"} else {"DIFF"}, strs(&l)); }
  { let inp="7";
    let l = lr::v1::V1Parser::new().parse(inp).map(|v| format!("{:?}", v)).unwrap_or_else(|e| format!("ERR {}", format!("{e:?}").chars().take(80).collect::<String>()));
    let g = match glr::v1::V1Parser::new().parse(inp) { Ok(f) => { let n=f.solutions(); let mut b = glr::v1::DefaultBuilder::new(); (0..n).map(|i| format!("{:?}", f.get_tree(i).unwrap().build(&mut b))).collect::<Vec<_>>() }, Err(e) => vec![format!("ERR {}", format!("{e:?}").chars().take(80).collect::<String>())] };
    let same = g.len()==1 && g[0]==l;
    println!("v1 {:?}\n   LR : {}\n   GLR: {:?} {}\n   toks LR: {:?}", inp, l, g, if same {"same"} else {"DIFF"}, strs(&l)); }
  { let inp="- 5";
    let l = lr::v2::V2Parser::new().parse(inp).map(|v| format!("{:?}", v)).unwrap_or_else(|e| format!("ERR {}", format!("{e:?}").chars().take(80).collect::<String>()));
    let g = match glr::v2::V2Parser::new().parse(inp) { Ok(f) => { let n=f.solutions(); let mut b = glr::v2::DefaultBuilder::new(); (0..n).map(|i| format!("{:?}", f.get_tree(i).unwrap().build(&mut b))).collect::<Vec<_>>() }, Err(e) => vec![format!("ERR {}", format!("{e:?}").chars().take(80).collect::<String>())] };
    let same = g.len()==1 && g[0]==l;
    println!("v2 {:?}\n   LR : {}\n   GLR: {:?} {}\n   toks LR: {:?}", inp, l, g, if same {"same"} else {"DIFF"}, strs(&l)); }
  { let inp="5";
    let l = lr::v2::V2Parser::new().parse(inp).map(|v| format!("{:?}", v)).unwrap_or_else(|e| format!("ERR {}", format!("{e:?}").chars().take(80).collect::<String>()));
    let g = match glr::v2::V2Parser::new().parse(inp) { Ok(f) => { let n=f.solutions(); let mut b = glr::v2::DefaultBuilder::new(); (0..n).map(|i| format!("{:?}", f.get_tree(i).unwrap().build(&mut b))).collect::<Vec<_>>() }, Err(e) => vec![format!("ERR {}", format!("{e:?}").chars().take(80).collect::<String>())] };
    let same = g.len()==1 && g[0]==l;
    println!("v2 {:?}\n   LR : {}\n   GLR: {:?} {}\n   toks LR: {:?}", inp, l, g, if same {"same"} else {"DIFF"}, strs(&l)); }
  { let inp="";
    let l = lr::v3::V3Parser::new().parse(inp).map(|v| format!("{:?}", v)).unwrap_or_else(|e| format!("ERR {}", format!("{e:?}").chars().take(80).collect::<String>()));
    let g = match glr::v3::V3Parser::new().parse(inp) { Ok(f) => { let n=f.solutions(); let mut b = glr::v3::DefaultBuilder::new(); (0..n).map(|i| format!("{:?}", f.get_tree(i).unwrap().build(&mut b))).collect::<Vec<_>>() }, Err(e) => vec![format!("ERR {}", format!("{e:?}").chars().take(80).collect::<String>())] };
    let same = g.len()==1 && g[0]==l;
    println!("v3 {:?}\n   LR : {}\n   GLR: {:?} {}\n   toks LR: {:?}", inp, l, g, if same {"same"} else {"DIFF"}, strs(&l)); }
  { let inp="1";
    let l = lr::v3::V3Parser::new().parse(inp).map(|v| format!("{:?}", v)).unwrap_or_else(|e| format!("ERR {}", format!("{e:?}").chars().take(80).collect::<String>()));
    let g = match glr::v3::V3Parser::new().parse(inp) { Ok(f) => { let n=f.solutions(); let mut b = glr::v3::DefaultBuilder::new(); (0..n).map(|i| format!("{:?}", f.get_tree(i).unwrap().build(&mut b))).collect::<Vec<_>>() }, Err(e) => vec![format!("ERR {}", format!("{e:?}").chars().take(80).collect::<String>())] };
    let same = g.len()==1 && g[0]==l;
    println!("v3 {:?}\n   LR : {}\n   GLR: {:?} {}\n   toks LR: {:?}", inp, l, g, if same {"same"} else {"DIFF"}, strs(&l)); }
  { let inp="1 2 3";
    let l = lr::v3::V3Parser::new().parse(inp).map(|v| format!("{:?}", v)).unwrap_or_else(|e| format!("ERR {}", format!("{e:?}").chars().take(80).collect::<String>()));
    let g = match glr::v3::V3Parser::new().parse(inp) { Ok(f) => { let n=f.solutions(); let mut b = glr::v3::DefaultBuilder::new(); (0..n).map(|i| format!("{:?}", f.get_tree(i).unwrap().build(&mut b))).collect::<Vec<_>>() }, Err(e) => vec![format!("ERR {}", format!("{e:?}").chars().take(80).collect::<String>())] };
    let same = g.len()==1 && g[0]==l;
    println!("v3 {:?}\n   LR : {}\n   GLR: {:?} {}\n   toks LR: {:?}", inp, l, g, if same {"same"} else {"DIFF"}, strs(&l)); }
  { let inp="1";
    let l = lr::v4::V4Parser::new().parse(inp).map(|v| format!("{:?}", v)).unwrap_or_else(|e| format!("ERR {}", format!("{e:?}").chars().take(80).collect::<String>()));
    let g = match glr::v4::V4Parser::new().parse(inp) { Ok(f) => { let n=f.solutions(); let mut b = glr::v4::DefaultBuilder::new(); (0..n).map(|i| format!("{:?}", f.get_tree(i).unwrap().build(&mut b))).collect::<Vec<_>>() }, Err(e) => vec![format!("ERR {}", format!("{e:?}").chars().take(80).collect::<String>())] };
    let same = g.len()==1 && g[0]==l;
    println!("v4 {:?}\n   LR : {}\n   GLR: {:?} {}\n   toks LR: {:?}", inp, l, g, if same {"same"} else {"DIFF"}, strs(&l)); }
  { let inp="1 2 3";
    let l = lr::v4::V4Parser::new().parse(inp).map(|v| format!("{:?}", v)).unwrap_or_else(|e| format!("ERR {}", format!("{e:?}").chars().take(80).collect::<String>()));
    let g = match glr::v4::V4Parser::new().parse(inp) { Ok(f) => { let n=f.solutions(); let mut b = glr::v4::DefaultBuilder::new(); (0..n).map(|i| format!("{:?}", f.get_tree(i).unwrap().build(&mut b))).collect::<Vec<_>>() }, Err(e) => vec![format!("ERR {}", format!("{e:?}").chars().take(80).collect::<String>())] };
    let same = g.len()==1 && g[0]==l;
    println!("v4 {:?}\n   LR : {}\n   GLR: {:?} {}\n   toks LR: {:?}", inp, l, g, if same {"same"} else {"DIFF"}, strs(&l)); }
  { let inp="";
    let l = lr::v5::V5Parser::new().parse(inp).map(|v| format!("{:?}", v)).unwrap_or_else(|e| format!("ERR {}", format!("{e:?}").chars().take(80).collect::<String>()));
    let g = match glr::v5::V5Parser::new().parse(inp) { Ok(f) => { let n=f.solutions(); let mut b = glr::v5::DefaultBuilder::new(); (0..n).map(|i| format!("{:?}", f.get_tree(i).unwrap().build(&mut b))).collect::<Vec<_>>() }, Err(e) => vec![format!("ERR {}", format!("{e:?}").chars().take(80).collect::<String>())] };
    let same = g.len()==1 && g[0]==l;
    println!("v5 {:?}\n   LR : {}\n   GLR: {:?} {}\n   toks LR: {:?}", inp, l, g, if same {"same"} else {"DIFF"}, strs(&l)); }
  { let inp="1 2 3";
    let l = lr::v5::V5Parser::new().parse(inp).map(|v| format!("{:?}", v)).unwrap_or_else(|e| format!("ERR {}", format!("{e:?}").chars().take(80).collect::<String>()));
    let g = match glr::v5::V5Parser::new().parse(inp) { Ok(f) => { let n=f.solutions(); let mut b = glr::v5::DefaultBuilder::new(); (0..n).map(|i| format!("{:?}", f.get_tree(i).unwrap().build(&mut b))).collect::<Vec<_>>() }, Err(e) => vec![format!("ERR {}", format!("{e:?}").chars().take(80).collect::<String>())] };
    let same = g.len()==1 && g[0]==l;
    println!("v5 {:?}\n   LR : {}\n   GLR: {:?} {}\n   toks LR: {:?}", inp, l, g, if same {"same"} else {"DIFF"}, strs(&l)); }
  { let inp=r#"1 2 x "a" "b""#;
    let l = lr::v6::V6Parser::new().parse(inp).map(|v| format!("{:?}", v)).unwrap_or_else(|e| format!("ERR {}", format!("{e:?}").chars().take(80).collect::<String>()));
    let g = match glr::v6::V6Parser::new().parse(inp) { Ok(f) => { let n=f.solutions(); let mut b = glr::v6::DefaultBuilder::new(); (0..n).map(|i| format!("{:?}", f.get_tree(i).unwrap().build(&mut b))).collect::<Vec<_>>() }, Err(e) => vec![format!("ERR {}", format!("{e:?}").chars().take(80).collect::<String>())] };
    let same = g.len()==1 && g[0]==l;
    println!("v6 {:?}\n   LR : {}\n   GLR: {:?} {}\n   toks LR: {:?}", inp, l, g, if same {"same"} else {"DIFF"}, strs(&l)); }
  { let inp=r#""a""#;
    let l = lr::v6::V6Parser::new().parse(inp).map(|v| format!("{:?}", v)).unwrap_or_else(|e| format!("ERR {}", format!("{e:?}").chars().take(80).collect::<String>()));
    let g = match glr::v6::V6Parser::new().parse(inp) { Ok(f) => { let n=f.solutions(); let mut b = glr::v6::DefaultBuilder::new(); (0..n).map(|i| format!("{:?}", f.get_tree(i).unwrap().build(&mut b))).collect::<Vec<_>>() }, Err(e) => vec![format!("ERR {}", format!("{e:?}").chars().take(80).collect::<String>())] };
    let same = g.len()==1 && g[0]==l;
    println!("v6 {:?}\n   LR : {}\n   GLR: {:?} {}\n   toks LR: {:?}", inp, l, g, if same {"same"} else {"DIFF"}, strs(&l)); }
  { let inp=r#"1 "a""#;
    let l = lr::v6::V6Parser::new().parse(inp).map(|v| format!("{:?}", v)).unwrap_or_else(|e| format!("ERR {}", format!("{e:?}").chars().take(80).collect::<String>()));
    let g = match glr::v6::V6Parser::new().parse(inp) { Ok(f) => { let n=f.solutions(); let mut b = glr::v6::DefaultBuilder::new(); (0..n).map(|i| format!("{:?}", f.get_tree(i).unwrap().build(&mut b))).collect::<Vec<_>>() }, Err(e) => vec![format!("ERR {}", format!("{e:?}").chars().take(80).collect::<String>())] };
    let same = g.len()==1 && g[0]==l;
    println!("v6 {:?}\n   LR : {}\n   GLR: {:?} {}\n   toks LR: {:?}", inp, l, g, if same {"same"} else {"DIFF"}, strs(&l)); }
  { let inp=r#"x "a" "b" "c""#;
    let l = lr::v6::V6Parser::new().parse(inp).map(|v| format!("{:?}", v)).unwrap_or_else(|e| format!("ERR {}", format!("{e:?}").chars().take(80).collect::<String>()));
    let g = match glr::v6::V6Parser::new().parse(inp) { Ok(f) => { let n=f.solutions(); let mut b = glr::v6::DefaultBuilder::new(); (0..n).map(|i| format!("{:?}", f.get_tree(i).unwrap().build(&mut b))).collect::<Vec<_>>() }, Err(e) => vec![format!("ERR {}", format!("{e:?}").chars().take(80).collect::<String>())] };
    let same = g.len()==1 && g[0]==l;
    println!("v6 {:?}\n   LR : {}\n   GLR: {:?} {}\n   toks LR: {:?}", inp, l, g, if same {"same"} else {"DIFF"}, strs(&l)); }
  { let inp="x 1 2";
    let l = lr::v7::V7Parser::new().parse(inp).map(|v| format!("{:?}", v)).unwrap_or_else(|e| format!("ERR {}", format!("{e:?}").chars().take(80).collect::<String>()));
    let g = match glr::v7::V7Parser::new().parse(inp) { Ok(f) => { let n=f.solutions(); let mut b = glr::v7::DefaultBuilder::new(); (0..n).map(|i| format!("{:?}", f.get_tree(i).unwrap().build(&mut b))).collect::<Vec<_>>() }, Err(e) => vec![format!("ERR {}", format!("{e:?}").chars().take(80).collect::<String>())] };
    let same = g.len()==1 && g[0]==l;
    println!("v7 {:?}\n   LR : {}\n   GLR: {:?} {}\n   toks LR: {:?}", inp, l, g, if same {"same"} else {"DIFF"}, strs(&l)); }
  { let inp="1 2 3";
    let l = lr::v7::V7Parser::new().parse(inp).map(|v| format!("{:?}", v)).unwrap_or_else(|e| format!("ERR {}", format!("{e:?}").chars().take(80).collect::<String>()));
    let g = match glr::v7::V7Parser::new().parse(inp) { Ok(f) => { let n=f.solutions(); let mut b = glr::v7::DefaultBuilder::new(); (0..n).map(|i| format!("{:?}", f.get_tree(i).unwrap().build(&mut b))).collect::<Vec<_>>() }, Err(e) => vec![format!("ERR {}", format!("{e:?}").chars().take(80).collect::<String>())] };
    let same = g.len()==1 && g[0]==l;
    println!("v7 {:?}\n   LR : {}\n   GLR: {:?} {}\n   toks LR: {:?}", inp, l, g, if same {"same"} else {"DIFF"}, strs(&l)); }
  { let inp="";
    let l = lr::v8::V8Parser::new().parse(inp).map(|v| format!("{:?}", v)).unwrap_or_else(|e| format!("ERR {}", format!("{e:?}").chars().take(80).collect::<String>()));
    let g = match glr::v8::V8Parser::new().parse(inp) { Ok(f) => { let n=f.solutions(); let mut b = glr::v8::DefaultBuilder::new(); (0..n).map(|i| format!("{:?}", f.get_tree(i).unwrap().build(&mut b))).collect::<Vec<_>>() }, Err(e) => vec![format!("ERR {}", format!("{e:?}").chars().take(80).collect::<String>())] };
    let same = g.len()==1 && g[0]==l;
    println!("v8 {:?}\n   LR : {}\n   GLR: {:?} {}\n   toks LR: {:?}", inp, l, g, if same {"same"} else {"DIFF"}, strs(&l)); }
  { let inp="1";
    let l = lr::v8::V8Parser::new().parse(inp).map(|v| format!("{:?}", v)).unwrap_or_else(|e| format!("ERR {}", format!("{e:?}").chars().take(80).collect::<String>()));
    let g = match glr::v8::V8Parser::new().parse(inp) { Ok(f) => { let n=f.solutions(); let mut b = glr::v8::DefaultBuilder::new(); (0..n).map(|i| format!("{:?}", f.get_tree(i).unwrap().build(&mut b))).collect::<Vec<_>>() }, Err(e) => vec![format!("ERR {}", format!("{e:?}").chars().take(80).collect::<String>())] };
    let same = g.len()==1 && g[0]==l;
    println!("v8 {:?}\n   LR : {}\n   GLR: {:?} {}\n   toks LR: {:?}", inp, l, g, if same {"same"} else {"DIFF"}, strs(&l)); }
  { let inp="1 x";
    let l = lr::v8::V8Parser::new().parse(inp).map(|v| format!("{:?}", v)).unwrap_or_else(|e| format!("ERR {}", format!("{e:?}").chars().take(80).collect::<String>()));
    let g = match glr::v8::V8Parser::new().parse(inp) { Ok(f) => { let n=f.solutions(); let mut b = glr::v8::DefaultBuilder::new(); (0..n).map(|i| format!("{:?}", f.get_tree(i).unwrap().build(&mut b))).collect::<Vec<_>>() }, Err(e) => vec![format!("ERR {}", format!("{e:?}").chars().take(80).collect::<String>())] };
    let same = g.len()==1 && g[0]==l;
    println!("v8 {:?}\n   LR : {}\n   GLR: {:?} {}\n   toks LR: {:?}", inp, l, g, if same {"same"} else {"DIFF"}, strs(&l)); }
  { let inp=r#"1 x "s""#;
    let l = lr::v8::V8Parser::new().parse(inp).map(|v| format!("{:?}", v)).unwrap_or_else(|e| format!("ERR {}", format!("{e:?}").chars().take(80).collect::<String>()));
    let g = match glr::v8::V8Parser::new().parse(inp) { Ok(f) => { let n=f.solutions(); let mut b = glr::v8::DefaultBuilder::new(); (0..n).map(|i| format!("{:?}", f.get_tree(i).unwrap().build(&mut b))).collect::<Vec<_>>() }, Err(e) => vec![format!("ERR {}", format!("{e:?}").chars().take(80).collect::<String>())] };
    let same = g.len()==1 && g[0]==l;
    println!("v8 {:?}\n   LR : {}\n   GLR: {:?} {}\n   toks LR: {:?}", inp, l, g, if same {"same"} else {"DIFF"}, strs(&l)); }
  { let inp="x";
    let l = lr::v8::V8Parser::new().parse(inp).map(|v| format!("{:?}", v)).unwrap_or_else(|e| format!("ERR {}", format!("{e:?}").chars().take(80).collect::<String>()));
    let g = match glr::v8::V8Parser::new().parse(inp) { Ok(f) => { let n=f.solutions(); let mut b = glr::v8::DefaultBuilder::new(); (0..n).map(|i| format!("{:?}", f.get_tree(i).unwrap().build(&mut b))).collect::<Vec<_>>() }, Err(e) => vec![format!("ERR {}", format!("{e:?}").chars().take(80).collect::<String>())] };
    let same = g.len()==1 && g[0]==l;
    println!("v8 {:?}\n   LR : {}\n   GLR: {:?} {}\n   toks LR: {:?}", inp, l, g, if same {"same"} else {"DIFF"}, strs(&l)); }
  { let inp=r#""s""#;
    let l = lr::v8::V8Parser::new().parse(inp).map(|v| format!("{:?}", v)).unwrap_or_else(|e| format!("ERR {}", format!("{e:?}").chars().take(80).collect::<String>()));
    let g = match glr::v8::V8Parser::new().parse(inp) { Ok(f) => { let n=f.solutions(); let mut b = glr::v8::DefaultBuilder::new(); (0..n).map(|i| format!("{:?}", f.get_tree(i).unwrap().build(&mut b))).collect::<Vec<_>>() }, Err(e) => vec![format!("ERR {}", format!("{e:?}").chars().take(80).collect::<String>())] };
    let same = g.len()==1 && g[0]==l;
    println!("v8 {:?}\n   LR : {}\n   GLR: {:?} {}\n   toks LR: {:?}", inp, l, g, if same {"same"} else {"DIFF"}, strs(&l)); }
  { let inp=r#"1 "s""#;
    let l = lr::v8::V8Parser::new().parse(inp).map(|v| format!("{:?}", v)).unwrap_or_else(|e| format!("ERR {}", format!("{e:?}").chars().take(80).collect::<String>()));
    let g = match glr::v8::V8Parser::new().parse(inp) { Ok(f) => { let n=f.solutions(); let mut b = glr::v8::DefaultBuilder::new(); (0..n).map(|i| format!("{:?}", f.get_tree(i).unwrap().build(&mut b))).collect::<Vec<_>>() }, Err(e) => vec![format!("ERR {}", format!("{e:?}").chars().take(80).collect::<String>())] };
    let same = g.len()==1 && g[0]==l;
    println!("v8 {:?}\n   LR : {}\n   GLR: {:?} {}\n   toks LR: {:?}", inp, l, g, if same {"same"} else {"DIFF"}, strs(&l)); }
  { let inp="1";
    let l = lr::v9::V9Parser::new().parse(inp).map(|v| format!("{:?}", v)).unwrap_or_else(|e| format!("ERR {}", format!("{e:?}").chars().take(80).collect::<String>()));
    let g = match glr::v9::V9Parser::new().parse(inp) { Ok(f) => { let n=f.solutions(); let mut b = glr::v9::DefaultBuilder::new(); (0..n).map(|i| format!("{:?}", f.get_tree(i).unwrap().build(&mut b))).collect::<Vec<_>>() }, Err(e) => vec![format!("ERR {}", format!("{e:?}").chars().take(80).collect::<String>())] };
    let same = g.len()==1 && g[0]==l;
    println!("v9 {:?}\n   LR : {}\n   GLR: {:?} {}\n   toks LR: {:?}", inp, l, g, if same {"same"} else {"DIFF"}, strs(&l)); }
  { let inp="1 a b c";
    let l = lr::v9::V9Parser::new().parse(inp).map(|v| format!("{:?}", v)).unwrap_or_else(|e| format!("ERR {}", format!("{e:?}").chars().take(80).collect::<String>()));
    let g = match glr::v9::V9Parser::new().parse(inp) { Ok(f) => { let n=f.solutions(); let mut b = glr::v9::DefaultBuilder::new(); (0..n).map(|i| format!("{:?}", f.get_tree(i).unwrap().build(&mut b))).collect::<Vec<_>>() }, Err(e) => vec![format!("ERR {}", format!("{e:?}").chars().take(80).collect::<String>())] };
    let same = g.len()==1 && g[0]==l;
    println!("v9 {:?}\n   LR : {}\n   GLR: {:?} {}\n   toks LR: {:?}", inp, l, g, if same {"same"} else {"DIFF"}, strs(&l)); }
  { let inp="1";
    let l = lr::v11::V11Parser::new().parse(inp).map(|v| format!("{:?}", v)).unwrap_or_else(|e| format!("ERR {}", format!("{e:?}").chars().take(80).collect::<String>()));
    let g = match glr::v11::V11Parser::new().parse(inp) { Ok(f) => { let n=f.solutions(); let mut b = glr::v11::DefaultBuilder::new(); (0..n).map(|i| format!("{:?}", f.get_tree(i).unwrap().build(&mut b))).collect::<Vec<_>>() }, Err(e) => vec![format!("ERR {}", format!("{e:?}").chars().take(80).collect::<String>())] };
    let same = g.len()==1 && g[0]==l;
    println!("v11 {:?}\n   LR : {}\n   GLR: {:?} {}\n   toks LR: {:?}", inp, l, g, if same {"same"} else {"DIFF"}, strs(&l)); }
  { let inp="1 a";
    let l = lr::v11::V11Parser::new().parse(inp).map(|v| format!("{:?}", v)).unwrap_or_else(|e| format!("ERR {}", format!("{e:?}").chars().take(80).collect::<String>()));
    let g = match glr::v11::V11Parser::new().parse(inp) { Ok(f) => { let n=f.solutions(); let mut b = glr::v11::DefaultBuilder::new(); (0..n).map(|i| format!("{:?}", f.get_tree(i).unwrap().build(&mut b))).collect::<Vec<_>>() }, Err(e) => vec![format!("ERR {}", format!("{e:?}").chars().take(80).collect::<String>())] };
    let same = g.len()==1 && g[0]==l;
    println!("v11 {:?}\n   LR : {}\n   GLR: {:?} {}\n   toks LR: {:?}", inp, l, g, if same {"same"} else {"DIFF"}, strs(&l)); }
  { let inp="1 2 ( 3 4 ( 5 ) ) 6";
    let l = lr::v13::V13Parser::new().parse(inp).map(|v| format!("{:?}", v)).unwrap_or_else(|e| format!("ERR {}", format!("{e:?}").chars().take(80).collect::<String>()));
    let g = match glr::v13::V13Parser::new().parse(inp) { Ok(f) => { let n=f.solutions(); let mut b = glr::v13::DefaultBuilder::new(); (0..n).map(|i| format!("{:?}", f.get_tree(i).unwrap().build(&mut b))).collect::<Vec<_>>() }, Err(e) => vec![format!("ERR {}", format!("{e:?}").chars().take(80).collect::<String>())] };
    let same = g.len()==1 && g[0]==l;
    println!("v13 {:?}\n   LR : {}\n   GLR: {:?} {}\n   toks LR: {:?}", inp, l, g, if same {"same"} else {"DIFF"}, strs(&l)); }
  { let inp="a";
    let l = lr::v14::V14Parser::new().parse(inp).map(|v| format!("{:?}", v)).unwrap_or_else(|e| format!("ERR {}", format!("{e:?}").chars().take(80).collect::<String>()));
    let g = match glr::v14::V14Parser::new().parse(inp) { Ok(f) => { let n=f.solutions(); let mut b = glr::v14::DefaultBuilder::new(); (0..n).map(|i| format!("{:?}", f.get_tree(i).unwrap().build(&mut b))).collect::<Vec<_>>() }, Err(e) => vec![format!("ERR {}", format!("{e:?}").chars().take(80).collect::<String>())] };
    let same = g.len()==1 && g[0]==l;
    println!("v14 {:?}\n   LR : {}\n   GLR: {:?} {}\n   toks LR: {:?}", inp, l, g, if same {"same"} else {"DIFF"}, strs(&l)); }
  { let inp=r#"1,2,3 a,b "s""#;
    let l = lr::v14::V14Parser::new().parse(inp).map(|v| format!("{:?}", v)).unwrap_or_else(|e| format!("ERR {}", format!("{e:?}").chars().take(80).collect::<String>()));
    let g = match glr::v14::V14Parser::new().parse(inp) { Ok(f) => { let n=f.solutions(); let mut b = glr::v14::DefaultBuilder::new(); (0..n).map(|i| format!("{:?}", f.get_tree(i).unwrap().build(&mut b))).collect::<Vec<_>>() }, Err(e) => vec![format!("ERR {}", format!("{e:?}").chars().take(80).collect::<String>())] };
    let same = g.len()==1 && g[0]==l;
    println!("v14 {:?}\n   LR : {}\n   GLR: {:?} {}\n   toks LR: {:?}", inp, l, g, if same {"same"} else {"DIFF"}, strs(&l)); }
  { let inp="1 a,b";
    let l = lr::v14::V14Parser::new().parse(inp).map(|v| format!("{:?}", v)).unwrap_or_else(|e| format!("ERR {}", format!("{e:?}").chars().take(80).collect::<String>()));
    let g = match glr::v14::V14Parser::new().parse(inp) { Ok(f) => { let n=f.solutions(); let mut b = glr::v14::DefaultBuilder::new(); (0..n).map(|i| format!("{:?}", f.get_tree(i).unwrap().build(&mut b))).collect::<Vec<_>>() }, Err(e) => vec![format!("ERR {}", format!("{e:?}").chars().take(80).collect::<String>())] };
    let same = g.len()==1 && g[0]==l;
    println!("v14 {:?}\n   LR : {}\n   GLR: {:?} {}\n   toks LR: {:?}", inp, l, g, if same {"same"} else {"DIFF"}, strs(&l)); }
  { let inp="1 2 3";
    let l = lr::v15::V15Parser::new().parse(inp).map(|v| format!("{:?}", v)).unwrap_or_else(|e| format!("ERR {}", format!("{e:?}").chars().take(80).collect::<String>()));
    let g = match glr::v15::V15Parser::new().parse(inp) { Ok(f) => { let n=f.solutions(); let mut b = glr::v15::DefaultBuilder::new(); (0..n).map(|i| format!("{:?}", f.get_tree(i).unwrap().build(&mut b))).collect::<Vec<_>>() }, Err(e) => vec![format!("ERR {}", format!("{e:?}").chars().take(80).collect::<String>())] };
    let same = g.len()==1 && g[0]==l;
    println!("v15 {:?}\n   LR : {}\n   GLR: {:?} {}\n   toks LR: {:?}", inp, l, g, if same {"same"} else {"DIFF"}, strs(&l)); }
  { let inp="1 2 a b";
    let l = lr::v15::V15Parser::new().parse(inp).map(|v| format!("{:?}", v)).unwrap_or_else(|e| format!("ERR {}", format!("{e:?}").chars().take(80).collect::<String>()));
    let g = match glr::v15::V15Parser::new().parse(inp) { Ok(f) => { let n=f.solutions(); let mut b = glr::v15::DefaultBuilder::new(); (0..n).map(|i| format!("{:?}", f.get_tree(i).unwrap().build(&mut b))).collect::<Vec<_>>() }, Err(e) => vec![format!("ERR {}", format!("{e:?}").chars().take(80).collect::<String>())] };
    let same = g.len()==1 && g[0]==l;
    println!("v15 {:?}\n   LR : {}\n   GLR: {:?} {}\n   toks LR: {:?}", inp, l, g, if same {"same"} else {"DIFF"}, strs(&l)); }
  { let inp="1,2,3";
    let l = lr::v16::V16Parser::new().parse(inp).map(|v| format!("{:?}", v)).unwrap_or_else(|e| format!("ERR {}", format!("{e:?}").chars().take(80).collect::<String>()));
    let g = match glr::v16::V16Parser::new().parse(inp) { Ok(f) => { let n=f.solutions(); let mut b = glr::v16::DefaultBuilder::new(); (0..n).map(|i| format!("{:?}", f.get_tree(i).unwrap().build(&mut b))).collect::<Vec<_>>() }, Err(e) => vec![format!("ERR {}", format!("{e:?}").chars().take(80).collect::<String>())] };
    let same = g.len()==1 && g[0]==l;
    println!("v16 {:?}\n   LR : {}\n   GLR: {:?} {}\n   toks LR: {:?}", inp, l, g, if same {"same"} else {"DIFF"}, strs(&l)); }
}
