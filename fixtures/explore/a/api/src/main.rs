use rustemo_compiler::{Settings, ParserAlgo, TableType};
use std::path::PathBuf;
// usage: api <variant> <grammar> <outdir>
fn main() {
    let a: Vec<String> = std::env::args().collect();
    if a[1]=="plain" { if let Err(e)=rustemo_compiler::process_grammar(&a[2]) { println!("ERR {e}"); } return; }
    let out = PathBuf::from(&a[3]);
    let g = PathBuf::from(&a[2]);
    let root = g.parent().unwrap().to_path_buf();
    let base = Settings::new().root_dir(root).out_dir_root(out.clone()).out_dir_actions_root(out).force(true);
    let s = match a[1].as_str() {
        "default" => base,
        "glr" => base.parser_algo(ParserAlgo::GLR),
        "glr_then_ps" => base.parser_algo(ParserAlgo::GLR).prefer_shifts(true),
        "ps_then_glr" => base.prefer_shifts(true).parser_algo(ParserAlgo::GLR),
        "glr_then_lalr" => base.parser_algo(ParserAlgo::GLR).table_type(TableType::LALR),
        "ps" => base.prefer_shifts(true),
        "nopse" => base.prefer_shifts_over_empty(false),
        "partial" => base.partial_parse(true),
        "noskip" => base.skip_ws(false),
        "locinfo" => base.builder_loc_info(true),
        x => panic!("unknown {x}"),
    };
    if let Err(e) = s.process_grammar(&g) { println!("ERR {e}"); }
}
