import json,sys,glob
for f in sys.argv[1:]:
    d=json.load(open(f))
    if 'grammar' in d: g=d['grammar']
    else: g=d
    print("==",f, "keys:", list(d.keys()))
    terms=g['terminals']; nts=g['nonterminals']
    names=[t['name'] for t in terms]+[n['name'] for n in nts]
    print(" terms:",[(t['idx'],t['name'],t.get('recognizer')) for t in terms])
    print(" nonterms:",[(n['idx'],n['name'],n.get('productions')) for n in nts])
    for p in g['productions']:
        print("  p%d %s(nt%d,ntidx%d): %s  prio=%s assoc=%s nops=%s nopse=%s kind=%s names=%s bool=%s"%(p['idx'], nts[p['nonterminal']]['name'],p['nonterminal'],p['ntidx'],' '.join(names[s]+('#t%d'%s if s<len(terms) else '#nt%d'%(s-len(terms))) for s in p['rhs']),p['prio'],p['assoc'],p['nops'],p['nopse'],p['kind'],p['rhs_names'],p['rhs_is_bool']))
    for k in ('start_index','augmented_index','augmented_layout_index','empty_index'):
        if k in g: print(" ",k,g[k])
