/// This file is maintained by rustemo but can be modified manually.
/// All manual changes will be preserved except non-doc comments.
use rustemo::Token as RustemoToken;
use super::g5::{TokenKind, Context};
pub type Input = str;
pub type Ctx<'i> = Context<'i, Input>;
#[allow(dead_code)]
pub type Token<'i> = RustemoToken<'i, Input, TokenKind>;
#[derive(Debug, Clone)]
pub enum S {
    C1,
    B,
}
pub fn s_c1(_ctx: &Ctx) -> S {
    S::C1
}
pub fn s_b(_ctx: &Ctx) -> S {
    S::B
}
