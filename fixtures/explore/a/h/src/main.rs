#![allow(dead_code, unused_imports, non_snake_case, non_camel_case_types)]
use rustemo::Parser;
mod g1; mod g1_actions;
mod g9; mod g9_actions;
mod g6; mod g6_actions;
mod g2; mod g2_actions;
mod g3; mod g3_actions;
mod g4; mod g4_actions;
mod g5; mod g5_actions;

macro_rules! t {
    ($m:ident :: $p:ident, $name:expr, $($inp:expr),*) => {
        $( {
            let r = $m::$p::new().parse($inp);
            match r { Ok(v) => println!("{} {:?} => OK {:?}", $name, $inp, v), Err(e) => println!("{} {:?} => ERR {}", $name, $inp, format!("{e:?}").chars().take(120).collect::<String>().replace('\n'," ")) }
        } )*
    };
}
fn main() {
    t!(g6::G6Parser, "g6 [S: 'a' LAYOUT 'b'; LAYOUT: 'x']", "axb", "ab", "xaxxb", "a b");
    t!(g1::G1Parser, "g1 [E {right}: E '+' E {left} | Num]", "1+2+3");
    t!(g9::G9Parser, "g9 [S: BS N; BS: '\\\\'; N: '\\\\n']", "\\\\n", "\\\n");
    t!(g2::G2Parser, "g2 [S: A+ B; A1:'x']", "a b", "a a b", "x b");
    t!(g3::G3Parser, "g3 [T: A+ A1; A1: 'x' 'y']", "a x y", "a a x y", "x y x y");
    t!(g4::G4Parser, "g4 [S: A 'b'; A: 'x' 'y'; term A:'a']", "x y b", "a b");
    t!(g5::G5Parser, "g5 [S: x=EMPTY 'a' | 'b']", "a", "b");
}
