/// This file is maintained by rustemo but can be modified manually.
/// All manual changes will be preserved except non-doc comments.
use rustemo::Token as RustemoToken;
use super::g6::{TokenKind, Context};
pub type Input = str;
pub type Ctx<'i> = Context<'i, Input>;
#[allow(dead_code)]
pub type Token<'i> = RustemoToken<'i, Input, TokenKind>;
pub type S = LAYOUT;
pub fn s_layout(_ctx: &Ctx, layout: LAYOUT) -> S {
    layout
}
#[derive(Debug, Clone)]
pub enum LAYOUT {
    X,
}
pub fn layout_x(_ctx: &Ctx) -> LAYOUT {
    LAYOUT::X
}
