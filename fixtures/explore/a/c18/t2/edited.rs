/// This file is maintained by rustemo but can be modified manually.
/// All manual changes will be preserved except non-doc comments.
use rustemo::Token as RustemoToken;
use super::calc::{TokenKind, Context};
pub type Input = str;
pub type Ctx<'i> = Context<'i, Input>;
#[allow(dead_code)]
pub type Token<'i> = RustemoToken<'i, Input, TokenKind>;
pub type Num = i64;
pub fn num(_ctx: &Ctx, token: Token) -> Num {
    token.value.parse().unwrap()
}
#[derive(Debug, Clone)]
pub struct EC1 {
    pub e_1: Box<E>,
    pub e_3: Box<E>,
}
#[derive(Debug, Clone)]
pub struct EC2 {
    pub e_1: Box<E>,
    pub e_3: Box<E>,
}
#[derive(Debug, Clone)]
pub enum E {
    C1(EC1),
    C2(EC2),
    E(Box<E>),
    Num(Num),
}
pub fn e_c1(_ctx: &Ctx, e_1: E, e_3: E) -> E {
    E::C1(EC1 {
        e_1: Box::new(e_1),
        e_3: Box::new(e_3),
    })
}
pub fn e_c2(_ctx: &Ctx, e_1: E, e_3: E) -> E {
    E::C2(EC2 {
        e_1: Box::new(e_1),
        e_3: Box::new(e_3),
    })
}
pub fn e_e(_ctx: &Ctx, e: E) -> E {
    E::E(Box::new(e))
}
pub fn e_num(_ctx: &Ctx, num: Num) -> E {
    E::Num(num)
}

// a plain comment (documented to be lost)
pub const LIMIT: i64 = 1_000_000;
pub static NAME: &str = "calc";
macro_rules! twice { ($e:expr) => { $e + $e }; }
impl EC1 {
    pub fn sum(&self) -> i64 { let x = 0x1F_i64; x + twice!(1) }
}
pub trait Eval { fn eval(&self) -> i64; }
#[cfg(test)]
mod tests {
    use super::*;
    #[test]
    fn t() { assert_eq!(LIMIT, 1_000_000); }
}
pub fn helper(v: Option<i64>) -> i64 {
    let Some(x) = v else { return 0 };
    x
}
