#!/bin/bash
# C18 reproducers. usage: bash /var/tmp/explore-a/c18/run.sh
# needs: /var/tmp/explore-a/target/debug/rcomp and /var/tmp/explore-a/target/debug/tokcmp
cd /var/tmp/explore-a/c18 || exit 1
R=/var/tmp/explore-a/target/debug/rcomp
T=/var/tmp/explore-a/target/debug/tokcmp
W=repro; mkdir -p $W
cat > $W/calc.rustemo <<'EOF'
E: E '+' E {left, 1}
 | E '*' E {left, 2}
 | '(' E ')'
 | Num;
terminals
Plus: '+';
Mul: '*';
OP: '(';
CP: ')';
Num: /\d+/;
EOF
fresh(){ d=$W/$1; mkdir -p $d; cp $W/calc.rustemo $d/; rm -f $d/calc_actions.rs $d/calc.rs; (cd $d && $R calc.rustemo >/dev/null); }

echo "### A. user code with let-else (stable Rust since 1.65) in the actions file -> rcomp panics"
fresh a
cat >> $W/a/calc_actions.rs <<'EOF'
pub fn helper(v: Option<i64>) -> i64 {
    let Some(x) = v else { return 0 };
    x
}
EOF
(cd $W/a && $R calc.rustemo 2>&1 | grep -i "panicked\|not implemented")

echo "### A2. other stable syntax: inline const, '_ = e', &raw const, open range pattern, c\"..\" literal, unsafe extern"
n=0
while IFS= read -r snippet; do n=$((n+1)); fresh a2_$n; printf '%s\n' "$snippet" >> $W/a2_$n/calc_actions.rs
  echo "  [$snippet]"; (cd $W/a2_$n && $R calc.rustemo 2>&1 | grep -i "panicked\|not implemented\|Syn error" | cut -c1-220 | sed 's/^/      /'); done <<'EOF'
pub fn h1() -> u8 { const { 1 + 1 } }
pub fn h2(a: u8) { _ = a; }
pub fn h3(x: &u8) -> *const u8 { &raw const *x }
pub fn h11(x: u8) -> u8 { match x { 0..5 => 1, 5.. => 2 } }
pub fn h7() -> &'static core::ffi::CStr { c"hi" }
unsafe extern "C" { pub fn ext(); }
pub fn h9<'a>(x: &'a u8) -> impl Sized + use<'a> { x }
EOF

echo "### B. type and action provided through 'pub use' -> re-added on regeneration (duplicate names, E0255)"
fresh b
python3 - <<'EOF'
p='/var/tmp/explore-a/c18/repro/b/calc_actions.rs'; s=open(p).read()
s=s.replace("pub type Num = String;\n","pub use super::common::{Num, num};\n")
s=s.replace("pub fn num(_ctx: &Ctx, token: Token) -> Num {\n    token.value.into()\n}\n","")
open(p,'w').write(s)
EOF
cp $W/b/calc_actions.rs $W/b/edited.rs
(cd $W/b && $R calc.rustemo >/dev/null && $T edited.rs calc_actions.rs && grep -n "Num, num\|pub type Num\|pub fn num" calc_actions.rs)

echo "### C. (minor) formatter inserts tokens: trailing comma in the user's match"
fresh c
echo 'pub fn h10(v: &[u8]) -> u8 { match v { [a, ..] => *a, [] => 0 } }' >> $W/c/calc_actions.rs
cp $W/c/calc_actions.rs $W/c/edited.rs
(cd $W/c && $R calc.rustemo >/dev/null && $T edited.rs calc_actions.rs)

echo "### D. control: assorted user items are preserved and regeneration is idempotent"
fresh d
cat >> $W/d/calc_actions.rs <<'EOF'
pub const LIMIT: i64 = 1_000_000;
macro_rules! twice { ($e:expr) => { $e + $e }; }
impl EC1 { pub fn sum(&self) -> i64 { let x = 0x1F_i64; x + twice!(1) } }
#[cfg(test)]
mod tests { use super::*; #[test] fn t() { assert_eq!(LIMIT, 1_000_000); } }
EOF
cp $W/d/calc_actions.rs $W/d/edited.rs
(cd $W/d && $R calc.rustemo >/dev/null && $T edited.rs calc_actions.rs && cp calc_actions.rs r1.rs && $R calc.rustemo >/dev/null && cmp r1.rs calc_actions.rs && echo "second regeneration: identical")
