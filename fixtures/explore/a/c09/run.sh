#!/bin/bash
# C09 reproducers, grammar level. usage: bash /var/tmp/explore-a/c09/run.sh
# Uses the rcomp built with RUSTFLAGS="--cfg rustemo_verif" (grammar dump hook) in
# /var/tmp/explore-a/target-dump; prints the grammar part of each dump.
cd /var/tmp/explore-a/c09 || exit 1
R=/var/tmp/explore-a/target-dump/debug/rcomp
for g in g1 g1b g2 g3 g4 g5 g6 g7 g8 g9 g10 g11; do
  echo "=================== $g"; cat $g/$g.rustemo; echo "-------"
  rm -f $g/*.json
  (cd $g && RUSTEMO_VERIF_DUMP_DIR=. $R -f $( [ $g = g11 ] && echo "-p glr" ) $g.rustemo 2>&1 | grep -i "panicked\|index out\|error\|not generated")
  for j in $g/*.json; do [ -f "$j" ] && python3 ../showg.py $j | grep "^  p\| terms"; done
done
