/// This file is maintained by rustemo but can be modified manually.
/// All manual changes will be preserved except non-doc comments.
use rustemo::Token as RustemoToken;
use super::g11::{TokenKind, Context};
pub type Input = str;
pub type Ctx<'i> = Context<'i, Input>;
#[allow(dead_code)]
pub type Token<'i> = RustemoToken<'i, Input, TokenKind>;
#[derive(Debug, Clone)]
pub struct K3 {
    pub aopt: AOpt,
    pub comma1_2: Comma1,
    pub comma1_3: Comma1,
}
#[derive(Debug, Clone)]
pub enum S {
    K1(Box<S>),
    K2,
    K3(K3),
}
pub fn s_k1(_ctx: &Ctx, s: S) -> S {
    S::K1(Box::new(s))
}
pub fn s_k2(_ctx: &Ctx) -> S {
    S::K2
}
pub fn s_k3(_ctx: &Ctx, aopt: AOpt, comma1_2: Comma1, comma1_3: Comma1) -> S {
    S::K3(K3 { aopt, comma1_2, comma1_3 })
}
pub type AOpt = Option<AOptNoO>;
#[derive(Debug, Clone)]
pub enum AOptNoO {
    A,
}
pub fn aopt_a(_ctx: &Ctx) -> AOpt {
    Some(AOptNoO::A)
}
pub fn aopt_empty(_ctx: &Ctx) -> AOpt {
    None
}
#[derive(Debug, Clone)]
pub enum Comma1 {
    Comma1(Box<Comma1>),
    Comma,
}
pub fn comma1_comma1(_ctx: &Ctx, comma1: Comma1) -> Comma1 {
    Comma1::Comma1(Box::new(comma1))
}
pub fn comma1_comma(_ctx: &Ctx) -> Comma1 {
    Comma1::Comma
}
