/// This file is maintained by rustemo but can be modified manually.
/// All manual changes will be preserved except non-doc comments.
use rustemo::Token as RustemoToken;
use super::g10::{TokenKind, Context};
pub type Input = str;
pub type Ctx<'i> = Context<'i, Input>;
#[allow(dead_code)]
pub type Token<'i> = RustemoToken<'i, Input, TokenKind>;
#[derive(Debug, Clone)]
pub struct S {
    pub a0: A0,
    pub a1: A1,
}
pub fn s_c1(_ctx: &Ctx, a0: A0, a1: A1) -> S {
    S { a0, a1 }
}
#[derive(Debug, Clone)]
pub enum A1 {
    A1(Box<A1>),
    A,
}
pub fn a1_a1(_ctx: &Ctx, a1: A1) -> A1 {
    A1::A1(Box::new(a1))
}
pub fn a1_a(_ctx: &Ctx) -> A1 {
    A1::A
}
pub type A0 = Option<A1>;
pub fn a0_a1(_ctx: &Ctx, a1: A1) -> A0 {
    Some(a1)
}
pub fn a0_empty(_ctx: &Ctx) -> A0 {
    None
}
