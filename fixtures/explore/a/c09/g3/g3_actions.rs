/// This file is maintained by rustemo but can be modified manually.
/// All manual changes will be preserved except non-doc comments.
use rustemo::Token as RustemoToken;
use super::g3::{TokenKind, Context};
pub type Input = str;
pub type Ctx<'i> = Context<'i, Input>;
#[allow(dead_code)]
pub type Token<'i> = RustemoToken<'i, Input, TokenKind>;
pub type S = T;
pub fn s_t(_ctx: &Ctx, t: T) -> S {
    t
}
#[derive(Debug, Clone)]
pub enum A1 {
    C1,
}
pub fn a1_c1(_ctx: &Ctx) -> A1 {
    A1::C1
}
#[derive(Debug, Clone)]
pub struct T {
    pub a1_1: A1,
    pub a1_2: A1,
}
pub fn t_c1(_ctx: &Ctx, a1_1: A1, a1_2: A1) -> T {
    T { a1_1, a1_2 }
}
