/// This file is maintained by rustemo but can be modified manually.
/// All manual changes will be preserved except non-doc comments.
use rustemo::Token as RustemoToken;
use super::g7::{TokenKind, Context};
pub type Input = str;
pub type Ctx<'i> = Context<'i, Input>;
#[allow(dead_code)]
pub type Token<'i> = RustemoToken<'i, Input, TokenKind>;
pub type S = AOpt;
pub fn s_aopt(_ctx: &Ctx, aopt: AOpt) -> S {
    aopt
}
pub type AOpt = Option<AOptNoO>;
#[derive(Debug, Clone)]
pub enum AOptNoO {
    A,
}
pub fn aopt_a(_ctx: &Ctx) -> AOpt {
    Some(AOptNoO::A)
}
pub fn aopt_empty(_ctx: &Ctx) -> AOpt {
    None
}
