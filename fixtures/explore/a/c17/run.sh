#!/bin/bash
# C17: compare the bytes written through the library API and through the rcomp CLI.
# usage: bash run.sh   (run from /var/tmp/explore-a/c17)
cd /var/tmp/explore-a/c17 || exit 1
A=/var/tmp/explore-a/target/debug/api
R=/var/tmp/explore-a/target/debug/rcomp
mkdir -p g out
cat > g/amb.rustemo <<'EOF'
E: E '+' E | E '*' E | Num;
terminals
Plus: '+';
Mul: '*';
Num: /\d+/;
EOF
cat > g/calc.rustemo <<'EOF'
E: E '+' E {left, 1} | E '*' E {left, 2} | Num?;
terminals
Plus: '+';
Mul: '*';
Num: /\d+/;
EOF
run_api(){ v=$1; g=$2; d=out/api_${v}_$g; mkdir -p $d; $A $v $PWD/g/$g.rustemo $PWD/$d > $d.log 2>&1; }
run_cli(){ tag=$1; g=$2; shift 2; d=out/cli_${tag}_$g; mkdir -p $d; CARGO_MANIFEST_DIR=$PWD/g $R -f -o $PWD/$d -a $PWD/$d "$@" $PWD/g/$g.rustemo > $d.log 2>&1; }
for g in amb calc; do
 run_api default $g; run_cli default $g
 run_api glr $g; run_cli glr $g -p glr
 run_api glr_then_ps $g; run_api ps_then_glr $g; run_cli glr_ps $g -p glr --prefer-shifts; run_cli ps_glr $g --prefer-shifts -p glr
 run_api glr_then_lalr $g; run_cli glr_lalr $g -p glr -t lalr
 run_api ps $g; run_cli ps $g --prefer-shifts
 run_api nopse $g; run_cli nopse $g --no-shifts-over-empty
 run_api partial $g; run_cli partial $g --partial-parse
 run_api noskip $g; run_cli noskip $g --no-skip-ws
 run_api locinfo $g; run_cli locinfo $g --builder-loc-info
done
cd out
for d in */; do d=${d%/}; echo "$d $(cat $d/*.rs 2>/dev/null | md5sum | cut -c1-8) $(ls $d | tr '\n' ' ')"; done
