#!/bin/bash
# C17: run rcomp several times (separate processes, so different hash seeds) on a set
# of grammars taken from /repo (copied, /repo is not modified) and compare the bytes.
cd /var/tmp/explore-a/c17 || exit 1
R=/var/tmp/explore-a/target/debug/rcomp
mkdir -p det
i=0
for src in /repo/rustemo-compiler/src/lang/rustemo.rustemo /repo/examples/json/src/json.rustemo /repo/examples/clang/src/c.rustemo \
    /repo/docs/src/tutorials/calculator/calculator4/src/calculator.rustemo /repo/tests/src/layout/ast/layout.rustemo \
    /repo/tests/src/sugar/zero_or_more/zero_or_more_2.rustemo /repo/tests/src/builder/loc_info/json.rustemo; do
  [ -f "$src" ] || { echo "missing $src"; continue; }
  i=$((i+1))
  for opts in "" "-p glr" "--builder-loc-info" "-g arrays"; do
    sums=""
    for run in 1 2 3 4; do
      d=det/g${i}_$(echo "$opts" | tr -d ' -')_$run; mkdir -p $d; cp $src $d/
      (cd $d && $R -f $opts $(basename $src) > log.txt 2>&1)
      sums="$sums $(cat $d/*.rs 2>/dev/null | md5sum | cut -c1-8)"
    done
    u=$(echo $sums | tr ' ' '\n' | sort -u | wc -l)
    echo "$(basename $src) [$opts] -> $sums unique=$u"
  done
done
