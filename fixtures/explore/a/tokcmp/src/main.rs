use quote::ToTokens;
fn items(p: &str) -> Vec<String> {
    let s = std::fs::read_to_string(p).unwrap();
    let f = syn::parse_file(&s).unwrap_or_else(|e| panic!("{p}: {e}"));
    let mut v: Vec<String> = vec![];
    if !f.attrs.is_empty() { v.push(format!("INNER_ATTRS {}", f.attrs.iter().map(|a| a.to_token_stream().to_string()).collect::<Vec<_>>().join(" "))); }
    v.extend(f.items.iter().map(|i| i.to_token_stream().to_string()));
    v
}
fn main() {
    let a: Vec<String> = std::env::args().collect();
    let before = items(&a[1]);
    let after = items(&a[2]);
    let mut ok = true;
    for (i, b) in before.iter().enumerate() {
        if after.get(i) != Some(b) { ok = false; println!("ITEM {i} CHANGED/MISSING:\n  before: {b}\n  after : {:?}", after.get(i)); }
    }
    println!("before items: {}, after items: {}, prefix preserved: {}", before.len(), after.len(), ok);
    for x in after.iter().skip(before.len()) { println!("  ADDED: {}", x.chars().take(150).collect::<String>()); }
    // duplicates by (kind,name)
    let f = syn::parse_file(&std::fs::read_to_string(&a[2]).unwrap()).unwrap();
    let mut seen = std::collections::BTreeMap::new();
    for it in &f.items {
        let n = match it { syn::Item::Fn(f) => format!("fn {}", f.sig.ident), syn::Item::Struct(s) => format!("type {}", s.ident), syn::Item::Enum(s) => format!("type {}", s.ident), syn::Item::Type(s) => format!("type {}", s.ident), _ => continue };
        *seen.entry(n).or_insert(0) += 1;
    }
    for (n, c) in seen { if c > 1 { println!("  DUPLICATE: {n} x{c}"); } }
}
