#!/bin/sh
# regenerate all parsers
R=/var/tmp/explore-b/target/debug/rcomp
cd /var/tmp/explore-b/h1/src
g() { d=$1; shift; echo "== $d: $@"; $R -b generic "$@" $d/g.rustemo 2>&1 | sed 's/\x1b\[[0-9;]*m//g' > $d/gen.log; tail -2 $d/gen.log; }
g c05_inherit --print-table
g c05_inherit_ok --print-table
g c02_rn -t lalr-rn --print-table
g c02_rn2 -t lalr-rn --print-table
g c06_len --print-table
g c06_glr_amb -p glr --lexical-disamb-most-specific=false --lexical-disamb-longest-match=false --print-table
g c12_glr_pos -p glr --lexical-disamb-most-specific=false --lexical-disamb-longest-match=false --print-table
g c12_glr_pos2 -p glr --lexical-disamb-most-specific=false --lexical-disamb-longest-match=false --print-table
g c12_lr --print-table
g c14_spur -t lalr --print-table
g c14_lay --print-table
g c14_lay_glr -p glr --print-table
g c12_lr_glr -p glr --print-table
g c14_lay2 --print-table
g c14_lay2_glr -p glr --print-table
g c14_div --print-table
g c06_glr_ws -p glr --lexical-disamb-most-specific=false --lexical-disamb-longest-match=false --print-table
g c14_lay3 --print-table
g c06_glr_ws_ctl -p glr --lexical-disamb-most-specific=false --lexical-disamb-longest-match=false --print-table
g c06_len_ctl --print-table
