#![allow(dead_code, unused_imports, non_snake_case, clippy::all)]
use rustemo::{Parser, TreeNode, TreeBuilder, Error};
use std::fmt::Debug;

macro_rules! m { ($n:ident) => { mod $n { #[path = "g.rs"] pub mod g; } } }
m!(c05_inherit); m!(c05_inherit_ok); m!(c02_rn); m!(c02_rn2); m!(c06_len); m!(c06_glr_amb);
m!(c12_glr_pos); m!(c12_glr_pos2); m!(c12_lr); m!(c14_spur); m!(c14_lay); m!(c06_len_ctl); m!(c06_glr_ws_ctl); m!(c14_div); m!(c06_glr_ws); m!(c14_lay3); m!(c14_lay_glr); m!(c12_lr_glr); m!(c14_lay2); m!(c14_lay2_glr);

pub fn dump<P: Debug, TK: Debug>(n: &TreeNode<'_, str, P, TK>) -> String {
    match n {
        TreeNode::TermNode { token, layout } => {
            let l = match layout { Some(l) => format!("<{:?}>", l), None => String::new() };
            format!("{}{:?}:{:?}", l, token.kind, token.value)
        }
        TreeNode::NonTermNode { prod, children, .. } => {
            format!("{:?}[{}]", prod, children.iter().map(|c| dump(c)).collect::<Vec<_>>().join(" "))
        }
    }
}
pub fn recon<P, TK>(n: &TreeNode<'_, str, P, TK>, out: &mut String) {
    match n {
        TreeNode::TermNode { token, layout } => {
            if let Some(l) = layout { out.push_str(l); }
            out.push_str(token.value);
        }
        TreeNode::NonTermNode { children, .. } => for c in children { recon(c, out) },
    }
}
pub fn errs(e: &Error) -> String {
    match e {
        Error::ParseError(p) => format!("ERR span={:?} msg={:?}", p.span, p.message),
        e => format!("ERR other {e:?}"),
    }
}

macro_rules! lr { ($m:ident, $inp:expr) => {{
    let inp: &str = $inp;
    let r = $m::g::GParser::new().parse(inp);
    match r {
        Ok(t) => { let mut s = String::new(); recon(&t, &mut s);
            println!("{} {:?} -> OK {}\n      recon={:?} lossless_prefix={}", stringify!($m), inp, dump(&t), s, inp.starts_with(&s)); }
        Err(e) => println!("{} {:?} -> {}", stringify!($m), inp, errs(&e)),
    }
}}}
macro_rules! glr { ($m:ident, $inp:expr) => {{
    let inp: &str = $inp;
    let r = $m::g::GParser::new().parse(inp);
    match r {
        Ok(f) => { println!("{} {:?} -> OK solutions={}", stringify!($m), inp, f.solutions());
            for i in 0..f.solutions().min(10) { let t = f.get_tree(i).unwrap(); let mut b = TreeBuilder::new();
              let tn = t.build::<_, $m::g::State>(&mut b); println!("      [{}] {}", i, dump(&tn)); } }
        Err(e) => println!("{} {:?} -> {}", stringify!($m), inp, errs(&e)),
    }
}}}

fn main() { if std::env::args().nth(1).as_deref()==Some("3") { return main3(); } if std::env::args().nth(1).as_deref()==Some("2") { return main2(); }
    lr!(c05_inherit, "1+2+3");
    lr!(c05_inherit_ok, "1+2+3");
    lr!(c02_rn, "ac"); lr!(c02_rn, "abc");
    lr!(c02_rn2, "a"); lr!(c02_rn2, "ab");
    let long = "x".repeat(1001);
    let r = c06_len::g::GParser::new().parse(&long);
    match r { Ok(t) => println!("c06_len -> {}", &dump(&t)[..40]), Err(e) => println!("c06_len {}", errs(&e)) }
    for s in ["a", "aa", "aaa", "aaaa", "aaaaa"] { glr!(c06_glr_amb, s); }
    glr!(c12_glr_pos, "abz"); glr!(c12_glr_pos2, "abz"); glr!(c12_glr_pos, "ax"); glr!(c12_glr_pos, "aby");
    lr!(c12_lr, "a = 1;\n  b = ;\n"); lr!(c12_lr, "a = 1;\nć =\n"); lr!(c12_lr, "ž = 1;\n\u{2003}ć 5"); lr!(c12_lr, "");
    lr!(c12_lr, "a = 1;\n  b = 2");
    for s in ["a = 1;\n  b = ;\n", "a = 1;\nć =\n", "", "a = 1;\n  b = 2", "a = 1;\n  b = 2\n", "a = 1; ž"] {
        if let Err(e) = c12_lr::g::GParser::new().parse(s) { let d = format!("{}", e); println!("display ok len={}", d.len()); }
    }
    lr!(c14_spur, "a c d"); lr!(c14_spur, "a c// x\n d"); lr!(c14_spur, "a c // x\n d"); lr!(c14_spur, "b c /");
    lr!(c14_spur, "a c/* */d");
    for s in ["ab", " a b ", "/*1*/a/*2*/b/*3*/", "/*1*/ o /*2*/ a b", "a /*x*/ o /*y*/ b o", " a/*x*/ /*y*/b"] { lr!(c14_lay, s); }
}

fn main2() {
    for s in ["a = 1;\n  b = ;\n", "a = 1;\nć =\n", "", "a = 1;\n  b = 2", "a = 1;\n  b = 2  \n\n", "a = 1; ž", "a = 1 1", "= 1"] {
        lr!(c12_lr, s); glr!(c12_lr_glr, s);
    }
    for s in ["a x b", "a /*x b", "a /*x*/ /*y b", " /*x*/ ", "a b /*x*/ q", "a /*x*/b/* */ b", "a /*x*/b /*"] {
        lr!(c14_lay, s); glr!(c14_lay_glr, s);
    }
    for s in ["a b c", "a /* x y */ b /* z */ c a", "a /* x y b c", "a /* x y */ b /* z c", "a /* x Y */ b c", "a b /* q */ a", "a b /* q */ ", "a /**/ /**/ a"] {
        lr!(c14_lay2, s); glr!(c14_lay2_glr, s);
    }
}

fn main3() { if std::env::var_os("LEN").is_some() {
    let long = "x".repeat(1001);
    match c06_len::g::GParser::new().parse(&long) { Ok(t) => println!("c06_len (1001-char literal, prio 10 vs HI prio 11) -> {}...", &dump(&t)[..30]), Err(e) => println!("{}", errs(&e)) }
    let long = "x".repeat(999);
    match c06_len_ctl::g::GParser::new().parse(&long) { Ok(t) => println!("c06_len_ctl (999-char literal) -> {}...", &dump(&t)[..30]), Err(e) => println!("{}", errs(&e)) }
    return; } if std::env::var_os("TWO").is_some() { glr!(c06_glr_ws, "abb c"); return; } if std::env::var_os("ONE").is_some() { lr!(c14_div, "1 //c\n/ 2"); return; }
    for s in ["1/2/3", "1 / 2", "1 /*c*/ / 2", "1/*c*/ / 2", "1//c\n/ 2", "1 //c\n/ 2", "1 / /*c*/2"] { lr!(c14_div, s); }
    for s in ["abb c", "abbc", "ab b c"] { glr!(c06_glr_ws, s); } for s in ["abbc", "abb c"] { glr!(c06_glr_ws_ctl, s); }
    for s in ["a /* x y */ b /* z */ c a", "a /* x Y */ b c", "a /* x y b c", "a b /* q */ a"] { lr!(c14_lay3, s); }
}
