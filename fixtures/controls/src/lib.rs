//! Positive / negative controls for the rule layer. Every function here is a
//! tiny, fixed example a rule must (or must not) fire on; they are compiled
//! with the same fact extractor as /repo on every check run.
#![allow(dead_code, unused_variables, clippy::all)]
use std::collections::{BTreeMap, BTreeSet, HashMap, HashSet};

pub mod c17 {
    use super::*;

    /// must fire: order of `out` depends on hash order
    pub fn hash_iter_leak(m: &HashMap<String, usize>) -> Vec<String> {
        let mut out = vec![];
        for (k, _) in m {
            out.push(k.clone());
        }
        out
    }

    /// must fire: for_each with side effects (the shape of the repaired defect)
    pub fn hash_for_each(m: &HashMap<String, usize>, names: &mut Vec<String>) {
        m.iter().filter(|&(_, c)| *c > 1).for_each(|(n, _)| names.push(n.clone()));
    }

    /// must fire
    pub fn hash_set_collect_vec(s: &HashSet<u32>) -> Vec<u32> {
        s.iter().copied().collect()
    }

    /// must stay silent: order-insensitive consumers
    pub fn hash_count(m: &HashMap<String, usize>) -> usize {
        m.values().filter(|c| **c > 1).count()
    }

    /// must stay silent
    pub fn hash_to_btree(m: &HashMap<String, usize>) -> BTreeMap<String, usize> {
        m.iter().map(|(k, v)| (k.clone(), *v)).collect()
    }

    /// must stay silent: lookup only
    pub fn hash_lookup(m: &mut HashMap<String, usize>, k: &str) -> bool {
        m.insert(k.to_string(), 1);
        m.contains_key(k) && m.get(k).is_some()
    }

    /// must fire: ambient input
    pub fn reads_clock() -> u64 {
        std::time::SystemTime::now()
            .duration_since(std::time::UNIX_EPOCH)
            .map(|d| d.as_secs())
            .unwrap_or(0)
    }

    /// must fire: environment
    pub fn reads_env() -> bool {
        std::env::var("SOMETHING").is_ok()
    }

    pub static mut COUNTER: usize = 0;
    pub static CELL: std::sync::Mutex<usize> = std::sync::Mutex::new(0);
    pub static PLAIN: usize = 3;
}
