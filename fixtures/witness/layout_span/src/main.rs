// D28: with a Layout rule, `X: Ta Tb Opt` and `Opt` empty, the GLR tree had X[0-3] with last child Opt[6-6] on "a b   c"
// (the parent ends before its last child) and LR had X[0-6]. Exit 0 iff every nonterminal spans first child .. last child
// and LR and GLR print the same tree.
#![allow(dead_code, unused_imports)]
mod g4 { include!(concat!(env!("OUT_DIR"), "/src/g4.rs")); }
mod l4 { include!(concat!(env!("OUT_DIR"), "/src/l4.rs")); }
use rustemo::Parser;
fn span_of<P, TK>(n: &rustemo::TreeNode<'_, str, P, TK>) -> (usize, usize) {
    match n {
        rustemo::TreeNode::TermNode { token, .. } => (token.span.start.pos, token.span.end.pos),
        rustemo::TreeNode::NonTermNode { span, .. } => (span.start.pos, span.end.pos),
    }
}
fn show<P: std::fmt::Debug, TK>(n: &rustemo::TreeNode<'_, str, P, TK>, bad: &mut usize) -> String {
    match n {
        rustemo::TreeNode::TermNode { token, .. } => format!("{}[{}-{}]", token.value, token.span.start.pos, token.span.end.pos),
        rustemo::TreeNode::NonTermNode { prod, children, span, .. } => {
            if let (Some(f), Some(l)) = (children.first(), children.last()) {
                if span_of(f).0 != span.start.pos || span_of(l).1 != span.end.pos {
                    *bad += 1;
                }
            }
            format!("{:?}[{}-{}]({})", prod, span.start.pos, span.end.pos,
                    children.iter().map(|c| show(c, bad)).collect::<Vec<_>>().join(" "))
        }
    }
}
fn main() {
    let mut bad = 0;
    let mut differ = 0;
    for input in ["a b c", "a b   c", "a b #x\n c", "a b d c"] {
        let f = g4::G4Parser::new().parse(input).unwrap();
        let mut b = rustemo::TreeBuilder::new();
        let g = show(&f.get_first_tree().unwrap().build::<_, g4::State>(&mut b), &mut bad);
        let l = show(&l4::L4Parser::new().parse(input).unwrap(), &mut bad);
        println!("{input:?}\n  GLR {g}\n  LR  {l}");
        if g != l {
            differ += 1;
        }
    }
    println!("nodes not spanning first..last child: {bad}; inputs on which LR and GLR differ: {differ}");
    std::process::exit(if bad + differ == 0 { 0 } else { 1 });
}
