// D30: `empty-match lr b` and `empty-match glr b` do not return (run them under `timeout 10`); `aa` and `` print Ok.
#![allow(dead_code, unused_imports)]
mod e { include!(concat!(env!("OUT_DIR"), "/src/e.rs")); }
mod eg { include!(concat!(env!("OUT_DIR"), "/src/eg.rs")); }
use rustemo::Parser;
fn main() {
    let mut a = std::env::args().skip(1);
    let which = a.next().expect("lr|glr");
    let input = a.next().unwrap_or_default();
    let ok = if which == "lr" { e::EParser::new().parse(&input).is_ok() } else { eg::EgParser::new().parse(&input).is_ok() };
    println!("parse returned {}", if ok { "Ok" } else { "Err" });
}
