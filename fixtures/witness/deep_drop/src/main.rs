// D26: `deep-drop glr 100000 bad` dies with "thread 'main' has overflowed its stack" inside parse() (drop of the GSS in
// make_error); `deep-drop lr 100000 bad` prints "parse returned Err" and dies when the parser object is dropped.
// `good` (no trailing '!') returns Ok in both; the result is leaked on purpose so that only parse() itself is observed.
#![allow(dead_code, unused_imports)]
mod lst { include!(concat!(env!("OUT_DIR"), "/src/lst.rs")); }
mod lstg { include!(concat!(env!("OUT_DIR"), "/src/lstg.rs")); }
use rustemo::Parser;
fn main() {
    let mut args = std::env::args().skip(1);
    let which = args.next().expect("lr|glr");
    let n: usize = args.next().expect("n").parse().unwrap();
    let bad = args.next().as_deref() == Some("bad");
    let mut input = "x ".repeat(n);
    if bad {
        input.push('!');
    }
    match which.as_str() {
        "lr" => {
            let p = lst::LstParser::new();
            let r = p.parse(&input);
            eprintln!("parse returned {}", if r.is_ok() { "Ok" } else { "Err" });
            std::mem::forget(r);
            eprintln!("dropping the parser");
            drop(p);
        }
        "glr" => {
            let p = lstg::LstgParser::new();
            let r = p.parse(&input);
            eprintln!("parse returned {}", if r.is_ok() { "Ok" } else { "Err" });
            std::mem::forget(r);
            eprintln!("dropping the parser");
            drop(p);
        }
        _ => panic!("lr|glr"),
    }
    eprintln!("done");
}
