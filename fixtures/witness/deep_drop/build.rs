use rustemo_compiler::{BuilderType, ParserAlgo, Settings};
use std::path::PathBuf;
fn main() {
    let src = PathBuf::from(std::env::var("CARGO_MANIFEST_DIR").unwrap()).join("src");
    let r = Settings::new().builder_type(BuilderType::Generic).process_grammar(&src.join("lst.rustemo"));
    if let Err(e) = r { eprintln!("{e}"); std::process::exit(1); }
    let r = Settings::new().builder_type(BuilderType::Generic).parser_algo(ParserAlgo::GLR)
        .process_grammar(&src.join("lstg.rustemo"));
    if let Err(e) = r { eprintln!("{e}"); std::process::exit(1); }
}
