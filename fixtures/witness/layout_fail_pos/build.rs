use rustemo_compiler::{BuilderType, ParserAlgo, Settings};
use std::path::PathBuf;
fn main() {
    let src = PathBuf::from(std::env::var("CARGO_MANIFEST_DIR").unwrap()).join("src");
    Settings::new().builder_type(BuilderType::Generic).parser_algo(ParserAlgo::GLR)
        .process_grammar(&src.join("g5.rustemo")).unwrap();
    Settings::new().builder_type(BuilderType::Generic).process_grammar(&src.join("l5.rustemo")).unwrap();
}
