// D59: when the layout sub-parser fails half way (an unterminated comment) the content context kept the position the layout
// parser had reached: `a /* x y b` was reported at 10 (end of input) with the content state's expected list (`Tb`), although
// nothing was wrong at 10 for the content grammar and `Tb` was expected at 1. Exit 0 iff LR and GLR both report the error at
// the position where no expected content token and no complete layout was found (1), and well-formed inputs still parse.
#![allow(dead_code, unused_imports)]
mod g5 { include!(concat!(env!("OUT_DIR"), "/src/g5.rs")); }
mod l5 { include!(concat!(env!("OUT_DIR"), "/src/l5.rs")); }
use rustemo::Parser;
fn pos_of(e: &rustemo::Error) -> Option<usize> {
    match e {
        rustemo::Error::ParseError(pe) => pe.span.map(|s| s.start.pos),
        _ => None,
    }
}
fn main() {
    let mut bad = 0;
    for (input, want) in [("a /* x y b", Some(1usize)), ("a /* x Y */ b", Some(1)), ("a /* x y */ b", None), ("a b", None), ("a /* x */ c", Some(10))] {
        let l = l5::L5Parser::new().parse(input).map(|_| ()).map_err(|e| (pos_of(&e), match &e { rustemo::Error::ParseError(pe) => pe.message.clone(), o => format!("{o}") }));
        let g = g5::G5Parser::new().parse(input).map(|_| ()).map_err(|e| (pos_of(&e), match &e { rustemo::Error::ParseError(pe) => pe.message.clone(), o => format!("{o}") }));
        println!("{input:?}\n  LR  {l:?}\n  GLR {g:?}");
        for r in [&l, &g] {
            let got = match r { Ok(()) => None, Err((p, _)) => *p };
            if got != want { bad += 1; }
        }
    }
    println!("results that differ from the expected position: {bad}");
    std::process::exit(if bad == 0 { 0 } else { 1 });
}
