fn main() {
    let r = rustemo_compiler::Settings::new()
        .lexer_type(rustemo_compiler::LexerType::Custom)
        .builder_type(rustemo_compiler::BuilderType::Generic)
        .input_type("str".into())
        .process_dir();
    if let Err(e) = r { eprintln!("{e}"); std::process::exit(1); }
}
