use rustemo::Parser;
mod kwnum { include!(concat!(env!("OUT_DIR"), "/src/kwnum.rs")); }
mod kwnum_lexer;
fn main() {
    let arg = std::env::args().nth(1).unwrap_or_default();
    let input: String = if arg == "long" { let mut s = String::from("aa"); for _ in 0..20 { s.push('€'); } s } else { "5".into() };
    let r = std::panic::catch_unwind(|| {
        let r = kwnum::KwnumParser::new(kwnum_lexer::MyLexer()).parse(&input);
        match r { Ok(_) => println!("OK"), Err(e) => println!("ERR: {}", e.to_pos_str().replace('\n', " ")) }
    });
    if r.is_err() { println!("PANICKED"); std::process::exit(1); }
}
