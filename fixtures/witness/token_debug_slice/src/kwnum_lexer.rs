use super::kwnum::{State, TokenKind};
use rustemo::{Context, LRContext, Lexer, Token, Input as _};
pub type Input = str;
pub type Ctx<'i> = LRContext<'i, Input, State, TokenKind>;
pub struct MyLexer();
impl<'i> Lexer<'i, Ctx<'i>, State, TokenKind> for MyLexer {
    type Input = Input;
    fn next_tokens(&self, context: &mut Ctx<'i>, input: &'i str, _k: Vec<(TokenKind, bool)>)
        -> Box<dyn Iterator<Item = Token<'i, str, TokenKind>> + 'i> {
        // ignores the expected set: always answers Num with the rest of the input
        let value = &input[context.position().pos..];
        Box::new(std::iter::once(Token { kind: TokenKind::Num, value, span: value.span_from(context.position()) }))
    }
}
