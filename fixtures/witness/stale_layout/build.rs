fn main() {
    let r = rustemo_compiler::Settings::new()
        .builder_type(rustemo_compiler::BuilderType::Generic)
        .process_dir();
    if let Err(e) = r { eprintln!("{e}"); std::process::exit(1); }
}
