use rustemo::{Parser, TreeNode};
mod lay { include!(concat!(env!("OUT_DIR"), "/src/lay.rs")); }
fn leaves<'i, P, TK>(n: &TreeNode<'i, str, P, TK>, out: &mut Vec<(Option<&'i str>, &'i str)>) {
    match n {
        TreeNode::TermNode { token, layout } => out.push((*layout, token.value)),
        TreeNode::NonTermNode { children, .. } => for c in children { leaves(c, out) },
    }
}
fn main() {
    let input = "a  =b # c1\n +   c";
    let t = lay::LayParser::new().parse(input).unwrap();
    let mut out = vec![]; leaves(&t, &mut out);
    println!("{:?}", out);
    let rec: String = out.iter().map(|(l, t)| format!("{}{}", l.unwrap_or(""), t)).collect();
    println!("reconstructed={:?} input={:?} equal={}", rec, input, rec == input);
    std::process::exit(if rec == input { 0 } else { 1 });
}
