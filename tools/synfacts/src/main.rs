// synfacts: syn-2 based extractor. Never matches text: everything is emitted as
// items + token trees.
//
//   synfacts items  <file.rs>   items of a (generated) source file
//   synfacts macros <file.rs>   every macro invocation (quote!/parse_quote!/format_ident!/...) with
//                               its enclosing function, line and token tree
use proc_macro2::{Delimiter, TokenStream, TokenTree};
use quote::ToTokens;
use std::fmt::Write as _;
use syn::visit::Visit;

fn esc(s: &str, out: &mut String) {
    out.push('"');
    for c in s.chars() {
        match c {
            '"' => out.push_str("\\\""),
            '\\' => out.push_str("\\\\"),
            '\n' => out.push_str("\\n"),
            '\r' => out.push_str("\\r"),
            '\t' => out.push_str("\\t"),
            c if (c as u32) < 0x20 => {
                let _ = write!(out, "\\u{:04x}", c as u32);
            }
            c => out.push(c),
        }
    }
    out.push('"');
}

fn tt(ts: TokenStream, out: &mut String) {
    out.push('[');
    let mut first = true;
    let mut pending_punct = String::new();
    let flush = |p: &mut String, out: &mut String, first: &mut bool| {
        if !p.is_empty() {
            if !*first {
                out.push(',');
            }
            *first = false;
            out.push_str("[\"p\",");
            esc(p, out);
            out.push(']');
            p.clear();
        }
    };
    for t in ts {
        match t {
            TokenTree::Punct(p) => {
                pending_punct.push(p.as_char());
                if p.spacing() == proc_macro2::Spacing::Alone {
                    flush(&mut pending_punct, out, &mut first);
                }
                continue;
            }
            other => {
                flush(&mut pending_punct, out, &mut first);
                if !first {
                    out.push(',');
                }
                first = false;
                match other {
                    TokenTree::Ident(i) => {
                        out.push_str("[\"i\",");
                        esc(&i.to_string(), out);
                        out.push(']');
                    }
                    TokenTree::Literal(l) => {
                        out.push_str("[\"l\",");
                        esc(&l.to_string(), out);
                        out.push(']');
                    }
                    TokenTree::Group(g) => {
                        let d = match g.delimiter() {
                            Delimiter::Parenthesis => "(",
                            Delimiter::Brace => "{",
                            Delimiter::Bracket => "[",
                            Delimiter::None => "",
                        };
                        out.push_str("[\"g\",");
                        esc(d, out);
                        out.push(',');
                        tt(g.stream(), out);
                        out.push(']');
                    }
                    TokenTree::Punct(_) => unreachable!(),
                }
            }
        }
    }
    flush(&mut pending_punct, out, &mut first);
    out.push(']');
}

fn kv_str(k: &str, v: &str, out: &mut String) {
    esc(k, out);
    out.push(':');
    esc(v, out);
}

fn fn_json(sig: &syn::Signature, block: Option<&syn::Block>, attrs: &[syn::Attribute], out: &mut String) {
    out.push('{');
    kv_str("kind", "fn", out);
    out.push(',');
    kv_str("ident", &sig.ident.to_string(), out);
    out.push(',');
    kv_str("sig", &sig.to_token_stream().to_string(), out);
    out.push_str(",\"line\":");
    let _ = write!(out, "{}", sig.ident.span().start().line);
    out.push_str(",\"params\":[");
    let mut first = true;
    for a in sig.inputs.iter() {
        if !first {
            out.push(',');
        }
        first = false;
        match a {
            syn::FnArg::Receiver(r) => {
                out.push('[');
                esc("self", out);
                out.push(',');
                esc(&r.to_token_stream().to_string(), out);
                out.push(']');
            }
            syn::FnArg::Typed(p) => {
                out.push('[');
                esc(&p.pat.to_token_stream().to_string(), out);
                out.push(',');
                esc(&p.ty.to_token_stream().to_string(), out);
                out.push(']');
            }
        }
    }
    out.push(']');
    out.push_str(",\"ret\":");
    match &sig.output {
        syn::ReturnType::Default => out.push_str("null"),
        syn::ReturnType::Type(_, t) => esc(&t.to_token_stream().to_string(), out),
    }
    out.push_str(",\"attrs\":[");
    for (i, a) in attrs.iter().enumerate() {
        if i > 0 {
            out.push(',');
        }
        esc(&a.to_token_stream().to_string(), out);
    }
    out.push(']');
    if let Some(b) = block {
        out.push_str(",\"body\":");
        let mut ts = TokenStream::new();
        for s in &b.stmts {
            s.to_tokens(&mut ts);
        }
        tt(ts, out);
    }
    out.push('}');
}

fn item_json(item: &syn::Item, out: &mut String) -> bool {
    match item {
        syn::Item::Enum(e) => {
            out.push('{');
            kv_str("kind", "enum", out);
            out.push(',');
            kv_str("ident", &e.ident.to_string(), out);
            out.push_str(",\"line\":");
            let _ = write!(out, "{}", e.ident.span().start().line);
            out.push_str(",\"variants\":[");
            for (i, v) in e.variants.iter().enumerate() {
                if i > 0 {
                    out.push(',');
                }
                out.push('{');
                kv_str("ident", &v.ident.to_string(), out);
                out.push_str(",\"default\":");
                let d = v.attrs.iter().any(|a| a.path().is_ident("default"));
                out.push_str(if d { "true" } else { "false" });
                out.push_str(",\"fields\":[");
                for (j, f) in v.fields.iter().enumerate() {
                    if j > 0 {
                        out.push(',');
                    }
                    esc(&f.ty.to_token_stream().to_string(), out);
                }
                out.push_str("]}");
            }
            out.push_str("]}");
            true
        }
        syn::Item::Struct(s) => {
            out.push('{');
            kv_str("kind", "struct", out);
            out.push(',');
            kv_str("ident", &s.ident.to_string(), out);
            out.push_str(",\"fields\":[");
            for (j, f) in s.fields.iter().enumerate() {
                if j > 0 {
                    out.push(',');
                }
                out.push('[');
                esc(&f.ident.as_ref().map(|i| i.to_string()).unwrap_or_default(), out);
                out.push(',');
                esc(&f.ty.to_token_stream().to_string(), out);
                out.push(']');
            }
            out.push_str("]}");
            true
        }
        syn::Item::Type(t) => {
            out.push('{');
            kv_str("kind", "type", out);
            out.push(',');
            kv_str("ident", &t.ident.to_string(), out);
            out.push(',');
            kv_str("generics", &t.generics.to_token_stream().to_string(), out);
            out.push(',');
            kv_str("ty", &t.ty.to_token_stream().to_string(), out);
            out.push_str(",\"tt\":");
            tt(t.ty.to_token_stream(), out);
            out.push('}');
            true
        }
        syn::Item::Const(c) => {
            out.push('{');
            kv_str("kind", "const", out);
            out.push(',');
            kv_str("ident", &c.ident.to_string(), out);
            out.push(',');
            kv_str("ty", &c.ty.to_token_stream().to_string(), out);
            out.push(',');
            kv_str("expr", &c.expr.to_token_stream().to_string(), out);
            out.push('}');
            true
        }
        syn::Item::Static(s) => {
            out.push('{');
            kv_str("kind", "static", out);
            out.push(',');
            kv_str("ident", &s.ident.to_string(), out);
            out.push(',');
            kv_str("ty", &s.ty.to_token_stream().to_string(), out);
            out.push_str(",\"expr\":");
            tt(s.expr.to_token_stream(), out);
            out.push('}');
            true
        }
        syn::Item::Fn(f) => {
            fn_json(&f.sig, Some(&f.block), &f.attrs, out);
            true
        }
        syn::Item::Impl(im) => {
            out.push('{');
            kv_str("kind", "impl", out);
            out.push(',');
            kv_str(
                "trait",
                &im.trait_.as_ref().map(|t| t.1.to_token_stream().to_string()).unwrap_or_default(),
                out,
            );
            out.push(',');
            kv_str("self_ty", &im.self_ty.to_token_stream().to_string(), out);
            out.push(',');
            kv_str("generics", &im.generics.to_token_stream().to_string(), out);
            out.push_str(",\"items\":[");
            let mut first = true;
            for it in &im.items {
                match it {
                    syn::ImplItem::Fn(f) => {
                        if !first {
                            out.push(',');
                        }
                        first = false;
                        fn_json(&f.sig, Some(&f.block), &f.attrs, out);
                    }
                    syn::ImplItem::Type(t) => {
                        if !first {
                            out.push(',');
                        }
                        first = false;
                        out.push('{');
                        kv_str("kind", "assoc_type", out);
                        out.push(',');
                        kv_str("ident", &t.ident.to_string(), out);
                        out.push(',');
                        kv_str("ty", &t.ty.to_token_stream().to_string(), out);
                        out.push('}');
                    }
                    _ => {}
                }
            }
            out.push_str("]}");
            true
        }
        syn::Item::Use(u) => {
            out.push('{');
            kv_str("kind", "use", out);
            out.push(',');
            kv_str("tokens", &u.to_token_stream().to_string(), out);
            out.push('}');
            true
        }
        syn::Item::Mod(m) => {
            out.push('{');
            kv_str("kind", "mod", out);
            out.push(',');
            kv_str("ident", &m.ident.to_string(), out);
            out.push_str(",\"items\":[");
            if let Some((_, items)) = &m.content {
                let mut first = true;
                for it in items {
                    let mut s = String::new();
                    if item_json(it, &mut s) {
                        if !first {
                            out.push(',');
                        }
                        first = false;
                        out.push_str(&s);
                    }
                }
            }
            out.push_str("]}");
            true
        }
        syn::Item::Macro(m) => {
            out.push('{');
            kv_str("kind", "macro", out);
            out.push(',');
            kv_str("path", &m.mac.path.to_token_stream().to_string(), out);
            out.push_str(",\"tt\":");
            tt(m.mac.tokens.clone(), out);
            out.push('}');
            true
        }
        _ => false,
    }
}

struct MacVisitor {
    out: String,
    first: bool,
    fn_stack: Vec<String>,
}

impl<'ast> Visit<'ast> for MacVisitor {
    fn visit_item_fn(&mut self, i: &'ast syn::ItemFn) {
        self.fn_stack.push(i.sig.ident.to_string());
        syn::visit::visit_item_fn(self, i);
        self.fn_stack.pop();
    }
    fn visit_impl_item_fn(&mut self, i: &'ast syn::ImplItemFn) {
        self.fn_stack.push(i.sig.ident.to_string());
        syn::visit::visit_impl_item_fn(self, i);
        self.fn_stack.pop();
    }
    fn visit_trait_item_fn(&mut self, i: &'ast syn::TraitItemFn) {
        self.fn_stack.push(i.sig.ident.to_string());
        syn::visit::visit_trait_item_fn(self, i);
        self.fn_stack.pop();
    }
    fn visit_item_impl(&mut self, i: &'ast syn::ItemImpl) {
        let name = format!(
            "impl {} for {}",
            i.trait_.as_ref().map(|t| t.1.to_token_stream().to_string()).unwrap_or_default(),
            i.self_ty.to_token_stream()
        );
        self.fn_stack.push(name);
        syn::visit::visit_item_impl(self, i);
        self.fn_stack.pop();
    }
    fn visit_macro(&mut self, m: &'ast syn::Macro) {
        if !self.first {
            self.out.push(',');
        }
        self.first = false;
        self.out.push('{');
        kv_str("path", &m.path.to_token_stream().to_string().replace(' ', ""), &mut self.out);
        self.out.push_str(",\"line\":");
        let line = m.path.segments.first().map(|s| s.ident.span().start().line).unwrap_or(0);
        let _ = write!(self.out, "{}", line);
        self.out.push_str(",\"in\":[");
        for (i, f) in self.fn_stack.iter().enumerate() {
            if i > 0 {
                self.out.push(',');
            }
            esc(f, &mut self.out);
        }
        self.out.push_str("],\"tt\":");
        tt(m.tokens.clone(), &mut self.out);
        self.out.push('}');
        // nested macros inside the token stream of expression-like macros
        if let Ok(file) = syn::parse2::<syn::File>(m.tokens.clone()) {
            syn::visit::visit_file(self, &file);
        } else if let Ok(e) = syn::parse2::<syn::Expr>(m.tokens.clone()) {
            syn::visit::visit_expr(self, &e);
        }
    }
}

fn main() {
    let args: Vec<String> = std::env::args().collect();
    if args.len() < 3 {
        eprintln!("usage: synfacts items|macros <file.rs>");
        std::process::exit(2);
    }
    let src = std::fs::read_to_string(&args[2]).unwrap_or_else(|e| {
        eprintln!("cannot read {}: {e}", args[2]);
        std::process::exit(2)
    });
    let file = match syn::parse_file(&src) {
        Ok(f) => f,
        Err(e) => {
            // a generated file that is not valid Rust syntax is itself a finding
            let mut out = String::from("{\"parse_error\":");
            esc(&format!("{e} at line {}", e.span().start().line), &mut out);
            out.push('}');
            println!("{out}");
            return;
        }
    };
    let mut out = String::new();
    match args[1].as_str() {
        "items" => {
            out.push_str("{\"items\":[");
            let mut first = true;
            for it in &file.items {
                let mut s = String::new();
                if item_json(it, &mut s) {
                    if !first {
                        out.push(',');
                    }
                    first = false;
                    out.push_str(&s);
                }
            }
            out.push_str("]}");
        }
        "macros" => {
            let mut v = MacVisitor { out: String::from("{\"macros\":["), first: true, fn_stack: vec![] };
            v.visit_file(&file);
            out = v.out;
            out.push_str("]}");
        }
        _ => {
            eprintln!("unknown mode");
            std::process::exit(2);
        }
    }
    println!("{out}");
}
