// mirfacts: rustc_private driver that exports structured MIR facts (one JSON
// file per compiled crate) for the rule layer in /verif/rules.
//
// Invoked as RUSTC_WORKSPACE_WRAPPER: argv = [mirfacts, <rustc path>, rustc args...].
// Environment:
//   MIRFACTS_OUT     directory that receives <crate>-<pid>.json (required to dump)
//   MIRFACTS_BODIES  optional comma separated list of substrings; when set, full
//                    bodies are exported only for functions whose path contains
//                    one of them (call summaries are always exported)
#![feature(rustc_private)]

extern crate rustc_abi;
extern crate rustc_driver;
extern crate rustc_hir;
extern crate rustc_interface;
extern crate rustc_middle;
extern crate rustc_span;

use rustc_driver::{Callbacks, Compilation};
use rustc_hir::def::DefKind;
use rustc_hir::def_id::{DefId, LocalDefId};
use rustc_interface::interface::Compiler;
use rustc_middle::mir::*;
use rustc_middle::ty::print::{with_no_trimmed_paths, with_no_visible_paths, with_resolve_crate_name};
use rustc_middle::ty::{self, Instance, Ty, TyCtxt, TypingEnv};
use rustc_span::Span;
use std::fmt::Write as _;

// ---------------------------------------------------------------- JSON

enum J {
    Null,
    Bool(bool),
    Int(i128),
    Str(String),
    Arr(Vec<J>),
    Obj(Vec<(&'static str, J)>),
}

fn s<T: Into<String>>(x: T) -> J {
    J::Str(x.into())
}

impl J {
    fn write(&self, out: &mut String) {
        match self {
            J::Null => out.push_str("null"),
            J::Bool(b) => out.push_str(if *b { "true" } else { "false" }),
            J::Int(i) => {
                let _ = write!(out, "{}", i);
            }
            J::Str(st) => {
                out.push('"');
                for c in st.chars() {
                    match c {
                        '"' => out.push_str("\\\""),
                        '\\' => out.push_str("\\\\"),
                        '\n' => out.push_str("\\n"),
                        '\r' => out.push_str("\\r"),
                        '\t' => out.push_str("\\t"),
                        c if (c as u32) < 0x20 => {
                            let _ = write!(out, "\\u{:04x}", c as u32);
                        }
                        c => out.push(c),
                    }
                }
                out.push('"');
            }
            J::Arr(v) => {
                out.push('[');
                for (i, x) in v.iter().enumerate() {
                    if i > 0 {
                        out.push(',');
                    }
                    x.write(out);
                }
                out.push(']');
            }
            J::Obj(v) => {
                out.push('{');
                for (i, (k, x)) in v.iter().enumerate() {
                    if i > 0 {
                        out.push(',');
                    }
                    out.push('"');
                    out.push_str(k);
                    out.push_str("\":");
                    x.write(out);
                }
                out.push('}');
            }
        }
    }
}

// ---------------------------------------------------------------- driver

struct Cb;

impl Callbacks for Cb {
    fn after_analysis<'tcx>(&mut self, _c: &Compiler, tcx: TyCtxt<'tcx>) -> Compilation {
        if let Ok(dir) = std::env::var("MIRFACTS_OUT") {
            with_resolve_crate_name!(with_no_visible_paths!(with_no_trimmed_paths!(dump_crate(tcx, &dir))));
        }
        Compilation::Continue
    }
}

fn main() {
    let mut args: Vec<String> = std::env::args().collect();
    // wrapper mode: argv[1] is the path of rustc
    if args.len() > 1 && (args[1].ends_with("rustc") || args[1].contains("/rustc")) {
        args.remove(1);
    }
    args[0] = "rustc".to_string();
    rustc_driver::run_compiler(&args, &mut Cb);
}

struct Cx<'tcx> {
    tcx: TyCtxt<'tcx>,
    filters: Option<Vec<String>>,
    // ADTs (possibly from other crates) whose discriminant is read somewhere
    seen_adts: std::cell::RefCell<std::collections::BTreeMap<String, DefId>>,
}

fn dump_crate<'tcx>(tcx: TyCtxt<'tcx>, dir: &str) {
    let crate_name = tcx.crate_name(rustc_hir::def_id::LOCAL_CRATE).to_string();
    if crate_name.starts_with("build_script_") && std::env::var("MIRFACTS_BUILD_SCRIPTS").is_err() {
        return;
    }
    let filters = std::env::var("MIRFACTS_BODIES")
        .ok()
        .filter(|x| !x.is_empty())
        .map(|x| x.split(',').map(|y| y.to_string()).collect::<Vec<_>>());
    let cx = Cx { tcx, filters, seen_adts: Default::default() };
    let mut fns = vec![];
    for &ldid in tcx.mir_keys(()).iter() {
        let kind = tcx.def_kind(ldid);
        if !matches!(kind, DefKind::Fn | DefKind::AssocFn | DefKind::Closure) {
            continue;
        }
        // skip coroutine closures etc. that have no optimized MIR
        if !tcx.is_mir_available(ldid.to_def_id()) {
            continue;
        }
        fns.push(cx.dump_fn(ldid, kind));
    }
    let mut adts = vec![];
    let mut statics = vec![];
    let mut impls = vec![];
    let mut traits = vec![];
    for ldid in tcx.hir_crate_items(()).definitions() {
        let did = ldid.to_def_id();
        match tcx.def_kind(ldid) {
            DefKind::Struct | DefKind::Enum | DefKind::Union => {
                let adt = tcx.adt_def(did);
                let mut vars = vec![];
                for (vi, v) in adt.variants().iter_enumerated() {
                    let mut fields = vec![];
                    for f in v.fields.iter() {
                        let fty = tcx.type_of(f.did).instantiate_identity().skip_norm_wip();
                        fields.push(J::Obj(vec![
                            ("name", s(f.name.to_string())),
                            ("ty", s(format!("{}", fty))),
                        ]));
                    }
                    let discr = if adt.is_enum() { adt.discriminant_for_variant(tcx, vi).val } else { 0 };
                    vars.push(J::Obj(vec![
                        ("name", s(v.name.to_string())),
                        ("discr", J::Int(discr as i128)),
                        ("fields", J::Arr(fields)),
                    ]));
                }
                adts.push(J::Obj(vec![
                    ("path", s(tcx.def_path_str(did))),
                    ("enum", J::Bool(adt.is_enum())),
                    ("variants", J::Arr(vars)),
                ]));
            }
            DefKind::Static { mutability, .. } => {
                let ty = tcx.type_of(did).instantiate_identity().skip_norm_wip();
                let env = TypingEnv::post_analysis(tcx, did);
                let freeze = ty.is_freeze(tcx, env);
                statics.push(J::Obj(vec![
                    ("path", s(tcx.def_path_str(did))),
                    ("mut", J::Bool(mutability.is_mut())),
                    ("ty", s(format!("{}", ty))),
                    ("freeze", J::Bool(freeze)),
                    ("loc", cx.loc(tcx.def_span(did))),
                ]));
            }
            DefKind::Impl { of_trait } => {
                let self_ty = tcx.type_of(did).instantiate_identity().skip_norm_wip();
                let tr = if of_trait {
                    let tref = tcx.impl_trait_ref(did).instantiate_identity().skip_norm_wip();
                    Some((tcx.def_path_str(tref.def_id), format!("{}", tref)))
                } else {
                    None
                };
                let mut items = vec![];
                for it in tcx.associated_items(did).in_definition_order() {
                    if !matches!(it.kind, ty::AssocKind::Fn { .. }) {
                        continue;
                    }
                    items.push(J::Obj(vec![
                        ("name", s(it.name().to_string())),
                        ("path", s(tcx.def_path_str(it.def_id))),
                    ]));
                }
                impls.push(J::Obj(vec![
                    ("self_ty", s(format!("{}", self_ty))),
                    ("trait", tr.as_ref().map(|t| s(t.0.clone())).unwrap_or(J::Null)),
                    ("trait_ref", tr.as_ref().map(|t| s(t.1.clone())).unwrap_or(J::Null)),
                    ("items", J::Arr(items)),
                    ("loc", cx.loc(tcx.def_span(did))),
                ]));
            }
            DefKind::Trait => {
                let mut items = vec![];
                for it in tcx.associated_items(did).in_definition_order() {
                    if !matches!(it.kind, ty::AssocKind::Fn { .. }) {
                        continue;
                    }
                    items.push(J::Obj(vec![
                        ("name", s(it.name().to_string())),
                        ("path", s(tcx.def_path_str(it.def_id))),
                        ("has_default", J::Bool(it.defaultness(tcx).has_value())),
                    ]));
                }
                traits.push(J::Obj(vec![
                    ("path", s(tcx.def_path_str(did))),
                    ("items", J::Arr(items)),
                ]));
            }
            _ => {}
        }
    }
    for (path, did) in cx.seen_adts.borrow().iter() {
        if did.is_local() {
            continue;
        }
        let adt = tcx.adt_def(*did);
        let mut vars = vec![];
        for (vi, v) in adt.variants().iter_enumerated() {
            let discr = adt.discriminant_for_variant(tcx, vi).val;
            vars.push(J::Obj(vec![
                ("name", s(v.name.to_string())),
                ("discr", J::Int(discr as i128)),
                ("fields", J::Arr(vec![])),
            ]));
        }
        adts.push(J::Obj(vec![
            ("path", s(path.clone())),
            ("enum", J::Bool(true)),
            ("external", J::Bool(true)),
            ("variants", J::Arr(vars)),
        ]));
    }
    let args: Vec<String> = std::env::args().collect();
    let is_test = args.iter().any(|a| a == "--test");
    let top = J::Obj(vec![
        ("crate", s(crate_name.clone())),
        ("pkg", s(std::env::var("CARGO_PKG_NAME").unwrap_or_default())),
        ("manifest_dir", s(std::env::var("CARGO_MANIFEST_DIR").unwrap_or_default())),
        ("test", J::Bool(is_test)),
        ("fns", J::Arr(fns)),
        ("adts", J::Arr(adts)),
        ("statics", J::Arr(statics)),
        ("impls", J::Arr(impls)),
        ("traits", J::Arr(traits)),
    ]);
    let mut out = String::new();
    top.write(&mut out);
    let path = format!(
        "{}/{}-{}{}.mir.json",
        dir,
        crate_name,
        if is_test { "test-" } else { "" },
        std::process::id()
    );
    let _ = std::fs::create_dir_all(dir);
    std::fs::write(&path, out).expect("mirfacts: cannot write fact file");
}

impl<'tcx> Cx<'tcx> {
    fn loc(&self, span: Span) -> J {
        let sm = self.tcx.sess.source_map();
        let lo = sm.lookup_char_pos(span.lo());
        let file = format!("{}", lo.file.name.prefer_local_unconditionally());
        J::Obj(vec![("file", s(file)), ("line", J::Int(lo.line as i128))])
    }

    fn line(&self, span: Span) -> i128 {
        // line of the outermost (user-written) call site when the span comes
        // from a macro expansion
        let sp = span.source_callsite();
        let sm = self.tcx.sess.source_map();
        sm.lookup_char_pos(sp.lo()).line as i128
    }

    fn macs(&self, span: Span) -> J {
        if !span.from_expansion() {
            return J::Arr(vec![]);
        }
        let mut v = vec![];
        for e in span.macro_backtrace() {
            v.push(s(e.kind.descr()));
        }
        J::Arr(v)
    }

    fn want_body(&self, path: &str) -> bool {
        match &self.filters {
            None => true,
            Some(f) => f.iter().any(|x| path.contains(x.as_str())),
        }
    }

    fn dump_fn(&self, ldid: LocalDefId, kind: DefKind) -> J {
        let tcx = self.tcx;
        let did = ldid.to_def_id();
        let path = tcx.def_path_str(did);
        let body: &Body<'tcx> = tcx.optimized_mir(did);
        let env = TypingEnv::post_analysis(tcx, did);
        let parent = tcx.typeck_root_def_id(did);
        let full = self.want_body(&path);

        let mut o: Vec<(&'static str, J)> = vec![];
        o.push(("path", s(path)));
        o.push((
            "kind",
            s(match kind {
                DefKind::Fn => "Fn",
                DefKind::AssocFn => "AssocFn",
                _ => "Closure",
            }),
        ));
        if parent != did {
            o.push(("parent", s(tcx.def_path_str(parent))));
        }
        let sm = tcx.sess.source_map();
        let lo = sm.lookup_char_pos(body.span.lo());
        o.push(("file", s(format!("{}", lo.file.name.prefer_local_unconditionally()))));
        o.push(("line", J::Int(lo.line as i128)));
        o.push(("exp", J::Bool(body.span.from_expansion())));
        o.push(("argc", J::Int(body.arg_count as i128)));
        if matches!(kind, DefKind::Fn | DefKind::AssocFn) {
            let vis = tcx.visibility(did);
            o.push(("pub", J::Bool(vis.is_public())));
            // trait impl method -> trait item it implements
            if let Some(ai) = tcx.opt_associated_item(did) {
                if let Some(tid) = ai.trait_item_def_id() {
                    o.push(("implements", s(tcx.def_path_str(tid))));
                }
                if let ty::AssocContainer::Trait = ai.container {
                    o.push(("trait_default", J::Bool(true)));
                }
            }
        }
        // closures: captured variable names in field order
        if matches!(kind, DefKind::Closure) {
            let mut ups = vec![];
            for cap in tcx.closure_captures(ldid) {
                ups.push(J::Obj(vec![
                    ("name", s(cap.to_string(tcx))),
                    ("by_ref", J::Bool(cap.is_by_ref())),
                ]));
            }
            o.push(("upvars", J::Arr(ups)));
        }
        // locals
        let mut locals = vec![];
        for (_l, d) in body.local_decls.iter_enumerated() {
            locals.push(J::Obj(vec![
                ("ty", s(format!("{}", d.ty))),
            ]));
        }
        // var debug info
        let mut vars = vec![];
        for v in body.var_debug_info.iter() {
            match &v.value {
                VarDebugInfoContents::Place(p) => {
                    vars.push(J::Obj(vec![
                        ("name", s(v.name.to_string())),
                        ("place", self.place(body, p)),
                        ("arg", v.argument_index.map(|i| J::Int(i as i128)).unwrap_or(J::Null)),
                    ]));
                }
                VarDebugInfoContents::Const(c) => {
                    vars.push(J::Obj(vec![
                        ("name", s(v.name.to_string())),
                        ("const", s(format!("{}", c))),
                    ]));
                }
            }
        }
        o.push(("ret", s(format!("{}", body.local_decls[RETURN_PLACE].ty))));
        if full {
            o.push(("locals", J::Arr(locals)));
            o.push(("vars", J::Arr(vars)));
        }

        let mut blocks = vec![];
        let mut calls = vec![];
        for (_bb, data) in body.basic_blocks.iter_enumerated() {
            let mut stmts = vec![];
            if full {
                for st in data.statements.iter() {
                    match &st.kind {
                        StatementKind::Assign(b) => {
                            let (dst, rv) = &**b;
                            stmts.push(J::Obj(vec![
                                ("k", s("assign")),
                                ("dst", self.place(body, dst)),
                                ("rv", self.rvalue(body, env, rv)),
                                ("exp", J::Bool(st.source_info.span.from_expansion())),
                                ("line", J::Int(self.line(st.source_info.span))),
                            ]));
                        }
                        StatementKind::SetDiscriminant { place, variant_index } => {
                            stmts.push(J::Obj(vec![
                                ("k", s("setdiscr")),
                                ("dst", self.place(body, place)),
                                ("variant", J::Int(variant_index.as_u32() as i128)),
                                ("line", J::Int(self.line(st.source_info.span))),
                            ]));
                        }
                        _ => {}
                    }
                }
            }
            let term = data.terminator();
            let tj = self.terminator(body, env, term, data.is_cleanup);
            if let TerminatorKind::Call { .. } = &term.kind {
                if !full {
                    calls.push(self.call_summary(body, env, term));
                }
            }
            if full {
                blocks.push(J::Obj(vec![
                    ("stmts", J::Arr(stmts)),
                    ("term", tj),
                    ("cleanup", J::Bool(data.is_cleanup)),
                ]));
            }
        }
        // constants of the promoted bodies (string literals behind `&&str` etc.)
        let mut proms = vec![];
        for pb in tcx.promoted_mir(did).iter() {
            let mut consts = vec![];
            for data in pb.basic_blocks.iter() {
                for st in data.statements.iter() {
                    if let StatementKind::Assign(b) = &st.kind {
                        let mut ops: Vec<&Operand<'tcx>> = vec![];
                        match &b.1 {
                            Rvalue::Use(op, ..) => ops.push(op),
                            Rvalue::Aggregate(kind, fs) => {
                                // a promoted unit variant (`&TableType::LALR`) has no operand: export its name
                                if fs.is_empty() {
                                    if let AggregateKind::Adt(did, vi, _, _, _) = &**kind {
                                        let v = tcx.adt_def(*did).variant(*vi);
                                        consts.push(s(format!("{}::{}", tcx.def_path_str(*did), v.name)));
                                    }
                                }
                                for f in fs.iter() {
                                    ops.push(f)
                                }
                            }
                            Rvalue::Cast(_, op, _) => ops.push(op),
                            _ => {}
                        }
                        for op in ops {
                            if let Operand::Constant(c) = op {
                                consts.push(s(format!("{}", c.const_)));
                            }
                        }
                    }
                }
            }
            proms.push(J::Arr(consts));
        }
        if !proms.is_empty() {
            o.push(("promoted", J::Arr(proms)));
        }
        if full {
            o.push(("blocks", J::Arr(blocks)));
        } else {
            o.push(("calls", J::Arr(calls)));
        }
        J::Obj(o)
    }

    fn place(&self, body: &Body<'tcx>, p: &Place<'tcx>) -> J {
        let tcx = self.tcx;
        let mut proj = vec![];
        let mut pty = rustc_middle::mir::PlaceTy::from_ty(body.local_decls[p.local].ty);
        for elem in p.projection.iter() {
            let j = match elem {
                ProjectionElem::Deref => J::Obj(vec![("k", s("deref"))]),
                ProjectionElem::Field(f, fty) => {
                    let mut o = vec![("k", s("field")), ("i", J::Int(f.as_u32() as i128))];
                    match pty.ty.kind() {
                        ty::Adt(adt, _) => {
                            let vi = pty.variant_index.unwrap_or(rustc_abi::FIRST_VARIANT);
                            let v = adt.variant(vi);
                            o.push(("adt", s(tcx.def_path_str(adt.did()))));
                            o.push(("name", s(v.fields[f].name.to_string())));
                            if adt.is_enum() {
                                o.push(("variant", s(v.name.to_string())));
                            }
                        }
                        ty::Closure(d, _) => {
                            o.push(("closure", s(tcx.def_path_str(*d))));
                        }
                        ty::Tuple(_) => {
                            o.push(("tuple", J::Bool(true)));
                        }
                        _ => {}
                    }
                    o.push(("ty", s(format!("{}", fty))));
                    J::Obj(o)
                }
                ProjectionElem::Downcast(name, vi) => J::Obj(vec![
                    ("k", s("downcast")),
                    ("variant", name.map(|n| s(n.to_string())).unwrap_or(J::Null)),
                    ("vi", J::Int(vi.as_u32() as i128)),
                ]),
                ProjectionElem::Index(l) => {
                    J::Obj(vec![("k", s("index")), ("l", J::Int(l.as_u32() as i128))])
                }
                ProjectionElem::ConstantIndex { offset, min_length, from_end } => J::Obj(vec![
                    ("k", s("cindex")),
                    ("i", J::Int(offset as i128)),
                    ("min", J::Int(min_length as i128)),
                    ("from_end", J::Bool(from_end)),
                ]),
                ProjectionElem::Subslice { from, to, from_end } => J::Obj(vec![
                    ("k", s("subslice")),
                    ("from", J::Int(from as i128)),
                    ("to", J::Int(to as i128)),
                    ("from_end", J::Bool(from_end)),
                ]),
                _ => J::Obj(vec![("k", s("other"))]),
            };
            proj.push(j);
            pty = pty.projection_ty(tcx, elem);
        }
        J::Obj(vec![("l", J::Int(p.local.as_u32() as i128)), ("proj", J::Arr(proj))])
    }

    fn fn_ref(&self, env: TypingEnv<'tcx>, d: DefId, ga: ty::GenericArgsRef<'tcx>) -> Vec<(&'static str, J)> {
        let tcx = self.tcx;
        let mut o: Vec<(&'static str, J)> = vec![];
        o.push(("def", s(tcx.def_path_str(d))));
        o.push(("inst", s(tcx.def_path_str_with_args(d, ga))));
        let mut resolved = None;
        if let Ok(Some(inst)) = Instance::try_resolve(tcx, env, d, ga) {
            let rd = inst.def_id();
            resolved = Some(tcx.def_path_str(rd));
            o.push(("resolved", s(tcx.def_path_str(rd))));
            o.push(("local", J::Bool(rd.is_local())));
            match inst.def {
                ty::InstanceKind::Item(_) => {}
                ref other => {
                    o.push(("shim", s(format!("{:?}", std::mem::discriminant(other)))));
                    let nm = match other {
                        ty::InstanceKind::Virtual(..) => "virtual",
                        ty::InstanceKind::ClosureOnceShim { .. } => "closure_once",
                        ty::InstanceKind::FnPtrShim(..) => "fnptr",
                        ty::InstanceKind::DropGlue(..) => "dropglue",
                        ty::InstanceKind::CloneShim(..) => "clone",
                        ty::InstanceKind::Intrinsic(..) => "intrinsic",
                        ty::InstanceKind::ReifyShim(..) => "reify",
                        _ => "othershim",
                    };
                    o.push(("shimkind", s(nm)));
                }
            }
        }
        if let Some(tr) = tcx.trait_of_assoc(d) {
            o.push(("trait", s(tcx.def_path_str(tr))));
            o.push(("method", s(tcx.item_name(d).to_string())));
            if resolved.is_none() {
                o.push(("unresolved", J::Bool(true)));
            }
        }
        let mut gargs = vec![];
        for a in ga.iter() {
            gargs.push(s(format!("{}", a)));
        }
        o.push(("gargs", J::Arr(gargs)));
        o
    }

    fn operand(&self, body: &Body<'tcx>, env: TypingEnv<'tcx>, op: &Operand<'tcx>) -> J {
        let tcx = self.tcx;
        match op {
            Operand::Copy(p) => J::Obj(vec![("k", s("copy")), ("p", self.place(body, p))]),
            Operand::Move(p) => J::Obj(vec![("k", s("move")), ("p", self.place(body, p))]),
            Operand::Constant(c) => {
                let cty = c.const_.ty();
                if let ty::FnDef(d, ga) = cty.kind() {
                    let mut o = self.fn_ref(env, *d, ga.skip_binder_if_needed());
                    o.insert(0, ("k", s("fn")));
                    return J::Obj(o);
                }
                let mut o = vec![("k", s("const")), ("ty", s(format!("{}", cty)))];
                if let Const::Unevaluated(uv, _) = c.const_ {
                    if let Some(p) = uv.promoted {
                        o.push(("promoted", J::Int(p.as_u32() as i128)));
                    }
                }
                if let Some(si) = c.const_.try_eval_scalar_int(tcx, env) {
                    let size = si.size();
                    let bits = si.to_bits(size);
                    let v: i128 = if cty.is_signed() {
                        size.sign_extend(bits) as i128
                    } else {
                        bits as i128
                    };
                    o.push(("int", J::Int(v)));
                }
                o.push(("disp", s(format!("{}", c.const_))));
                J::Obj(o)
            }
            #[allow(unreachable_patterns)]
            _ => J::Obj(vec![("k", s("otherop"))]),
        }
    }

    fn rvalue(&self, body: &Body<'tcx>, env: TypingEnv<'tcx>, rv: &Rvalue<'tcx>) -> J {
        let tcx = self.tcx;
        match rv {
            Rvalue::Use(op, ..) => J::Obj(vec![("k", s("use")), ("op", self.operand(body, env, op))]),
            Rvalue::Ref(_, bk, p) => J::Obj(vec![
                ("k", s("ref")),
                ("mut", J::Bool(matches!(bk, BorrowKind::Mut { .. }))),
                ("p", self.place(body, p)),
            ]),
            Rvalue::RawPtr(kind, p) => J::Obj(vec![
                ("k", s("rawptr")),
                ("mut", J::Bool(format!("{:?}", kind).contains("Mut"))),
                ("p", self.place(body, p)),
            ]),
            Rvalue::CopyForDeref(p) => J::Obj(vec![
                ("k", s("use")),
                ("op", J::Obj(vec![("k", s("copy")), ("p", self.place(body, p))])),
            ]),
            Rvalue::Discriminant(p) => {
                let pty = p.ty(&body.local_decls, tcx).ty;
                if let ty::Adt(adt, _) = pty.kind() {
                    if adt.is_enum() {
                        self.seen_adts
                            .borrow_mut()
                            .insert(tcx.def_path_str(adt.did()), adt.did());
                    }
                }
                J::Obj(vec![("k", s("discr")), ("p", self.place(body, p))])
            }
            Rvalue::BinaryOp(op, b) => {
                let (l, r) = &**b;
                J::Obj(vec![
                    ("k", s("bin")),
                    ("op", s(format!("{:?}", op))),
                    ("l", self.operand(body, env, l)),
                    ("r", self.operand(body, env, r)),
                ])
            }
            Rvalue::UnaryOp(op, x) => J::Obj(vec![
                ("k", s("un")),
                ("op", s(format!("{:?}", op))),
                ("x", self.operand(body, env, x)),
            ]),
            Rvalue::Cast(kind, op, ty) => J::Obj(vec![
                ("k", s("cast")),
                ("ck", s(format!("{:?}", kind))),
                ("op", self.operand(body, env, op)),
                ("ty", s(format!("{}", ty))),
            ]),
            Rvalue::Repeat(op, n) => J::Obj(vec![
                ("k", s("repeat")),
                ("op", self.operand(body, env, op)),
                ("n", s(format!("{}", n))),
            ]),
            Rvalue::Aggregate(kind, fields) => {
                let mut o: Vec<(&'static str, J)> = vec![("k", s("agg"))];
                match &**kind {
                    AggregateKind::Adt(did, vi, _, _, active) => {
                        let adt = tcx.adt_def(*did);
                        let v = adt.variant(*vi);
                        o.push(("adt", s(tcx.def_path_str(*did))));
                        o.push(("variant", s(v.name.to_string())));
                        let mut names = vec![];
                        if let Some(a) = active {
                            names.push(s(v.fields[*a].name.to_string()));
                        } else {
                            for f in v.fields.iter() {
                                names.push(s(f.name.to_string()));
                            }
                        }
                        o.push(("names", J::Arr(names)));
                    }
                    AggregateKind::Tuple => o.push(("tuple", J::Bool(true))),
                    AggregateKind::Array(t) => o.push(("array", s(format!("{}", t)))),
                    AggregateKind::Closure(d, _) => {
                        o.push(("closure", s(tcx.def_path_str(*d))));
                    }
                    _ => o.push(("otheragg", J::Bool(true))),
                }
                let mut fs = vec![];
                for f in fields.iter() {
                    fs.push(self.operand(body, env, f));
                }
                o.push(("ops", J::Arr(fs)));
                J::Obj(o)
            }
            other => J::Obj(vec![("k", s("other")), ("dbg", s(format!("{:?}", other)))]),
        }
    }

    fn call_summary(&self, body: &Body<'tcx>, env: TypingEnv<'tcx>, term: &Terminator<'tcx>) -> J {
        if let TerminatorKind::Call { func, fn_span, .. } = &term.kind {
            let mut o = vec![];
            o.push(("f", self.operand(body, env, func)));
            o.push(("line", J::Int(self.line(*fn_span))));
            o.push(("mac", self.macs(term.source_info.span)));
            return J::Obj(o);
        }
        J::Null
    }

    fn terminator(&self, body: &Body<'tcx>, env: TypingEnv<'tcx>, term: &Terminator<'tcx>, _cleanup: bool) -> J {
        let bbj = |b: BasicBlock| J::Int(b.as_u32() as i128);
        let span = term.source_info.span;
        match &term.kind {
            TerminatorKind::Goto { target } => J::Obj(vec![("k", s("goto")), ("t", bbj(*target))]),
            TerminatorKind::SwitchInt { discr, targets } => {
                let mut ts = vec![];
                for (v, t) in targets.iter() {
                    ts.push(J::Arr(vec![J::Int(v as i128), bbj(t)]));
                }
                J::Obj(vec![
                    ("k", s("switch")),
                    ("op", self.operand(body, env, discr)),
                    ("ty", s(format!("{}", discr.ty(body, self.tcx)))),
                    ("targets", J::Arr(ts)),
                    ("otherwise", bbj(targets.otherwise())),
                    ("exp", J::Bool(span.from_expansion())),
                    ("mac", self.macs(span)),
                    ("line", J::Int(self.line(span))),
                ])
            }
            TerminatorKind::Return => J::Obj(vec![("k", s("return"))]),
            TerminatorKind::Unreachable => J::Obj(vec![("k", s("unreachable"))]),
            TerminatorKind::UnwindResume => J::Obj(vec![("k", s("resume"))]),
            TerminatorKind::UnwindTerminate(_) => J::Obj(vec![("k", s("terminate"))]),
            TerminatorKind::Drop { place, target, .. } => J::Obj(vec![
                ("k", s("drop")),
                ("p", self.place(body, place)),
                ("t", bbj(*target)),
            ]),
            TerminatorKind::Call { func, args, destination, target, fn_span, .. } => {
                let mut a = vec![];
                for x in args.iter() {
                    a.push(self.operand(body, env, &x.node));
                }
                J::Obj(vec![
                    ("k", s("call")),
                    ("f", self.operand(body, env, func)),
                    ("args", J::Arr(a)),
                    ("dst", self.place(body, destination)),
                    ("t", target.map(bbj).unwrap_or(J::Null)),
                    ("exp", J::Bool(span.from_expansion())),
                    ("mac", self.macs(span)),
                    ("line", J::Int(self.line(*fn_span))),
                    ("rawline", J::Int({
                        let sm = self.tcx.sess.source_map();
                        sm.lookup_char_pos(fn_span.lo()).line as i128
                    })),
                ])
            }
            TerminatorKind::Assert { cond, expected, msg, target, .. } => {
                let mut o = vec![
                    ("k", s("assert")),
                    ("cond", self.operand(body, env, cond)),
                    ("expected", J::Bool(*expected)),
                    ("t", bbj(*target)),
                    ("exp", J::Bool(span.from_expansion())),
                    ("mac", self.macs(span)),
                    ("line", J::Int(self.line(span))),
                ];
                match &**msg {
                    AssertKind::BoundsCheck { len, index } => {
                        o.push(("kind", s("BoundsCheck")));
                        o.push(("len", self.operand(body, env, len)));
                        o.push(("index", self.operand(body, env, index)));
                    }
                    AssertKind::Overflow(op, l, r) => {
                        o.push(("kind", s(format!("Overflow({:?})", op))));
                        o.push(("l", self.operand(body, env, l)));
                        o.push(("r", self.operand(body, env, r)));
                    }
                    AssertKind::OverflowNeg(_) => o.push(("kind", s("OverflowNeg"))),
                    AssertKind::DivisionByZero(_) => o.push(("kind", s("DivisionByZero"))),
                    AssertKind::RemainderByZero(_) => o.push(("kind", s("RemainderByZero"))),
                    _ => o.push(("kind", s("OtherAssert"))),
                }
                J::Obj(o)
            }
            TerminatorKind::FalseEdge { real_target, .. } => {
                J::Obj(vec![("k", s("goto")), ("t", bbj(*real_target))])
            }
            TerminatorKind::FalseUnwind { real_target, .. } => {
                J::Obj(vec![("k", s("goto")), ("t", bbj(*real_target))])
            }
            other => J::Obj(vec![("k", s("otherterm")), ("dbg", s(format!("{:?}", std::mem::discriminant(other))))]),
        }
    }
}

// FnDef generic args are not behind a binder on this toolchain; the helper
// keeps the call site readable if that ever changes.
trait SkipBinderIfNeeded<'tcx> {
    fn skip_binder_if_needed(self) -> ty::GenericArgsRef<'tcx>;
}
impl<'tcx> SkipBinderIfNeeded<'tcx> for ty::GenericArgsRef<'tcx> {
    fn skip_binder_if_needed(self) -> ty::GenericArgsRef<'tcx> {
        self
    }
}

#[allow(dead_code)]
fn _unused<'tcx>(_: Ty<'tcx>) {}
